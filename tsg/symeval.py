"""Closed-form evaluation of integer extent expressions (R-EXTENT).

Expressions are interpreted over an environment that maps *resolved* accessor calls / members /
parameters to symbols; two extents are compared by evaluating both closed forms on a lattice of
symbol values (they are polynomials of degree <= 2 in each symbol with finitely many case
splits, so agreement on the lattice is agreement of the forms).  Nothing of Tasmanian is run."""
import itertools

from .facts import strip, txt, callee, call_args, call_object, const_val


class Unknown(Exception):
    pass


def ev(n, env, resolve):
    """evaluate expression node n.  resolve(node) -> symbol name or None for calls/members/vars;
    env: symbol -> int"""
    n = strip(n)
    if n is None:
        raise Unknown("empty")
    cv = const_val(n)
    if cv is not None:
        return cv
    k = n.get("k")
    c = n.get("c") or []
    sym = resolve(n)
    if sym is not None:
        if sym not in env:
            raise Unknown("symbol " + sym)
        return env[sym]
    if k == "ConditionalOperator":
        return ev(c[1], env, resolve) if ev(c[0], env, resolve) else ev(c[2], env, resolve)
    if k == "BinaryOperator":
        op = n.get("op")
        if op == "&&":
            return int(bool(ev(c[0], env, resolve)) and bool(ev(c[1], env, resolve)))
        if op == "||":
            return int(bool(ev(c[0], env, resolve)) or bool(ev(c[1], env, resolve)))
        a, b = ev(c[0], env, resolve), ev(c[1], env, resolve)
        try:
            return int({"+": a + b, "-": a - b, "*": a * b, "==": a == b, "!=": a != b, "<": a < b, "<=": a <= b,
                        ">": a > b, ">=": a >= b}[op])
        except KeyError:
            if op == "/" and b != 0:
                return a // b
            raise Unknown("operator " + str(op))
    if k == "UnaryOperator" and n.get("op") in ("!", "-"):
        v = ev(c[0], env, resolve)
        return int(not v) if n["op"] == "!" else -v
    if k == "CallExpr" and callee(n) == "TasGrid::Utils::size_mult":
        a = call_args(n)
        return ev(a[0], env, resolve) * ev(a[1], env, resolve)
    raise Unknown("cannot evaluate %s: %s" % (k, txt(n)[:60]))


def value_of_var_at(fn, did, at_node, env, resolve):
    """value of local variable `did` when control reaches at_node, interpreting its declaration
    and the (conditional) compound assignments that dominate... simple structured subset:
        T v = init;   if (c) v *= e;   if (c) v = e;   v *= e;
    all at the top nesting level of the function body before at_node."""
    val = None
    found = False
    for st in fn.body.get("c", []):
        if at_node is not None and st.get("l", 0) >= at_node.get("l", 10 ** 9) and found:
            break
        if st.get("k") == "DeclStmt":
            for d in st.get("c", []):
                if d.get("did") == did:
                    val = ev(d["c"][0], env, resolve)
                    found = True
            continue
        if not found:
            continue

        def apply(s, val):
            s = strip(s)
            if s.get("k") in ("CompoundAssignOperator", "BinaryOperator") and s.get("op") in ("*=", "+=", "=", "-="):
                lhs = strip(s["c"][0])
                if lhs.get("k") == "DeclRefExpr" and lhs.get("did") == did:
                    r = ev(s["c"][1], env, resolve)
                    return {"*=": val * r, "+=": val + r, "-=": val - r, "=": r}[s["op"]]
            return val
        if st.get("k") == "IfStmt":
            def writes(b):
                for x in _walk(b):
                    if x.get("k") in ("CompoundAssignOperator", "BinaryOperator") and x.get("op") in ("*=", "+=", "=", "-=", "/="):
                        l = strip(x["c"][0])
                        if l.get("k") == "DeclRefExpr" and l.get("did") == did:
                            return True
                    if x.get("k") == "UnaryOperator" and x.get("op") in ("++", "--"):
                        l = strip(x["c"][0])
                        if l.get("k") == "DeclRefExpr" and l.get("did") == did:
                            return True
                return False
            touches = writes(st.get("then")) or writes(st.get("else"))
            if touches:
                cv = ev(st["cond"], env, resolve)
                br = st.get("then") if cv else st.get("else")
                if br is not None:
                    stmts = br.get("c", []) if br.get("k") == "CompoundStmt" else [br]
                    for s in stmts:
                        val = apply(s, val)
        else:
            val = apply(st, val)
    if not found:
        raise Unknown("declaration of variable not found at top level")
    return val


def _walk(n):
    from .facts import walk
    return walk(n) if n is not None else []


def lattice(symbols, values=None):
    values = values or {}
    names = sorted(symbols)
    doms = [values.get(s, (2, 3, 5)) for s in names]
    for combo in itertools.product(*doms):
        yield dict(zip(names, combo))
