"""Obligation bookkeeping, verdicts, evidence files and known findings."""
import json
import os
import sys
import time

from .build import AnalysisBroken, VERIF

KNOWN_FILE = os.path.join(VERIF, "known_findings.json")


class Check:
    def __init__(self, prop, tier="quick", seed=0):
        self.prop = prop
        self.tier = tier
        self.seed = seed
        self.t0 = time.time()
        self.obls = []          # every obligation evaluated
        self.notes = []         # informational (not analysable, under-claims, ...)
        self.rules = {}         # rule id -> description
        self.analysed = {"functions": set(), "files": set()}
        self.assumptions = []
        self.only = None        # replay filter: obligation id

    # -- recording ---------------------------------------------------------------
    def rule(self, rid, text):
        self.rules[rid] = text

    def saw(self, fn):
        self.analysed["functions"].add(fn.key + fn.sig)
        self.analysed["files"].add(fn.file)

    def absorb(self, sub):
        """functions / files analysed by a shared sub-check count as analysed here"""
        self.analysed["functions"] |= sub.analysed["functions"]
        self.analysed["files"] |= sub.analysed["files"]
        for a in sub.assumptions:
            self.assume(a)

    def ob(self, rule, function, construct, ok, where, detail="", expected=""):
        """one obligation = one instance of a rule.  'construct' identifies the instance
        independent of line numbers (it is the key used by known_findings.json)."""
        oid = "%s|%s|%s" % (rule, function, construct)
        if self.only is not None and oid != self.only:
            return ok
        self.obls.append({"id": oid, "rule": rule, "function": function, "construct": construct, "ok": bool(ok),
                          "where": where, "detail": detail, "expected": expected})
        return ok

    def note(self, rule, where, text):
        self.notes.append({"rule": rule, "where": where, "text": text})

    def floor(self, rule, count, minimum, what):
        """a rule that matches fewer instances than confirmed by hand is broken, not passing"""
        if self.only is not None:
            return
        if count < minimum:
            raise AnalysisBroken("%s: %s matched %d instance(s) of '%s', floor is %d" % (self.prop, rule, count, what, minimum))

    def assume(self, text):
        if text not in self.assumptions:
            self.assumptions.append(text)

    # -- verdict -----------------------------------------------------------------
    def finish(self, explanation):
        known = []
        if os.path.exists(KNOWN_FILE):
            kf = json.load(open(KNOWN_FILE))
            known = [k for k in kf.get("known", []) if k["property"] == self.prop]
        failed = [o for o in self.obls if not o["ok"]]
        new, listed = [], []
        for o in failed:
            hit = None
            for k in known:
                if k["rule"] == o["rule"] and k["function"] == o["function"] and k["construct"] == o["construct"]:
                    hit = k
                    break
            (listed if hit else new).append((o, hit))
        printed = set()
        for o, k in listed:
            if id(k) in printed:
                continue
            printed.add(id(k))
            print("KNOWN-FINDING: property=%s %s [%s @ %s : %s] %s" % (self.prop, k.get("id", ""), o["rule"], o["function"], o["construct"], k["what"]))
        vdir = os.path.join(VERIF, ".work", "violations")
        for i, (o, _) in enumerate(new):
            os.makedirs(vdir, exist_ok=True)
            path = os.path.join(vdir, "%s-%d.json" % (self.prop, i))
            with open(path, "w") as fh:
                json.dump({"property": self.prop, "obligation": o, "rule_text": self.rules.get(o["rule"], "")}, fh, indent=1)
            print("%s: %s violated in %s: %s  -- %s%s" % (o["where"], o["rule"], o["function"], o["construct"], o["detail"],
                                                          (" (expected: %s)" % o["expected"]) if o["expected"] else ""))
            print("VIOLATION property=%s replay=%s" % (self.prop, path))
        nobl = len(self.obls)
        ndis = nobl - len(failed)
        by_rule = {}
        for o in self.obls:
            r = by_rule.setdefault(o["rule"], {"obligations": 0, "discharged": 0})
            r["obligations"] += 1
            r["discharged"] += 1 if o["ok"] else 0
        samples = []
        seen_rules = set()
        for o in self.obls:           # at least one sample per rule, then fill up
            if o["rule"] not in seen_rules:
                seen_rules.add(o["rule"])
                samples.append(o)
        for o in self.obls:
            if len(samples) >= 40:
                break
            if o not in samples:
                samples.append(o)
        ev = {
            "property_id": self.prop,
            "tier": self.tier,
            "seed": self.seed,
            "level": "other",
            "coverage": {
                "explanation": explanation,
                "obligations": nobl,
                "discharged": ndis,
                "known_findings_reported": len(listed),
                "new_violations": len(new),
                "rules": {r: {"text": self.rules.get(r, ""), **by_rule.get(r, {"obligations": 0, "discharged": 0})} for r in sorted(set(self.rules) | set(by_rule))},
                "functions_analysed": len(self.analysed["functions"]),
                "files_analysed": sorted(self.analysed["files"]),
                "functions": sorted(self.analysed["functions"])[:400],
                "samples": [{"rule": o["rule"], "function": o["function"], "construct": o["construct"], "where": o["where"],
                             "verdict": "discharged" if o["ok"] else "failed", "detail": o["detail"]} for o in samples],
                "failed": [{"rule": o["rule"], "function": o["function"], "construct": o["construct"], "where": o["where"],
                            "detail": o["detail"], "known": bool(k)} for o, k in listed + new],
                "notes": self.notes[:200],
                "exhaustive": True,
                "checker_cmd": "./check %s --tier %s" % (self.prop, self.tier),
            },
            "assumptions": self.assumptions,
            "wall_s": round(time.time() - self.t0, 3),
            "violations": len(new),
        }
        os.makedirs(_evidence_dir(), exist_ok=True)
        path = os.path.join(_evidence_dir(), self.prop + ".json")
        tmp = path + ".tmp%d" % os.getpid()
        with open(tmp, "w") as fh:
            json.dump(ev, fh, indent=1)
        os.replace(tmp, path)
        print("%s [%s]: %d obligation(s), %d discharged, %d known finding(s), %d new violation(s); %d function(s) analysed, %.1fs"
              % (self.prop, self.tier, nobl, ndis, len(listed), len(new), len(self.analysed["functions"]), time.time() - self.t0))
        for r in sorted(by_rule):
            print("   %-22s %3d/%-3d  %s" % (r, by_rule[r]["discharged"], by_rule[r]["obligations"], self.rules.get(r, "")[:110]))
        if nobl == 0 and self.only is None:
            print("ANALYSIS-BROKEN: no obligations generated")
            return 2
        return 1 if new else 0


def _evidence_dir():
    """/verif/evidence describes the unchanged /repo only: a development run against another tree (TSG_REPO) and the runs on a mutated or seeded /repo (tools/mut.sh, tools/try_seed.sh set TSG_SCRATCH_EVIDENCE) write under .work"""
    if os.environ.get("TSG_SCRATCH_EVIDENCE") or (os.environ.get("TSG_REPO") and os.path.realpath(os.environ["TSG_REPO"]) != "/repo"):
        return os.path.join(VERIF, ".work", "evidence-dev")
    return os.path.join(VERIF, "evidence")


def write_broken_evidence(prop, tier, msg, t0):
    ev = {"property_id": prop, "tier": tier, "seed": 0, "level": "other",
          "coverage": {"explanation": "ANALYSIS BROKEN (exit 2), no verdict: " + msg, "obligations": 0, "discharged": 0},
          "wall_s": round(time.time() - t0, 3), "violations": 0}
    os.makedirs(_evidence_dir(), exist_ok=True)
    with open(os.path.join(_evidence_dir(), prop + ".json"), "w") as fh:
        json.dump(ev, fh, indent=1)
