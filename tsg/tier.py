"""Depth knobs of the thorough tier (set by ./check --tier thorough)."""
import os


def deep():
    return os.environ.get("TSG_DEEP") == "1"


def pick(quick, thorough):
    return thorough if deep() else quick
