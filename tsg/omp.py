"""R-OMP: data-sharing classification of writes inside OpenMP regions (directive tree, -fopenmp facts)."""
from .facts import strip, txt, callee, call_args, call_object, walk, children, callee_node
from .flow import element_writes, base_var, is_accessor, ASSIGN_OPS
from .typestate import member_of

PARALLEL = ("parallel", "parallel for", "parallel for simd", "parallel sections")
WORKSHARE = ("for", "parallel for", "parallel for simd", "for simd")
EXCLUSIVE = ("critical", "atomic", "single", "master")


def omp_nodes(fn):
    return [n for n in fn.walk() if "omp" in n]


def loop_var_of(dirnode):
    """iteration variable (did) of the for loop associated with a worksharing directive"""
    for ch in dirnode.get("c", []):
        s = ch
        while s is not None and s.get("k") == "CompoundStmt" and len(s.get("c", [])) == 1:
            s = s["c"][0]
        if s is not None and s.get("k") == "ForStmt" and s.get("init") is not None:
            for x in walk(s["init"]):
                if x.get("k") == "VarDecl":
                    return x["did"], s
                if x.get("k") == "BinaryOperator" and x.get("op") == "=":
                    l = strip(x["c"][0])
                    if l.get("k") == "DeclRefExpr":
                        return l.get("did"), s
    return None, None


class Region:
    def __init__(self, fn, node):
        self.fn = fn
        self.node = node
        self.private = set()
        self.loopvars = set()
        self.reduction = set()
        self.exclusive = []       # critical/atomic sub-nodes
        body_nodes = list(walk(node))
        for n in body_nodes:
            if n.get("k") == "VarDecl" and "did" in n and n is not node:
                if not n.get("staticlocal"):
                    self.private.add(n["did"])
            if n.get("k") == "CXXForRangeStmt" and n.get("lv") is not None:
                self.private.add(n["lv"]["did"])
            if "omp" in n:
                for c in n.get("clauses", []):
                    if c["kind"] in ("private", "firstprivate", "lastprivate", "linear"):
                        self.private |= {v["did"] for v in c["vars"]}
                    if c["kind"] == "reduction":
                        self.reduction |= {v["did"] for v in c["vars"]}
                if n["omp"] in WORKSHARE:
                    lv, loop = loop_var_of(n)
                    if lv is not None:
                        self.loopvars.add(lv)
                        self.private.add(lv)
                if n["omp"] in EXCLUSIVE:
                    self.exclusive.append(n)
        # lambda parameters / captured-by-value are private to the call
        for n in body_nodes:
            if n.get("k") == "LambdaExpr":
                for p in n.get("params", []):
                    self.private.add(p["did"])
        # private variables derived from the worksharing loop variable (int *p = m.getStrip(i); size_t k = i*d;)
        self.derived = set(self.loopvars)
        changed = True
        while changed:
            changed = False
            for n in body_nodes:
                if n.get("k") == "VarDecl" and n.get("did") in self.private and n["did"] not in self.derived and n.get("c"):
                    if any(x.get("k") == "DeclRefExpr" and x.get("did") in self.derived for x in walk(n["c"][0])):
                        self.derived.add(n["did"])
                        changed = True
                if n.get("k") == "BinaryOperator" and n.get("op") == "=":
                    l = strip(n["c"][0])
                    if l.get("k") == "DeclRefExpr" and l.get("did") in self.private and l["did"] not in self.derived:
                        if any(x.get("k") == "DeclRefExpr" and x.get("did") in self.derived for x in walk(n["c"][1])):
                            self.derived.add(l["did"])
                            changed = True

    def in_exclusive(self, n):
        for e in self.exclusive:
            if any(x is n for x in walk(e)):
                return e
        return None

    def mentions_loopvar(self, e):
        return any(x.get("k") == "DeclRefExpr" and x.get("did") in self.derived for x in walk(e))

    def shared_writes(self):
        """yield (node, target expression, root description, kind) for every write in the region whose
        target is not thread-private.  kind: 'assign' | 'update' | 'container' (size-changing call)"""
        fn = self.fn
        for n in walk(self.node):
            k = n.get("k")
            c = n.get("c") or []
            targets = []
            if k in ("BinaryOperator", "CompoundAssignOperator") and n.get("op") in ASSIGN_OPS:
                targets.append((c[0], "assign" if n.get("op") == "=" else "update"))
            elif k == "UnaryOperator" and n.get("op") in ("++", "--"):
                targets.append((c[0], "update"))
            elif k in ("CallExpr", "CXXMemberCallExpr", "CXXOperatorCallExpr", "CXXConstructExpr", "CXXTemporaryObjectExpr"):
                args = call_args(n)
                for i in n.get("mutargs", []):
                    if i < len(args):
                        a = strip(args[i])
                        if a is not None and a.get("k") == "UnaryOperator" and a.get("op") == "&":
                            a = strip(a["c"][0])
                        if a is not None:
                            targets.append((a, "update"))
                if k == "CXXMemberCallExpr":
                    h = strip(c[0], casts=False)
                    if h is not None and not h.get("cm") and not h.get("static") and not is_accessor(h.get("fn", "")):
                        o = call_object(n)
                        if o is not None:
                            targets.append((o, "container"))
                if k == "CXXOperatorCallExpr" and n.get("op") in ASSIGN_OPS + ("++", "--") and args:
                    targets.append((args[0], "assign" if n.get("op") == "=" else "update"))
            for t, kind in targets:
                root = base_var(t)
                mem = member_of(t)
                if root is not None and root in self.private:
                    # private pointer/reference aliases of shared data: T *p = shared.getStrip(i)
                    d = fn.locals().get(root)
                    ty = (d or {}).get("t", "")
                    if d is not None and (ty.endswith("*") or ty.endswith("&") or d.get("ref")) and d.get("c"):
                        src = d["c"][0]
                        sroot = base_var(src)
                        smem = member_of(src)
                        if (sroot is not None and sroot not in self.private) or smem:
                            yield n, t, (txt(strip(src)), src), kind
                    continue
                if root is None and mem is None:
                    continue
                yield n, t, (txt(strip(t)), None), kind
