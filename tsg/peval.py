"""Partial evaluation of loop-free C++ functions into sympy closed forms (R-SYMBOLIC).

Template constants are already folded in the facts; integer parameters are bound to concrete
values, floating-point parameters to symbols.  if / switch / ?: on decidable conditions select a
branch, undecidable conditions produce Piecewise expressions.  Loops, writes through pointers and
unknown callees raise NotClosedForm (the obligation is then reported as not analysable)."""
import sympy

from .facts import strip, txt, callee, call_args, const_val, callee_node, walk
from .sym import to_sympy, NotClosedForm

INT_HELPERS = {
    "TasGrid::Maths::int2log2": lambda i: 1 << (int(i).bit_length() - 1) if int(i) > 0 else 1,
    "TasGrid::Maths::intlog2": lambda i: (int(i).bit_length() - 1) if int(i) > 0 else 0,
    "TasGrid::Maths::int3log3": lambda i: _int3log3(int(i)),
    "TasGrid::Maths::pow2": lambda i: 2 ** int(i),
    "TasGrid::Maths::pow3": lambda i: 3 ** int(i),
}


def _int3log3(i):
    r = 1
    while i >= 1:
        i //= 3
        if i >= 1:
            r *= 3
        else:
            break
    return r


class PEval:
    def __init__(self, db, max_depth=8):
        self.db = db
        self.max_depth = max_depth

    def call(self, fn, args, depth=0):
        """args: list of sympy values for the parameters (output reference parameters may be None)"""
        if depth > self.max_depth:
            raise NotClosedForm("call depth")
        env = {}
        for p, a in zip(fn.params(), args):
            env[p["did"]] = a
        body = fn.body
        r = self.stmts(body.get("c", []) if body.get("k") == "CompoundStmt" else [body], env, fn, depth)
        if r is None:
            raise NotClosedForm("no return value in " + fn.key)
        return r

    def resolver(self, env, fn, depth):
        def res(n):
            k = n.get("k")
            if k == "DeclRefExpr" and "did" in n:
                if n["did"] in env:
                    v = env[n["did"]]
                    if v is None:
                        raise NotClosedForm("use of an output parameter")
                    return v
                if "cv" in n:
                    return sympy.Integer(int(n["cv"]))
                return None
            if k == "CallExpr":
                cal = callee(n) or ""
                if cal in INT_HELPERS:
                    a = self.expr(call_args(n)[0], env, fn, depth)
                    if not a.is_Integer:
                        raise NotClosedForm("integer helper on a symbolic argument")
                    return sympy.Integer(INT_HELPERS[cal](int(a)))
                t = self.db.resolve(n)
                if t is not None and not cal.startswith("std::"):
                    vals = []
                    for p, a in zip(t.params(), call_args(n)):
                        if "&" in p["t"] and "const" not in p["t"]:
                            vals.append(None)
                        else:
                            vals.append(self.expr(a, env, fn, depth))
                    return self.call(t, vals, depth + 1)
            if k == "CXXOperatorCallExpr" and n.get("op") == "()":
                # call of a lambda: an immediately invoked one, or a local variable holding one.  Captures by reference share the
                # caller's environment (the lambda's own parameters and locals have their own declaration ids)
                ch = [x for x in n.get("c", []) if isinstance(x, dict)]
                target = strip(ch[1]) if len(ch) > 1 else None
                lam = None
                if target is not None and target.get("k") == "LambdaExpr":
                    lam = target
                elif target is not None and target.get("k") == "DeclRefExpr" and "did" in target:
                    d = next((v for v in fn.locals().values() if v.get("did") == target["did"]), None)
                    for c0 in (d or {}).get("c", []):
                        if isinstance(c0, dict):
                            lam = next((q for q in [strip(c0)] + list(self._walk(c0)) if q is not None and q.get("k") == "LambdaExpr"), None)
                if lam is not None:
                    lf = self._lambda_fn(fn, lam)
                    if lf is None:
                        raise NotClosedForm("lambda body not found")
                    for prm, a in zip(lf.params(), ch[2:]):
                        env[prm["did"]] = self.expr(a, env, fn, depth)
                    body = lf.body
                    r = self.stmts(body.get("c", []) if body.get("k") == "CompoundStmt" else [body], env, lf, depth + 1)
                    if r is None:
                        raise NotClosedForm("lambda without a value")
                    return r
            if k == "BinaryOperator" and n.get("op") == "=":
                # assignment used as an expression (return v = e;): its value is the right-hand side
                lhs = strip(n["c"][0])
                v = self.expr(n["c"][1], env, fn, depth)
                if lhs is not None and lhs.get("k") == "DeclRefExpr" and "did" in lhs:
                    env[lhs["did"]] = v
                return v
            if k == "BinaryOperator" and n.get("op") == "%":
                a, b = self.expr(n["c"][0], env, fn, depth), self.expr(n["c"][1], env, fn, depth)
                if a.is_Integer and b.is_Integer:
                    return sympy.Integer(int(a) % int(b))
                raise NotClosedForm("symbolic modulo")
            return None
        return res

    @staticmethod
    def _walk(n):
        from .facts import walk as _w
        return _w(n)

    def _lambda_fn(self, fn, lam):
        key = lam.get("lambda")
        for g in self.db.all_functions([fn.file]):
            if g.d.get("islambda") and g.key == key:
                return g
        return None

    def expr(self, e, env, fn, depth):
        return to_sympy(e, self.resolver(env, fn, depth))

    def cond(self, e, env, fn, depth):
        v = self.expr(e, env, fn, depth)
        if v is sympy.true or v is sympy.false:
            return bool(v), v
        if getattr(v, "is_Integer", False) or getattr(v, "is_number", False):
            return bool(v != 0), v
        if isinstance(v, sympy.logic.boolalg.Boolean) or getattr(v, "is_Relational", False):
            s = sympy.simplify(v)
            if s is sympy.true or s is sympy.false:
                return bool(s), s
            return None, v
        return None, v

    MAX_ITER = 256

    def loop(self, st, env, fn, depth):
        if st.get("k") == "ForStmt" and st.get("init") is not None:
            r = self.inplace([st["init"]], env, fn, depth)
            if r is not None:
                raise NotClosedForm("control flow in a loop initialiser")
        for it in range(self.MAX_ITER):
            if st.get("cond") is not None:
                truth, _ = self.cond(st["cond"], env, fn, depth)
                if truth is None:
                    raise NotClosedForm("loop condition depends on a symbolic value")
                if not truth:
                    return None
            r = self.inplace([st.get("body")], env, fn, depth)
            if r is not None:
                if r[0] == "return":
                    return r
                if r[0] == "break":
                    return None
            if st.get("k") == "ForStmt" and st.get("inc") is not None:
                self.inplace([st["inc"]], env, fn, depth)
        raise NotClosedForm("loop does not terminate within %d iterations" % self.MAX_ITER)

    def inplace(self, lst, env, fn, depth):
        """sequential execution that updates env in place; every branch condition must be decided.
        Returns None (fell through), ("return", value), ("break",) or ("continue",)"""
        for st in lst:
            if st is None:
                continue
            k = st.get("k")
            if k == "CompoundStmt":
                r = self.inplace(st.get("c", []), env, fn, depth)
                if r is not None:
                    return r
                continue
            if k == "ReturnStmt":
                return ("return", self.expr(st["c"][0], env, fn, depth) if st.get("c") else None)
            if k == "CXXThrowExpr" or (k == "ExprWithCleanups" and st.get("c") and (strip(st["c"][0]) or {}).get("k") == "CXXThrowExpr"):
                return ("throw",)
            if k == "BreakStmt":
                return ("break",)
            if k == "ContinueStmt":
                return ("continue",)
            if k == "IfStmt":
                truth, _ = self.cond(st["cond"], env, fn, depth)
                if truth is None:
                    raise NotClosedForm("branch inside a loop depends on a symbolic value")
                r = self.inplace([st.get("then") if truth else st.get("else")], env, fn, depth)
                if r is not None:
                    return r
                continue
            if k in ("ForStmt", "WhileStmt"):
                r = self.loop(st, env, fn, depth)
                if r is not None:
                    return r
                continue
            if k in ("DeclStmt", "BinaryOperator", "CompoundAssignOperator", "UnaryOperator", "NullStmt"):
                r = self.stmts([st], env, fn, depth)      # straight-line statements update env in place
                if r is not None:
                    raise NotClosedForm("unexpected value")
                continue
            raise NotClosedForm("statement " + str(k) + " inside a loop")
        return None

    def stmts(self, lst, env, fn, depth):
        """value returned by executing the statement list (None if it falls through)"""
        for i, st in enumerate(lst):
            if st is None:
                continue
            k = st.get("k")
            rest = lst[i + 1:]
            if k == "CompoundStmt":
                return self.stmts(list(st.get("c", [])) + rest, env, fn, depth)
            if k == "ReturnStmt":
                return self.expr(st["c"][0], env, fn, depth) if st.get("c") else None
            if k == "DeclStmt":
                for d in st.get("c", []):
                    if d.get("c"):
                        init = strip(d["c"][0])
                        if init is not None and init.get("k") == "LambdaExpr":
                            continue        # a local lambda: evaluated where it is called
                        env[d["did"]] = self.expr(d["c"][0], env, fn, depth)
                continue
            if k == "IfStmt":
                truth, c = self.cond(st["cond"], env, fn, depth)
                if truth is True:
                    return self.stmts([st.get("then")] + rest, dict(env), fn, depth)
                if truth is False:
                    return self.stmts(([st.get("else")] if st.get("else") is not None else []) + rest, dict(env), fn, depth)
                a = self.stmts([st.get("then")] + rest, dict(env), fn, depth)
                b = self.stmts(([st.get("else")] if st.get("else") is not None else []) + rest, dict(env), fn, depth)
                if a is None or b is None:
                    raise NotClosedForm("branch without a value")
                return sympy.Piecewise((a, c), (b, True))
            if k == "SwitchStmt":
                v = self.expr(st["cond"], env, fn, depth)
                if not getattr(v, "is_Integer", False):
                    raise NotClosedForm("switch on a symbolic value")
                body = st["body"].get("c", []) if st.get("body") is not None else []
                # flatten case labels: a case's statement may itself be a case (fall-through labels)
                seq = []

                def flat(s):
                    if s is None:
                        return
                    if s.get("k") in ("CaseStmt", "DefaultStmt"):
                        seq.append(("label", s))
                        flat(s.get("sub"))
                    else:
                        seq.append(("stmt", s))
                for s in body:
                    flat(s)
                start = None
                for j, (kind, s) in enumerate(seq):
                    if kind == "label" and s.get("k") == "CaseStmt" and const_val(s.get("lhs")) == int(v):
                        start = j
                        break
                if start is None:
                    for j, (kind, s) in enumerate(seq):
                        if kind == "label" and s.get("k") == "DefaultStmt":
                            start = j
                            break
                if start is None:
                    continue
                run = [s for kind, s in seq[start:] if kind == "stmt"]
                # a break leaves the switch
                out = []
                for s in run:
                    if s.get("k") == "BreakStmt":
                        break
                    out.append(s)
                r = self.stmts(out + rest, dict(env), fn, depth)
                return r
            if k in ("BinaryOperator", "CompoundAssignOperator") and st.get("op") in ("=", "*=", "+=", "-=", "/="):
                lhs = strip(st["c"][0])
                if lhs.get("k") == "DeclRefExpr" and "did" in lhs:
                    r = self.expr(st["c"][1], env, fn, depth)
                    if env.get(lhs["did"], 0) is None and st["op"] == "=":
                        env[lhs["did"]] = r     # output reference (isSupported = ...): remember it, later reads are allowed
                        continue
                    cur = env.get(lhs["did"])
                    op = st["op"]
                    if op == "=":
                        env[lhs["did"]] = r
                    elif cur is None:
                        raise NotClosedForm("compound assignment to an unset variable")
                    else:
                        env[lhs["did"]] = cur * r if op == "*=" else cur + r if op == "+=" else cur - r if op == "-=" else (sympy.floor(cur / r) if st.get("t") in ("int", "long", "size_t", "unsigned long", "unsigned int", "long long") else cur / r)
                    continue
                raise NotClosedForm("assignment to " + txt(lhs))
            if k == "UnaryOperator" and st.get("op") in ("++", "--"):
                tgt = strip(st["c"][0])
                if tgt.get("k") == "DeclRefExpr" and tgt.get("did") in env and env[tgt["did"]] is not None:
                    env[tgt["did"]] = env[tgt["did"]] + (1 if st["op"] == "++" else -1)
                    continue
                raise NotClosedForm("increment of " + txt(tgt))
            if k in ("ForStmt", "WhileStmt"):
                # a loop is folded only when every condition it evaluates is decided by the (concrete) environment
                r = self.loop(st, env, fn, depth)
                if r is not None and r[0] == "return":
                    return r[1]
                continue
            if k in ("DoStmt", "CXXForRangeStmt"):
                raise NotClosedForm("loop")
            if k == "NullStmt":
                continue
            raise NotClosedForm("statement " + str(k))
        return None


class Opaque:
    """value of a local whose initialiser is not a closed form (a pointer into a container, ...)"""
    def __repr__(self):
        return "<opaque>"


OPAQUE = Opaque()


class ArrayPEval(PEval):
    """PEval with local arrays: element reads / writes of local std::vector or C arrays with concrete indices, a hook that maps
    selected expressions to symbols (e.g. cache[k][p[k]] -> V_k) and bindings for data members.  Used to fold loop nests whose
    trip counts are concrete (num_dimensions = 1..4) into closed forms."""

    def __init__(self, db, hook=None, members=None, max_depth=8):
        super().__init__(db, max_depth)
        self.hook = hook
        self.members = members or {}
        self.tracked = None       # set of variable ids whose assigned values are collected in self.assigned
        self.assigned = []

    @staticmethod
    def _element(n):
        """(base DeclRefExpr, index expr) for v[i] on a local vector / array / pointer"""
        n = strip(n)
        if n is None:
            return None
        if n.get("k") == "ArraySubscriptExpr":
            b = strip(n["c"][0])
            if b is not None and b.get("k") == "DeclRefExpr" and "did" in b:
                return b, n["c"][1]
        if n.get("k") == "CXXOperatorCallExpr" and n.get("op") == "[]":
            ch = [c for c in n.get("c", []) if isinstance(c, dict)]
            b = strip(ch[-2])
            if b is not None and b.get("k") == "DeclRefExpr" and "did" in b:
                return b, ch[-1]
        return None

    def resolver(self, env, fn, depth):
        base = super().resolver(env, fn, depth)

        def res(n):
            if self.hook is not None:
                v = self.hook(n, lambda e: self.expr(e, env, fn, depth))
                if v is not None:
                    return v
            if n.get("k") == "MemberExpr" and n.get("field") in self.members:
                return self.members[n["field"]]
            el = self._element(n)
            if el is not None and isinstance(env.get(el[0]["did"]), dict):
                i = self.expr(el[1], env, fn, depth)
                if not getattr(i, "is_Integer", False):
                    raise NotClosedForm("symbolic array index")
                arr = env[el[0]["did"]]
                if int(i) not in arr:
                    raise NotClosedForm("read of an unset array element %s[%d]" % (el[0].get("var"), int(i)))
                return arr[int(i)]
            if n.get("k") == "DeclRefExpr" and env.get(n.get("did")) is OPAQUE:
                raise NotClosedForm("use of opaque local " + str(n.get("var")))
            return base(n)
        return res

    def inplace(self, lst, env, fn, depth):
        # an `if` whose condition is symbolic is stepped over when neither branch assigns one of the tracked variables
        # (used to collect the values a loop assigns to a variable; the guarded bodies only consume it)
        out = []
        for st in lst:
            if st is not None and st.get("k") == "IfStmt" and getattr(self, "tracked", None) is not None:
                try:
                    truth, _ = self.cond(st["cond"], env, fn, depth)
                except NotClosedForm:
                    truth = None
                if truth is None:
                    for q in walk(st):
                        if q.get("k") in ("BinaryOperator", "CompoundAssignOperator") and q.get("op") in ("=", "+=", "-=", "*=", "/="):
                            l = strip(q["c"][0])
                            if l is not None and l.get("k") == "DeclRefExpr" and l.get("did") in self.tracked:
                                raise NotClosedForm("a tracked variable is assigned under a symbolic condition")
                    continue
            r = super().inplace([st], env, fn, depth)
            if r is not None:
                return r
        return None

    def stmts(self, lst, env, fn, depth):
        out = []
        for st in lst:
            if st is None:
                continue
            k = st.get("k")
            if k == "DeclStmt":
                handled = True
                for d in st.get("c", []):
                    t = d.get("t", "")
                    if (t.startswith(("std::vector<", "std::array<")) and "std::vector<std::vector" not in t) or t.endswith("]"):
                        env[d["did"]] = {}          # a local array, elements are set by the code
                    elif d.get("c"):
                        try:
                            env[d["did"]] = self.expr(d["c"][0], env, fn, depth)
                        except NotClosedForm:
                            env[d["did"]] = OPAQUE
                if handled:
                    continue
            if k in ("BinaryOperator", "CompoundAssignOperator") and st.get("op") in ("=", "*=", "+=", "-=", "/="):
                el = self._element(st["c"][0])
                if el is not None and isinstance(env.get(el[0]["did"]), dict):
                    i = self.expr(el[1], env, fn, depth)
                    if not getattr(i, "is_Integer", False):
                        raise NotClosedForm("symbolic array index in a write")
                    r = self.expr(st["c"][1], env, fn, depth)
                    arr = env[el[0]["did"]]
                    op = st["op"]
                    if op == "=":
                        arr[int(i)] = r
                    else:
                        if int(i) not in arr:
                            raise NotClosedForm("update of an unset array element")
                        cur = arr[int(i)]
                        arr[int(i)] = cur * r if op == "*=" else cur + r if op == "+=" else cur - r if op == "-=" else cur / r
                    continue
            if k == "BinaryOperator" and st.get("op") == "=" and getattr(self, "tracked", None) is not None:
                lhs = strip(st["c"][0])
                if lhs is not None and lhs.get("k") == "DeclRefExpr" and lhs.get("did") in self.tracked:
                    try:
                        v = self.expr(st["c"][1], env, fn, depth)
                    except NotClosedForm:
                        v = None        # restored from a saved copy, or something that is not one of the hooked relations
                    self.assigned.append((lhs["did"], v))
                    env[lhs["did"]] = OPAQUE
                    continue
            if k in ("BinaryOperator", "CompoundAssignOperator") and st.get("op") in ("=", "*=", "+=", "-=", "/=", "%="):
                lhs = strip(st["c"][0])
                if lhs is not None and lhs.get("k") == "DeclRefExpr" and env.get(lhs.get("did")) is OPAQUE:
                    continue        # bookkeeping on an opaque scalar (running index into a container) stays opaque
            if k == "IfStmt":
                # a decided branch runs in place (its assignments must survive the statement); an undecided one is left to the base class
                try:
                    truth, _ = self.cond(st["cond"], env, fn, depth)
                except NotClosedForm:
                    truth = None
                if truth is not None:
                    br = st.get("then") if truth else st.get("else")
                    if br is not None:
                        r = self.stmts([br], env, fn, depth)
                        if r is not None:
                            return r
                    continue
            if k == "CompoundStmt":
                r = self.stmts(st.get("c", []), env, fn, depth)
                if r is not None:
                    return r
                continue
            try:
                r = super().stmts([st], env, fn, depth)
            except NotClosedForm:
                # a scalar that cannot be folded (support flags, running offsets) becomes opaque; array elements never do
                if k in ("BinaryOperator", "CompoundAssignOperator") and strip(st["c"][0]) is not None and strip(st["c"][0]).get("k") == "DeclRefExpr" \
                        and not isinstance(env.get(strip(st["c"][0]).get("did")), dict):
                    env[strip(st["c"][0])["did"]] = OPAQUE
                    continue
                raise
            if r is not None:
                return r
        return None
