"""Linearisation of serialisation code into nested token sequences (R-SIBLING for writer/reader pairs).

token := ("io", ctype|None, member|None, where)       one primitive transfer of a number / vector / flagged blob
       | ("flag", cond_norm|None, where)               a boolean section marker
       | ("obj", class, member|None, where)            nested object with its own writer/reader
       | ("if", cond_norm, [then tokens], [else tokens], where)
       | ("loop", [body tokens], where)
Conditions that are compile-time constants in the instantiation (iomode) are folded.
Member names are short field names (no class qualifier), looked up through resolved declarations.
"""
from .facts import strip, txt, callee, call_args, call_object, walk, const_val, children, short, callee_node

IO_NS = "TasGrid::IO::"


def field_in(n, fn=None, depth=0):
    """short name of the data member an expression denotes / is derived from (None if none)"""
    n = strip(n)
    if n is None or depth > 6:
        return None
    k = n.get("k")
    if k == "MemberExpr" and "field" in n:
        return short(n["field"])
    if k == "DeclRefExpr" and "did" in n and fn is not None:
        # local alias: follow its initialiser (range variable, iterator, size local)
        d = fn.locals().get(n["did"])
        if d is not None:
            if d.get("c"):
                return field_in(d["c"][0], fn, depth + 1)
            if d.get("range") is not None:
                return field_in(d["range"], fn, depth + 1)
        return None
    for ch in children(n):
        f = field_in(ch, fn, depth + 1)
        if f:
            return f
    return None


def norm_cond(n, fn=None):
    """canonical text of a section guard: non-emptiness tests are unified, `grid->` is dropped"""
    s = strip(n, casts=False)
    if s is None:
        return "?"
    neg = False
    while s.get("k") == "UnaryOperator" and s.get("op") == "!":
        neg = not neg
        s = strip(s["c"][0], casts=False)
    k = s.get("k")
    if k == "CXXMemberCallExpr" and (callee(s) or "").endswith("::empty"):
        f = field_in(call_object(s), fn) or txt(call_object(s))
        return ("nonempty(%s)" if neg else "empty(%s)") % f
    if k == "BinaryOperator" and s.get("op") in ("!=", ">", "==") and const_val(s["c"][1]) == 0:
        a = strip(s["c"][0])
        if a.get("k") == "CXXMemberCallExpr" and (callee(a) or "").endswith(("::size", "::getNumStrips", "::getNumIndexes")):
            f = field_in(call_object(a), fn) or txt(call_object(a))
            pos = s["op"] in ("!=", ">")
            if neg:
                pos = not pos
            return ("nonempty(%s)" if pos else "empty(%s)") % f
    t = txt(s).replace("grid->", "").replace("this->", "")
    return ("!(%s)" % t) if neg else t


class Tokenizer:
    """side = 'w' (writer: ostream) or 'r' (reader: istream)"""

    def __init__(self, db, side):
        self.db = db
        self.side = side
        self.notes = []

    # ---- primitive recognition -------------------------------------------------
    def prim(self, n, fn):
        """tokens produced by the single call/operator node n (not descending), or None"""
        k = n.get("k")
        cal = callee(n) or ""
        where = fn.loc(n)
        if k in ("CallExpr", "CXXMemberCallExpr") and cal.startswith(IO_NS):
            name = cal[len(IO_NS):]
            args = call_args(n)
            h = callee_node(n) or {}
            targs = h.get("targs", "")
            if name == "writeNumbers":
                ct = strip(args[1], casts=False).get("t") if len(args) > 1 else None
                tl = targs.split(",")
                if len(tl) >= 3 and not tl[2].startswith("<"):
                    pass
                # all values are written with the type of the first one
                first_t = self._ctype(args[1]) if len(args) > 1 else None
                return [("io", first_t, field_in(a, fn), where) for a in args[1:]]
            if name == "writeVector":
                return [("io", self._elem(args[0]), field_in(args[0], fn), where)]
            if name == "writeFlag":
                return [("flag", norm_cond(args[0], fn), where)]
            if name == "writeRule":
                return [("io", "rule", field_in(args[0], fn), where)]
            if name == "readNumber":
                return [("io", self._targ(targs, 1), self._dest(n, fn), where)]
            if name == "readVector":
                if len(args) == 2 and "vector" in (strip(args[1]) or {}).get("t", "") and "mutargs" in n:
                    return [("io", self._elem(args[1]), field_in(args[1], fn), where)]
                return [("io", self._targ(targs, 1), self._dest(n, fn), where)]
            if name == "readData2D":
                return [("io", self._targ(targs, 1), self._dest(n, fn), where)]
            if name == "readFlag":
                return [("flag", None, where)]
            if name == "readRule":
                return [("io", "rule", self._dest(n, fn), where)]
            return None
        # Data2D::writeVector / VectorToStreamBuffer style wrappers on members
        if k == "CXXMemberCallExpr" and cal.endswith("::writeVector") and "Data2D" in cal:
            o = call_object(n)
            return [("io", self._elem2d(o), field_in(o, fn), where)]
        # raw stream primitives
        if k == "CXXMemberCallExpr" and cal in ("std::basic_ostream<char>::write", "std::basic_istream<char>::read"):
            args = call_args(n)
            ct = None
            for x in walk(args[1]) if len(args) > 1 else []:
                if x.get("k") == "UnaryExprOrTypeTraitExpr" and x.get("trait") == "sizeof":
                    ct = x.get("argt")
            f = field_in(args[0], fn)
            return [("io", ct, f, where)]
        if k == "CXXOperatorCallExpr" and n.get("op") in ("<<", ">>") and len(n.get("c", [])) == 3:
            lhs_t = (strip(n["c"][1], casts=False) or {}).get("t", "")
            if "ostream" in lhs_t or "istream" in lhs_t or "ofstream" in lhs_t or "ifstream" in lhs_t:
                rhs = strip(n["c"][2], casts=False)
                if rhs is None:
                    return []
                # manipulators and literals carry no data
                core = strip(rhs)
                if core is None or core.get("k") in ("StringLiteral", "CharacterLiteral"):
                    return []
                if core.get("k") == "DeclRefExpr" and "fn" in core:
                    return []
                if (callee(core) or "").startswith(("std::setw", "std::setprecision")):
                    return []
                if n.get("op") == ">>" and core.get("k") == "DeclRefExpr" and "did" in core and "string" in core.get("t", ""):
                    return []       # a literal tag read into a scratch string and compared, carries no member data
                f = field_in(rhs, fn)
                return [("io", None, f, where)]
        if k == "CallExpr" and cal == "std::getline":
            args = call_args(n)
            return [("io", None, field_in(args[1], fn), where)]
        return None

    def _ctype(self, a):
        s = strip(a, casts=False)
        while s is not None and s.get("k") in ("ImplicitCastExpr", "ParenExpr"):
            s = s["c"][0]
        return (s or {}).get("t")

    def _elem(self, a):
        t = (strip(a) or {}).get("t", "")
        if "vector<" in t:
            return t.split("vector<", 1)[1].rsplit(">", 1)[0].replace("const ", "").strip()
        return None

    def _elem2d(self, o):
        t = (strip(o) or {}).get("t", "")
        if "Data2D<" in t:
            return t.split("Data2D<", 1)[1].rsplit(">", 1)[0].strip()
        return None

    def _targ(self, targs, i):
        parts = targs.split(",")
        return parts[i].strip() if len(parts) > i else None

    def _dest(self, n, fn):
        """field a read value ends up in: assignment / initialiser / aggregate position / forwarded local"""
        cur = n
        for a in fn.ancestors(n):
            k = a.get("k")
            if k in ("ImplicitCastExpr", "ParenExpr", "CStyleCastExpr", "CXXStaticCastExpr", "CXXFunctionalCastExpr", "CXXConstructExpr", "CXXTemporaryObjectExpr",
                     "ConditionalOperator", "CXXStdInitializerListExpr"):
                cur = a
                continue
            if k == "CXXOperatorCallExpr" and a.get("op") == "=":
                return field_in(a["c"][1], fn)
            if k == "BinaryOperator" and a.get("op") == "=":
                f = field_in(a["c"][0], fn)
                return f
            if k == "InitListExpr":
                # aggregate initialisation: position -> field of the record
                rec = self.db.records.get(a.get("t", "").replace("const ", ""))
                if rec is None:
                    rec = self.db.records.get("TasGrid::" + a.get("t", ""))
                if rec is not None:
                    idx = [i for i, ch in enumerate(a.get("c", [])) if ch is cur or any(x is cur for x in walk(ch))]
                    if idx and idx[0] < len(rec["fields"]):
                        return rec["fields"][idx[0]]["name"]
                return None
            if k == "VarDecl":
                # local: look for a later assignment  field = f(local)
                did = a.get("did")
                for m in fn.walk():
                    if m.get("k") in ("CXXOperatorCallExpr", "BinaryOperator") and m.get("op") == "=":
                        rhs = m["c"][2] if m.get("k") == "CXXOperatorCallExpr" else m["c"][1]
                        lhs = m["c"][1] if m.get("k") == "CXXOperatorCallExpr" else m["c"][0]
                        if any(x.get("k") == "DeclRefExpr" and x.get("did") == did for x in walk(rhs)):
                            f = field_in(lhs, fn)
                            if f:
                                return f
                return None
            if k == "CXXMemberCallExpr" and (callee(a) or "").endswith(("::resize", "::assign")):
                return field_in(call_object(a), fn)
            if k in ("CallExpr", "CXXMemberCallExpr", "ReturnStmt", "DeclStmt", "CompoundStmt", "IfStmt", "ForStmt"):
                return None
            cur = a
        # constructor initialiser?
        for i in fn.d.get("inits", []):
            if i.get("init") is not None and any(x is n for x in walk(i["init"])):
                return short(i.get("field", "")) or None
        return None

    # ---- structure ----------------------------------------------------------------
    def tokens_of_fn(self, fn, depth=0):
        toks = []
        for i in fn.d.get("inits", []):
            if i.get("written") and i.get("init") is not None:
                toks += self.expr_tokens(i["init"], fn, depth)
        toks += self.stmt_tokens(fn.body, fn, depth)
        return toks

    def expr_tokens(self, e, fn, depth):
        """tokens of an expression in evaluation order (post-order over calls)"""
        out = []
        if e is None:
            return out
        k = e.get("k")
        if k == "LambdaExpr":
            return out
        if k == "ConditionalOperator":
            c = e["c"]
            cv = const_val(c[0])
            ct = self.expr_tokens(c[0], fn, depth)
            if cv is not None:
                return ct + self.expr_tokens(c[1] if cv else c[2], fn, depth)
            a, b = self.expr_tokens(c[1], fn, depth), self.expr_tokens(c[2], fn, depth)
            if ct and ct[-1][0] == "flag" and ct[-1][1] is None:
                return ct + ([("if", "<flag>", a, b, fn.loc(e))] if (a or b) else [])
            if a or b:
                return ct + [("if", norm_cond(c[0], fn), a, b, fn.loc(e))]
            return ct
        p = self.prim(e, fn)
        # stream chains:  os << a << b  : left operand first
        if k == "CXXOperatorCallExpr" and e.get("op") in ("<<", ">>") and p is not None:
            return self.expr_tokens(e["c"][1], fn, depth) + p
        if p is not None:
            sub = []
            for a in call_args(e):
                sub += self.expr_tokens(a, fn, depth)
            return sub + p
        # nested objects
        obj = self.obj_token(e, fn, depth)
        if obj is not None:
            return obj
        for ch in children(e):
            out += self.expr_tokens(ch, fn, depth)
        return out

    def obj_token(self, e, fn, depth):
        k = e.get("k")
        cal = callee(e) or ""
        if self.side == "w" and k == "CXXMemberCallExpr" and cal.endswith(("::write", "::writeConstructionData")):
            t = self.db.resolve(e)
            if t is not None and any("ostream" in p["t"] for p in t.params()):
                o = call_object(e)
                if strip(o).get("k") == "CXXThisExpr":
                    return None
                return [("obj", t.cls, field_in(o, fn), fn.loc(e))]
        if self.side == "r" and k in ("CXXConstructExpr", "CXXTemporaryObjectExpr"):
            args = e.get("c", [])
            if args and "istream" in (strip(args[0]) or {}).get("t", ""):
                return [("obj", e.get("ctor"), self._dest(e, fn), fn.loc(e))]
        if self.side == "r" and k == "CallExpr" and cal == "TasGrid::Utils::make_unique":
            args = call_args(e)
            if args and "istream" in (strip(args[0]) or {}).get("t", ""):
                cls = (callee_node(e) or {}).get("targs", "").split(",")[0]
                return [("obj", cls, self._dest(e, fn), fn.loc(e))]
        # helper functions that take the stream: inline
        if k in ("CallExpr", "CXXMemberCallExpr") and depth < 4:
            t = self.db.resolve(e)
            if t is not None and not cal.startswith(IO_NS):
                want = "ostream" if self.side == "w" else "istream"
                if any(want in p["t"] for p in t.params()):
                    sub = Tokenizer(self.db, self.side)
                    inner = sub.tokens_of_fn(t, depth + 1)
                    # the caller decides the member identity for a single forwarded container
                    dest = self._dest(e, fn) if self.side == "r" else None
                    src = None
                    if self.side == "w":
                        for a in call_args(e):
                            src = src or field_in(a, fn)
                    return [("call", t.name, dest or src, inner, fn.loc(e))]
        return None

    def stmt_tokens(self, s, fn, depth):
        out = []
        if s is None:
            return out
        k = s.get("k")
        if k == "CompoundStmt":
            for ch in s.get("c", []):
                out += self.stmt_tokens(ch, fn, depth)
            return out
        if k == "IfStmt":
            cv = const_val(s.get("cond"))
            ct = self.expr_tokens(s.get("cond"), fn, depth)
            if cv is not None:
                return ct + self.stmt_tokens(s.get("then") if cv else s.get("else"), fn, depth)
            a = self.stmt_tokens(s.get("then"), fn, depth)
            b = self.stmt_tokens(s.get("else"), fn, depth)
            if ct and ct[-1][0] == "flag" and ct[-1][1] is None:
                return ct + [("if", "<flag>", a, b, fn.loc(s))]
            if a or b:
                return ct + [("if", norm_cond(s.get("cond"), fn), a, b, fn.loc(s))]
            return ct
        if k in ("ForStmt", "WhileStmt", "CXXForRangeStmt", "DoStmt"):
            pre = self.stmt_tokens(s.get("init"), fn, depth) if s.get("init") else []
            body = self.stmt_tokens(s.get("body"), fn, depth)
            return pre + ([("loop", body, fn.loc(s))] if body else [])
        if k == "SwitchStmt":
            body = self.stmt_tokens(s.get("body"), fn, depth)
            return self.expr_tokens(s.get("cond"), fn, depth) + ([("switch", body, fn.loc(s))] if body else [])
        if k in ("CaseStmt", "DefaultStmt"):
            return self.stmt_tokens(s.get("sub"), fn, depth)
        if k == "DeclStmt":
            for d in s.get("c", []):
                for ch in d.get("c", []):
                    out += self.expr_tokens(ch, fn, depth)
            return out
        if k == "ReturnStmt":
            for ch in s.get("c", []):
                out += self.expr_tokens(ch, fn, depth)
            return out
        if k in ("CXXTryStmt",):
            for ch in s.get("c", []):
                out += self.stmt_tokens(ch, fn, depth)
            return out
        return self.expr_tokens(s, fn, depth)


def normalize(toks, side):
    """N1: [flag(C), if(C){S}] -> [flag, if(<flag>){S}] (writer); N2: if(nonempty(V)){io V} -> io V (optional-on-empty);
    N3: if with identical branches -> the branch; calls are flattened with their member identity"""
    out = []
    problems = []
    i = 0
    toks = list(toks)
    while i < len(toks):
        t = toks[i]
        if t[0] == "call":
            inner, pr = normalize(t[3], side)
            problems += pr
            # a helper that transfers exactly one container gets the caller's member
            if t[2] and sum(1 for x in inner if x[0] == "io") >= 1:
                inner = [(x[0], x[1], x[2] or t[2], x[3]) if x[0] == "io" else x for x in inner]
            out += inner
            i += 1
            continue
        if t[0] == "flag" and side == "w" and i + 1 < len(toks) and toks[i + 1][0] == "if":
            nx = toks[i + 1]
            if nx[1] == t[1]:
                a, pr1 = normalize(nx[2], side)
                b, pr2 = normalize(nx[3], side)
                problems += pr1 + pr2
                out.append(("flag", None, t[2]))
                out.append(("if", "<flag>", a, b, nx[4]))
                i += 2
                continue
            # flag followed by a section guarded by a *different* condition
            problems.append(("flag-guard-mismatch", t[2], "flag written from %s but the section is guarded by %s" % (t[1], nx[1])))
            a, pr1 = normalize(nx[2], side)
            b, pr2 = normalize(nx[3], side)
            problems += pr1 + pr2
            out.append(("flag", None, t[2]))
            out.append(("if", "<flag>", a, b, nx[4]))
            i += 2
            continue
        if t[0] == "flag":
            out.append(("flag", None, t[2]))
            i += 1
            continue
        if t[0] == "if":
            a, pr1 = normalize(t[2], side)
            b, pr2 = normalize(t[3], side)
            problems += pr1 + pr2
            if side == "w" and t[1].startswith("nonempty(") and not b and len(a) == 1 and a[0][0] == "io" and a[0][2] and t[1] == "nonempty(%s)" % a[0][2]:
                out.append(a[0])
            elif strip_where(a) == strip_where(b) and a:
                out += a
            elif a and b and _prefix(b, a) and all(x[0] == "io" for x in a[len(b):]):
                # if(C){P; tail} else {P}: the tail (vectors) is written only when non-empty; a reader with a
                # zero count reads nothing (trusted invariant, reported in the evidence notes)
                out += a
                problems.append(("note", t[4], "optional tail after common prefix under guard `%s`: reader is assumed to use a zero count when the guard is false" % t[1]))
            elif a and b and _prefix(a, b) and all(x[0] == "io" for x in b[len(a):]):
                out += b
                problems.append(("note", t[4], "optional tail after common prefix under guard `!(%s)`" % t[1]))
            elif not a and not b:
                pass
            else:
                out.append(("if", t[1], a, b, t[4]))
            i += 1
            continue
        if t[0] == "loop":
            a, pr = normalize(t[1], side)
            problems += pr
            if a:
                out.append(("loop", a, t[2]))
            i += 1
            continue
        if t[0] == "switch":
            a, pr = normalize(t[1], side)
            problems += pr
            out += a
            i += 1
            continue
        out.append(t)
        i += 1
    return out, problems


def _prefix(p, full):
    return len(p) <= len(full) and strip_where(p) == strip_where(full[:len(p)])


def strip_where(toks):
    res = []
    for t in toks:
        if t[0] == "io":
            res.append(("io", t[1], t[2]))
        elif t[0] == "flag":
            res.append(("flag",))
        elif t[0] == "obj":
            res.append(("obj", t[1], t[2]))
        elif t[0] == "if":
            res.append(("if", t[1], tuple(strip_where(t[2])), tuple(strip_where(t[3]))))
        elif t[0] == "loop":
            res.append(("loop", tuple(strip_where(t[1]))))
    return res


def render(toks, ind=0):
    lines = []
    for t in toks:
        p = "  " * ind
        if t[0] == "io":
            lines.append("%sio %s -> %s" % (p, t[1], t[2]))
        elif t[0] == "flag":
            lines.append("%sflag" % p)
        elif t[0] == "obj":
            lines.append("%sobj %s -> %s" % (p, short(t[1] or "?"), t[2]))
        elif t[0] == "if":
            lines.append("%sif %s" % (p, t[1]))
            lines += render(t[2], ind + 1)
            if t[3]:
                lines.append("%selse" % p)
                lines += render(t[3], ind + 1)
        elif t[0] == "loop":
            lines.append("%sloop" % p)
            lines += render(t[1], ind + 1)
    return lines


def compare(w, r, path=""):
    """list of (where_writer, where_reader, message) differences between normalised sequences"""
    diffs = []
    n = max(len(w), len(r))
    for i in range(n):
        if i >= len(w):
            diffs.append((None, r[i][-1], "%sreader expects an extra item: %s" % (path, render([r[i]])[0])))
            break
        if i >= len(r):
            diffs.append((w[i][-1], None, "%swriter emits an extra item: %s" % (path, render([w[i]])[0])))
            break
        a, b = w[i], r[i]
        if a[0] != b[0]:
            diffs.append((a[-1], b[-1], "%sitem %d: writer has `%s`, reader has `%s`" % (path, i, render([a])[0], render([b])[0])))
            break
        if a[0] == "io":
            ta, tb = canon_t(a[1]), canon_t(b[1])
            if ta and tb and ta != tb:
                diffs.append((a[3], b[3], "%sitem %d: element type differs: written as %s, read as %s" % (path, i, a[1], b[1])))
            if a[2] and b[2] and a[2] != b[2]:
                diffs.append((a[3], b[3], "%sitem %d: writer stores member `%s` where the reader restores member `%s`" % (path, i, a[2], b[2])))
        elif a[0] == "obj":
            if a[1] and b[1] and short(a[1]) != short(b[1]):
                diffs.append((a[3], b[3], "%sitem %d: nested object class differs: %s vs %s" % (path, i, a[1], b[1])))
            if a[2] and b[2] and a[2] != b[2]:
                diffs.append((a[3], b[3], "%sitem %d: writer stores object member `%s` where the reader restores `%s`" % (path, i, a[2], b[2])))
        elif a[0] == "if":
            if a[1] != b[1]:
                diffs.append((a[4], b[4], "%sitem %d: section guard differs: writer `%s`, reader `%s`" % (path, i, a[1], b[1])))
            diffs += compare(a[2], b[2], path + "then> ")
            diffs += compare(a[3], b[3], path + "else> ")
        elif a[0] == "loop":
            diffs += compare(a[1], b[1], path + "loop> ")
    return diffs


def canon_t(t):
    if t is None:
        return None
    t = t.replace("const ", "").replace("std::", "").strip()
    if t.endswith("size_type"):
        return "size_t"
    return {"size_t": "size_t", "unsigned long": "size_t"}.get(t, t)
