"""Small dataflow toolkit over the clang CFG facts: writes of an element, forward analysis with
edge refinement, the 'upper bound' fact domain (v < N) used by the R-GUARD rules."""
from .facts import strip, txt, walk, callee, call_args, call_object

# non-const std container members that do not change the container itself (element writes through
# the returned reference/iterator are seen as assignments whose base variable is the container)
STD_ACCESSORS = ("::begin", "::end", "::data", "::operator[]", "::at", "::front", "::back", "::rbegin", "::rend", "::get",
                 "::operator*", "::operator->", "::find", "::lower_bound", "::upper_bound")
# Tasmanian's own containers: non-const overloads that only hand out a pointer/reference into the
# container (writes through the result are tracked through aliases / lvalue paths)
REPO_ACCESSORS = ("Data2D<int>::getIStrip", "Data2D<double>::getStrip", "Data2D<int>::getStrip", "Data2D<float>::getStrip", "::getVector", "StorageSet::getValues",
                  "Wrapper2D<double>::getStrip", "Wrapper2D<int>::getStrip", "Wrapper2D<const double>::getStrip", "Data2D<double>::data", "Data2D<int>::data")


def is_accessor(fnname):
    return (fnname.startswith("std::") and fnname.endswith(STD_ACCESSORS)) or fnname.endswith(REPO_ACCESSORS)

# std algorithms that write through an iterator / pointer passed by value: callee -> argument positions written
STD_OUTPUT_ARGS = {"std::copy_n": (2,), "std::copy": (2,), "std::fill": (0,), "std::fill_n": (0,), "std::transform": (2, 3), "std::iota": (0,),
                   "std::sort": (0,), "std::reverse": (0,), "std::move_backward": (2,), "std::copy_backward": (2,), "std::partial_sum": (2,), "std::generate": (0,)}

ASSIGN_OPS = ("=", "+=", "-=", "*=", "/=", "%=", "<<=", ">>=", "&=", "|=", "^=")


def var_of(n):
    """did of the variable an lvalue expression denotes (None if not a plain variable)"""
    n = strip(n)
    if n is not None and n.get("k") == "DeclRefExpr" and "did" in n:
        return n["did"]
    return None


def base_var(n):
    """did of the variable at the root of an lvalue path  a.b[c].d  /  *p  /  a->b"""
    n = strip(n)
    while n is not None:
        k = n.get("k")
        if k == "DeclRefExpr":
            return n.get("did")
        if k in ("MemberExpr", "ArraySubscriptExpr", "UnaryOperator", "ImplicitCastExpr", "ParenExpr"):
            c = n.get("c") or []
            if not c:
                return None
            n = strip(c[0])
            continue
        if k == "CXXOperatorCallExpr" and n.get("op") in ("[]", "*", "->"):
            n = strip(n["c"][1])
            continue
        if k == "CXXMemberCallExpr":
            o = call_object(n)
            if o is None:
                return None
            n = strip(o)
            continue
        if k == "BinaryOperator" and n.get("op") in ("+", "-"):
            n = strip(n["c"][0])
            continue
        if k == "CXXOperatorCallExpr" and n.get("op") in ("+", "-") and len(n.get("c", [])) == 3:
            n = strip(n["c"][1])
            continue
        if k in ("CXXConstructExpr", "CXXTemporaryObjectExpr") and len(n.get("c", [])) == 1:
            n = strip(n["c"][0])
            continue
        return None
    return None


def element_writes(n):
    """variables (did) whose value may change when the single CFG element n executes
    (sub-expressions are separate elements).  Returns list of (did, kind, rhs_node|None)
    kind: 'assign' (plain scalar '=' with rhs), 'decl', 'update' (++, +=, unknown)"""
    out = []
    k = n.get("k")
    c = n.get("c") or []
    if k == "BinaryOperator" and n.get("op") == "=":
        v = var_of(c[0])
        if v is not None:
            out.append((v, "assign", c[1]))
        else:
            b = base_var(c[0])
            if b is not None:
                out.append((b, "partial", None))
    elif k == "CompoundAssignOperator" or (k == "BinaryOperator" and n.get("op") in ASSIGN_OPS):
        v = base_var(c[0])
        if v is not None:
            out.append((v, "update", None))
    elif k == "UnaryOperator" and n.get("op") in ("++", "--"):
        v = base_var(c[0])
        if v is not None:
            out.append((v, "update", None))
    elif k == "DeclStmt":
        for d in c:
            if d.get("k") == "VarDecl":
                out.append((d["did"], "decl", (d.get("c") or [None])[0]))
    elif k in ("CallExpr", "CXXMemberCallExpr", "CXXOperatorCallExpr", "CXXConstructExpr", "CXXTemporaryObjectExpr"):
        args = call_args(n)
        for i in n.get("mutargs", []):
            if i < len(args):
                a = strip(args[i])
                if a is not None and a.get("k") == "UnaryOperator" and a.get("op") == "&":
                    a = strip(a["c"][0])
                v = base_var(a) if a is not None else None
                if v is not None:
                    out.append((v, "update", None))
        if k == "CallExpr" and callee(n) in STD_OUTPUT_ARGS:
            for i in STD_OUTPUT_ARGS[callee(n)]:
                if i < len(args):
                    v = base_var(args[i])
                    if v is not None:
                        out.append((v, "update", None))
        if k == "CXXMemberCallExpr":
            h = strip(n["c"][0], casts=False)
            if h is not None and not h.get("cm") and not h.get("static") and not is_accessor(h.get("fn", "")):
                o = call_object(n)
                v = base_var(o) if o is not None else None
                if v is not None:
                    out.append((v, "update", None))
        if k == "CXXOperatorCallExpr" and n.get("op") in ASSIGN_OPS + ("++", "--") and args:
            v = base_var(args[0])
            if v is not None:
                out.append((v, "update", None))
    elif k == "CXXForRangeStmt":
        pass
    return out


def forward(cfg, entry_state, transfer, edge, join):
    """generic forward may/must analysis.  States are hashable; None = unreached.
    transfer(state, block) -> state ; edge(state, block, succ_index) -> state"""
    IN = {b: None for b in cfg.blocks}
    IN[cfg.entry] = entry_state
    work = [cfg.entry]
    it = 0
    while work:
        it += 1
        if it > 200000:
            raise RuntimeError("dataflow did not converge")
        b = work.pop()
        st = IN[b]
        if st is None:
            continue
        out = transfer(st, cfg.blocks[b])
        for i, s in enumerate(cfg.blocks[b]["s"]):
            if s is None:
                continue
            es = edge(out, cfg.blocks[b], i)
            if es is None:
                continue
            new = es if IN[s] is None else join(IN[s], es)
            if new != IN[s]:
                IN[s] = new
                work.append(s)
    return IN


# --------------------------------------------------------------------------- bound facts
def rel_of_cond(fn, cond, truth):
    """facts implied by a simple relational condition being `truth`.
    returns list of ('lt'|'le'|'eq'|'ne'|'ge'|'gt', lhs_node, rhs_node) normalised so that the
    relation holds between lhs and rhs"""
    n = strip(cond, casts=False)
    if n is None:
        return []
    if n.get("k") == "UnaryOperator" and n.get("op") == "!":
        return rel_of_cond(fn, n["c"][0], not truth)
    op = None
    if n.get("k") == "BinaryOperator" and n.get("op") in ("<", "<=", ">", ">=", "==", "!="):
        op = n["op"]
        a, b = n["c"]
    elif n.get("k") == "CXXOperatorCallExpr" and n.get("op") in ("<", "<=", ">", ">=", "==", "!="):
        op = n["op"]
        a, b = n["c"][1], n["c"][2]
    if op is None:
        return []
    neg = {"<": ">=", "<=": ">", ">": "<=", ">=": "<", "==": "!=", "!=": "=="}
    if not truth:
        op = neg[op]
    name = {"<": "lt", "<=": "le", ">": "gt", ">=": "ge", "==": "eq", "!=": "ne"}[op]
    flip = {"lt": "gt", "le": "ge", "gt": "lt", "ge": "le", "eq": "eq", "ne": "ne"}
    return [(name, a, b), (flip[name], b, a)]


class UpperBounds:
    """facts (did, bound_text): variable did < bound.  Join = intersection."""

    def __init__(self, fn, stable_bounds=None, assume_positive=()):
        self.fn = fn
        self.cfg = fn.cfg
        self.assume_positive = set(assume_positive)
        self.IN = forward(self.cfg, frozenset(), self._transfer, self._edge, lambda a, b: a & b)

    def _gen_from_value(self, did, rhs, st):
        """v = N - 1  => v < N ;  v = w (copy) => inherits w's facts"""
        out = set()
        r = strip(rhs)
        if r is None:
            return out
        if r.get("k") == "BinaryOperator" and r.get("op") == "-":
            a, b = r["c"]
            if strip(b).get("k") == "IntegerLiteral" and int(strip(b).get("val", "0")) >= 1:
                out.add((did, txt(strip(a))))
        w = var_of(r)
        if w is not None:
            for (d, bnd) in st:
                if d == w:
                    out.add((did, bnd))
        return out

    def step(self, st, n):
        ws = element_writes(n)
        if not ws:
            return st
        st = set(st)
        for did, kind, rhs in ws:
            gen = self._gen_from_value(did, rhs, st) if kind in ("assign", "decl") and rhs is not None else set()
            st = {f for f in st if f[0] != did}
            st |= gen
        return frozenset(st)

    def _transfer(self, st, blk):
        for e in blk["e"]:
            if isinstance(e, int):
                n = self.fn.nodes.get(e)
                if n is not None:
                    st = self.step(st, n)
        return st

    def _edge(self, st, blk, i):
        if "cond" not in blk or len(blk["s"]) != 2 or blk.get("termk") in ("SwitchStmt", "CXXForRangeStmt"):
            return st
        cond = self.fn.nodes.get(blk["cond"])
        if cond is None:
            return st
        new = set(st)
        for rel, a, b in rel_of_cond(self.fn, cond, i == 0):
            v = var_of(a)
            if v is not None and rel == "lt":
                new.add((v, txt(strip(b))))
        return frozenset(new)

    def before(self, node):
        """facts holding immediately before CFG element `node` executes"""
        w = self.cfg.block_of(node)
        if w is None:
            return None
        b, idx = w
        st = self.IN.get(b)
        if st is None:
            return None  # unreachable
        for e in self.cfg.blocks[b]["e"][:idx]:
            if isinstance(e, int):
                n = self.fn.nodes.get(e)
                if n is not None:
                    st = self.step(st, n)
        return st


def writes_to_var(fn, did, after_decl=True):
    """all elements in fn (lambdas included) that may modify variable did (excluding its declaration)"""
    res = []
    for n in fn.walk():
        for d, kind, rhs in element_writes(n):
            if d == did and kind != "decl":
                res.append(n)
    return res


def _is_bailout(fn, blk, depth=0):
    """True when control entering block `blk` inevitably throws (validation bail-out):
    a straight-line chain of blocks ending in a throw"""
    cfg = fn.cfg
    seen = set()
    b = blk
    while b is not None and b not in seen and len(seen) < 12:
        seen.add(b)
        bd = cfg.blocks[b]
        for e in bd["e"]:
            if isinstance(e, int):
                n = fn.nodes.get(e)
                if n is not None and n.get("k") == "CXXThrowExpr":
                    return True
        ss = [x for x in bd["s"] if x is not None]
        if len(ss) != 1:
            return False
        b = ss[0]
    return False


def cond_edges_dominating(fn, node, skip_bailouts=False):
    """list of (cond_node, truth) such that `node` executes only if cond evaluated to truth
    (the block of node is dominated by that successor and not by the other).
    skip_bailouts: ignore tests whose other branch only throws (argument validation)"""
    cfg = fn.cfg
    w = cfg.block_of(node)
    if w is None:
        return []
    b = w[0]
    out = [] if skip_bailouts else guard_clause_facts(fn, node)
    for bid, blk in cfg.blocks.items():
        cs = cfg.cond_succ(bid)
        if cs is None or blk.get("termk") == "SwitchStmt":
            continue
        cid, t, f = cs
        if t is None or f is None or t == f:
            continue
        cn = fn.nodes.get(cid)
        if cn is None:
            continue
        # a successor with another predecessor does not imply the edge was taken
        dt = cfg.dominates(t, b) and len(list(cfg.G.predecessors(t))) == 1
        df = cfg.dominates(f, b) and len(list(cfg.G.predecessors(f))) == 1
        if dt and not df:
            if skip_bailouts and _is_bailout(fn, f):
                continue
            out.extend(_expand(cn, True))
        elif df and not dt:
            if skip_bailouts and _is_bailout(fn, t):
                continue
            out.extend(_expand(cn, False))
    return out


def _always_leaves(st):
    """statement never completes normally (ends in throw / return on every syntactic path)"""
    if st is None:
        return False
    k = st.get("k")
    if k in ("CXXThrowExpr", "ReturnStmt"):
        return True
    if k == "CompoundStmt":
        return bool(st.get("c")) and _always_leaves(st["c"][-1])
    if k == "IfStmt":
        return st.get("else") is not None and _always_leaves(st.get("then")) and _always_leaves(st.get("else"))
    return False


def guard_clause_facts(fn, node):
    """earlier sibling statements of the form  if (C) throw/return;  imply C is false at `node`
    (covers compound conditions whose false edge is not a single CFG edge)"""
    out = []
    prev = node
    for a in fn.ancestors(node):
        if a.get("k") == "CompoundStmt":
            for st in a.get("c", []):
                if st is prev or any(x is prev for x in walk(st)):
                    break
                if st.get("k") == "IfStmt" and st.get("else") is None and _always_leaves(st.get("then")) and st.get("cond") is not None:
                    out.extend(_expand(st["cond"], False))
        if a.get("k") in ("LambdaExpr",):
            break
        prev = a
    return out


def _expand(cn, truth):
    """(A && B) true implies A true and B true; (A || B) false implies both false; !A flips"""
    res = [(cn, truth)]
    n = strip(cn, casts=False)
    if n is None:
        return res
    if n.get("k") == "BinaryOperator" and ((n.get("op") == "&&" and truth) or (n.get("op") == "||" and not truth)):
        for ch in n["c"]:
            res.extend(_expand(ch, truth))
    elif n.get("k") == "UnaryOperator" and n.get("op") == "!":
        res.extend(_expand(n["c"][0], not truth))
    elif n is not cn:
        res.append((n, truth))
    return res


def is_reachable(fn, node):
    """False when the node sits in code that is dead in this instantiation (constant branch)"""
    w = fn.cfg.block_of(node)
    if w is None:
        return True
    return w[0] in fn.cfg.reachable_blocks()


def emptiness(cond):
    """(subject text, True when the condition being TRUE means 'subject is empty') for the usual spellings of an emptiness test:
    v.empty(), !v.empty(), v.size() == 0, v.size() != 0, v.size() > 0, 0 < v.size(), v.size() (as a truth value), p == nullptr / p != 0;
    None for anything else"""
    from .facts import strip as _strip, txt as _txt, callee as _callee, call_object as _obj
    c = _strip(cond)
    neg = False
    while c is not None and c.get("k") == "UnaryOperator" and c.get("op") == "!":
        neg = not neg
        c = _strip(c["c"][0])
    if c is None:
        return None

    def size_of(e):
        e = _strip(e)
        if e is not None and e.get("k") == "CXXMemberCallExpr" and (_callee(e) or "").rsplit("::", 1)[-1] in ("size", "getNumIndexes", "getNumStrips") and _obj(e) is not None:
            return _txt(_strip(_obj(e)))
        return None

    def is_zero(e):
        e = _strip(e)
        return e is not None and ((e.get("k") == "IntegerLiteral" and str(e.get("val")) == "0") or e.get("k") in ("CXXNullPtrLiteralExpr", "GNUNullExpr") or _txt(e) in ("0", "nullptr"))
    if c.get("k") == "CXXMemberCallExpr" and (_callee(c) or "").endswith("::empty") and _obj(c) is not None:
        return _txt(_strip(_obj(c))), (not neg)
    s = size_of(c)
    if s is not None:                      # if (v.size())
        return s, neg
    if c.get("k") == "BinaryOperator" and c.get("op") in ("==", "!=", ">", "<", ">=", "<="):
        a, b = c["c"][0], c["c"][1]
        op = c["op"]
        if is_zero(a) and not is_zero(b):
            a, b = b, a
            op = {"<": ">", ">": "<", "<=": ">=", ">=": "<="}.get(op, op)
        if is_zero(b):
            subj = size_of(a)
            if subj is None:
                a0 = _strip(a)
                if a0 is not None and a0.get("k") in ("DeclRefExpr", "MemberExpr") and op in ("==", "!="):
                    subj = _txt(a0)         # pointer compared with null
            if subj is not None:
                if op in ("==", "<="):
                    return subj, (not neg)
                if op in ("!=", ">"):
                    return subj, neg
    if c.get("k") in ("DeclRefExpr",) and "*" in (c.get("t") or ""):
        return _txt(c), neg                 # if (p): true means not null
    return None


def relation(cond):
    """(lhs, op, rhs) of a comparison with the literal / constant operand moved to the right-hand side (`1 > n` is read as `n < 1`);
    leading negations are folded into the operator; None when the condition is not a comparison"""
    from .facts import strip as _strip, const_val as _cv
    c = _strip(cond)
    neg = False
    while c is not None and c.get("k") == "UnaryOperator" and c.get("op") == "!":
        neg = not neg
        c = _strip(c["c"][0])
    if c is None or c.get("k") != "BinaryOperator" or c.get("op") not in ("<", "<=", ">", ">=", "==", "!="):
        return None
    a, b, op = c["c"][0], c["c"][1], c["op"]

    def is_const(e):
        e = _strip(e)
        return e is not None and (e.get("k") in ("IntegerLiteral", "FloatingLiteral", "CXXNullPtrLiteralExpr") or _cv(e) is not None)
    if is_const(a) and not is_const(b):
        a, b = b, a
        op = {"<": ">", ">": "<", "<=": ">=", ">=": "<="}.get(op, op)
    if neg:
        op = {"<": ">=", ">=": "<", ">": "<=", "<=": ">", "==": "!=", "!=": "=="}[op]
    return a, op, b
