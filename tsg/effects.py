"""R-EFFECT: transitive write sets of data members over calls on the same object."""
from .facts import strip, callee, call_object, callee_node
from .typestate import member_writes


def is_this_call(n):
    """member call whose object is (implicit or explicit) this"""
    if n.get("k") != "CXXMemberCallExpr":
        return False
    o = call_object(n)
    if o is None:
        return False
    o = strip(o)
    return o is not None and o.get("k") == "CXXThisExpr"


class Effects:
    def __init__(self, db):
        self.db = db
        db.load_all()
        self._direct = {}
        self._calls = {}

    def direct(self, fn):
        k = (fn.key, fn.sig)
        if k not in self._direct:
            d = {}
            for n, f, kind in member_writes(fn):
                d.setdefault(f, []).append(n)
            self._direct[k] = d
        return self._direct[k]

    def this_calls(self, fn):
        k = (fn.key, fn.sig)
        if k not in self._calls:
            out = []
            for n in fn.walk():
                if is_this_call(n):
                    t = self.db.resolve(n)
                    if t is not None:
                        out.append((n, t))
            self._calls[k] = out
        return self._calls[k]

    def closure(self, fn, skip_call=None, depth=12, skip_node=None):
        """field -> witness (list of 'file:line text' steps) for every member possibly written by
        fn or by methods it calls on the same object.  skip_call(fn, call_node) -> True to ignore a call"""
        res = {}
        seen = set()

        def visit(f, path, d):
            k = (f.key, f.sig)
            if k in seen or d > depth:
                return
            seen.add(k)
            for field, nodes in self.direct(f).items():
                if skip_node is not None:
                    nodes = [x for x in nodes if not skip_node(f, x)]
                if nodes and field not in res:
                    res[field] = path + ["%s writes %s" % (f.loc(nodes[0]), field.rsplit("::", 1)[-1])]
            for call, t in self.this_calls(f):
                if skip_call is not None and skip_call(f, call):
                    continue
                if skip_node is not None and skip_node(f, call):
                    continue
                visit(t, path + ["%s calls %s" % (f.loc(call), t.name.rsplit("::", 1)[-1])], d + 1)

        visit(fn, [], 0)
        return res
