"""R-EFFECT: transitive write sets of data members over calls on the same object."""
from .facts import strip, callee, call_object, callee_node
from .typestate import member_writes, member_of


def is_this_call(n):
    """member call whose object is (implicit or explicit) this"""
    if n.get("k") != "CXXMemberCallExpr":
        return False
    o = call_object(n)
    if o is None:
        return False
    o = strip(o)
    return o is not None and o.get("k") == "CXXThisExpr"


class Effects:
    def __init__(self, db):
        self.db = db
        db.load_all()
        self._direct = {}
        self._calls = {}

    def direct(self, fn):
        k = (fn.key, fn.sig)
        if k not in self._direct:
            d = {}
            for n, f, kind in member_writes(fn):
                d.setdefault(f, []).append(n)
            self._direct[k] = d
        return self._direct[k]

    def this_calls(self, fn):
        k = (fn.key, fn.sig)
        if k not in self._calls:
            out = []
            for n in fn.walk():
                if is_this_call(n):
                    t = self.db.resolve(n)
                    if t is not None:
                        out.append((n, t))
            self._calls[k] = out
        return self._calls[k]

    def closure(self, fn, skip_call=None, depth=12, skip_node=None):
        """field -> witness (list of 'file:line text' steps) for every member possibly written by
        fn or by methods it calls on the same object.  skip_call(fn, call_node) -> True to ignore a call"""
        res = {}
        seen = set()

        def visit(f, path, d):
            k = (f.key, f.sig)
            if k in seen or d > depth:
                return
            seen.add(k)
            for field, nodes in self.direct(f).items():
                if skip_node is not None:
                    nodes = [x for x in nodes if not skip_node(f, x)]
                if nodes and field not in res:
                    res[field] = path + ["%s writes %s" % (f.loc(nodes[0]), field.rsplit("::", 1)[-1])]
            for call, t in self.this_calls(f):
                if skip_call is not None and skip_call(f, call):
                    continue
                if skip_node is not None and skip_node(f, call):
                    continue
                visit(t, path + ["%s calls %s" % (f.loc(call), t.name.rsplit("::", 1)[-1])], d + 1)

        visit(fn, [], 0)
        return res


# ------------------------------------------------------------------------------------------
# const purity (C12): effects that make a const call unsafe to run concurrently
from .facts import walk, txt
from .flow import element_writes, base_var, is_accessor, ASSIGN_OPS


def direct_impurities(fn):
    """(node, kind, what) for writes to mutable members, to globals / function-local statics, and
    non-const calls on mutable members, inside this function (lambdas included)"""
    out = []
    statics = {}
    for n in fn.walk():
        if n.get("k") == "VarDecl" and n.get("staticlocal") and not n.get("const"):
            statics[n["did"]] = n
    for n, f, kind in member_writes(fn):
        # is the written member declared mutable?  look at the MemberExpr inside the lvalue
        mut = False
        for x in walk(n):
            if x.get("k") == "MemberExpr" and x.get("field") == f and x.get("mut"):
                mut = True
        if mut:
            out.append((n, "mutable-member", f))
    for n in fn.walk():
        for did, kind, rhs in element_writes(n):
            if kind == "decl":
                continue
            if did in statics:
                out.append((n, "function-static", statics[did]["name"]))
        # globals: DeclRefExpr with 'global' as assignment target / mutated argument
        k = n.get("k")
        c = n.get("c") or []
        tgt = None
        if k in ("BinaryOperator", "CompoundAssignOperator") and n.get("op") in ASSIGN_OPS:
            tgt = c[0]
        elif k == "UnaryOperator" and n.get("op") in ("++", "--"):
            tgt = c[0]
        elif k == "CXXOperatorCallExpr" and n.get("op") in ASSIGN_OPS + ("++", "--") and len(c) > 1:
            tgt = c[1]
        elif k == "CXXMemberCallExpr":
            h = strip(c[0], casts=False)
            if h is not None and not h.get("cm") and not h.get("static") and not is_accessor(h.get("fn", "")):
                tgt = call_object(n)
        if tgt is not None:
            t = strip(tgt)
            while t is not None and t.get("k") in ("MemberExpr", "ArraySubscriptExpr") and t.get("c"):
                t = strip(t["c"][0])
            if t is not None and t.get("k") == "DeclRefExpr" and "global" in t and not t.get("constvar") and not t.get("staticlocal"):
                out.append((n, "global", t["global"]))
        if k == "CXXConstCastExpr":
            out.append((n, "const_cast", txt(n)[:60]))
    return out


class Purity:
    def __init__(self, db, skip_call=None):
        self.db = db
        self.skip_call = skip_call
        db.load_all()
        self._direct = {}

    def direct(self, fn):
        k = (fn.key, fn.sig)
        if k not in self._direct:
            self._direct[k] = direct_impurities(fn)
        return self._direct[k]

    def targets(self, fn, call):
        t = self.db.resolve(call)
        h = callee_node(call) or {}
        res = []
        if t is not None:
            res.append(t)
        if h.get("virt"):
            res += self.db.overriders(h.get("fn"), h.get("csig"))
        return res

    def closure(self, fn, depth=25):
        """list of (path, fn, node, kind, what) reachable from fn.  Writes to mutable members count only
        along calls whose receiver is rooted in the entry object (this, or a member of it): effects on
        call-local objects are invisible to other threads.  Global / function-static effects always count."""
        found = []
        seen = set()

        def visit(f, path, d, rooted):
            k = (f.key, f.sig, rooted)
            if k in seen or d > depth:
                return
            seen.add(k)
            for n, kind, what in self.direct(f):
                if kind in ("mutable-member", "const_cast") and not rooted:
                    continue
                found.append((path + [f.loc(n)], f, n, kind, what))
            for call in f.walk():
                if callee(call) is None:
                    continue
                if self.skip_call is not None and self.skip_call(f, call):
                    continue
                tg = self.targets(f, call)
                if not tg:
                    continue
                r = False
                if call.get("k") == "CXXMemberCallExpr":
                    o = call_object(call)
                    so = strip(o) if o is not None else None
                    r = rooted and so is not None and (so.get("k") == "CXXThisExpr" or member_of(so) is not None)
                elif call.get("k") == "CXXOperatorCallExpr" and len(call.get("c", [])) > 1:
                    r = rooted and member_of(call["c"][1]) is not None
                else:
                    # free function: rooted if a member of the entry object is passed by mutable reference/pointer
                    from .facts import call_args
                    args = call_args(call)
                    r = rooted and any(i < len(args) and member_of(args[i]) is not None for i in call.get("mutargs", []))
                for t in tg:
                    nm = t.name.split("::")
                    visit(t, path + ["%s -> %s" % (f.loc(call), "::".join(nm[-2:]))], d + 1, r)
        visit(fn, [], 0, True)
        self.visited = {(k[0], k[1]) for k in seen}
        return found
