"""Configure /repo (no compilation), run the extractor over the units of the real build in
two configurations (serial = as built, omp = -fopenmp) and merge the facts per source file.

Everything is derived from /repo's *current working tree* on every run; the only cache is
keyed by a hash of every source/CMake file's content plus the extractor binary and flags.
"""
import fcntl
import hashlib
import json
import os
import shutil
import subprocess
import sys
import time
from concurrent.futures import ThreadPoolExecutor

VERIF = os.path.dirname(os.path.dirname(os.path.abspath(__file__)))
REPO = os.environ.get("TSG_REPO", "/repo")
WORK = os.path.join(VERIF, ".work")
TSGFACTS = os.path.join(WORK, "tsgfacts")
SRC_DIRS = ["SparseGrids", "DREAM", "DREAM/Optimization", "Addons", "Tasgrid", "Config", "InterfaceTPL"]

# Units that are *not* analysed: tests, examples and benchmarks are not the subject of the
# properties.  testAddons.cpp is kept because it instantiates the Addons templates.
SKIP_PREFIX = ("SparseGrids/Examples/", "DREAM/Examples/", "SparseGrids/gridtest", "SparseGrids/Benchmarks/",
               "DREAM/dreamtest_main", "DREAM/tasdreamExternalTests", "DREAM/Optimization/tasdreamOptimizationTests",
               "Testing/")
# Addons C wrappers are only built with Python enabled; they instantiate the templates too.
EXTRA_UNITS = ["Addons/tsgCConstructSurrogate.cpp", "Addons/tsgCLoadNeededValues.cpp",
               "Addons/tsgCLoadUnstructuredPoints.cpp", "Addons/tsgCExoticQuadrature.cpp"]


class AnalysisBroken(Exception):
    """exit 2: the analysis could not be performed (parse failure, missing anchor, floor)."""


def ensure_extractor():
    src = os.path.join(VERIF, "engine", "tsgfacts.cc")
    if os.path.exists(TSGFACTS) and os.path.getmtime(TSGFACTS) >= os.path.getmtime(src):
        return
    os.makedirs(WORK, exist_ok=True)
    with open(os.path.join(WORK, "build.lock"), "w") as lk:
        fcntl.flock(lk, fcntl.LOCK_EX)
        if os.path.exists(TSGFACTS) and os.path.getmtime(TSGFACTS) >= os.path.getmtime(src):
            return
        r = subprocess.run(["make", "-s", "-C", os.path.join(VERIF, "engine"), "OUT=" + TSGFACTS],
                           capture_output=True, text=True)
        if r.returncode != 0:
            raise AnalysisBroken("cannot build extractor: " + r.stderr[-2000:])


def tree_hash():
    h = hashlib.sha256()
    h.update(REPO.encode())
    files = []
    for d in SRC_DIRS:
        root = os.path.join(REPO, d)
        if not os.path.isdir(root):
            continue
        for f in sorted(os.listdir(root)):
            p = os.path.join(root, f)
            if os.path.isfile(p) and f.endswith((".cpp", ".hpp", ".h", ".txt", ".in", ".cmake", ".table")):
                files.append(p)
    files.append(os.path.join(REPO, "CMakeLists.txt"))
    inst = os.path.join(VERIF, "instantiate")
    for f in sorted(os.listdir(inst)) if os.path.isdir(inst) else []:
        files.append(os.path.join(inst, f))
    files.append(os.path.join(VERIF, "engine", "tsgfacts.cc"))
    files.append(os.path.abspath(__file__))
    for p in files:
        h.update(p.encode())
        try:
            with open(p, "rb") as fh:
                h.update(fh.read())
        except OSError:
            h.update(b"<missing>")
    return h.hexdigest()[:24]


def _resource_dir():
    return subprocess.run(["clang", "-print-resource-dir"], capture_output=True, text=True).stdout.strip()


def configure(cfgdir):
    r = subprocess.run(["cmake", "-S", REPO, "-B", cfgdir, "-G", "Ninja", "-DCMAKE_EXPORT_COMPILE_COMMANDS=ON",
                        "-DCMAKE_BUILD_TYPE=RelWithDebInfo"], capture_output=True, text=True)
    if r.returncode != 0:
        raise AnalysisBroken("cmake configure failed: " + r.stderr[-2000:])
    db = json.load(open(os.path.join(cfgdir, "compile_commands.json")))
    units = {}
    incs = None
    for e in db:
        rel = os.path.relpath(e["file"], REPO)
        args = e["command"].split()
        flags = [a for a in args[1:] if a.startswith(("-I", "-D", "-isystem"))]
        flags = [a for a in flags if a != "-DNDEBUG"]
        if rel.startswith(SKIP_PREFIX) or rel.startswith(".."):
            continue
        units.setdefault(rel, flags)
        if incs is None or len(flags) > len(incs):
            incs = flags
    for rel in EXTRA_UNITS:
        if os.path.exists(os.path.join(REPO, rel)):
            units.setdefault(rel, incs)
    inst = os.path.join(VERIF, "instantiate")
    if os.path.isdir(inst):
        for f in sorted(os.listdir(inst)):
            if f.endswith(".cpp"):
                units["@verif/instantiate/" + f] = incs
    return units


def _extract_one(job):
    rel, cfgname, flags, outdir, resdir = job
    src = os.path.join(VERIF, rel[7:]) if rel.startswith("@verif/") else os.path.join(REPO, rel)
    out = os.path.join(outdir, cfgname + "__" + rel.replace("/", "_").replace("@", "") + ".json")
    cmd = [TSGFACTS, "--out=" + out, "--root=" + REPO + "/", "--root=" + os.path.join(VERIF, "instantiate") + "/", "--",
           "-std=gnu++17", "-UNDEBUG", "-Wno-everything", "-resource-dir", resdir] + flags
    if cfgname == "omp":
        cmd += ["-fopenmp"]
    cmd.append(src)
    r = subprocess.run(cmd, capture_output=True, text=True)
    ok = r.returncode == 0 and os.path.exists(out)
    return rel, cfgname, out, ok, (r.stderr or "")[-3000:]


def relpath(p):
    if p.startswith(REPO + "/"):
        return p[len(REPO) + 1:]
    if p.startswith(VERIF + "/"):
        return "@verif/" + p[len(VERIF) + 1:]
    return p


def _merge(outs, dest):
    """group functions by defining file; the first definition of (key,sig) wins (headers are
    parsed by many units; the bodies are identical because the flags are identical)."""
    byfile = {}
    seen = set()
    records = {}
    enums = {}
    units = []
    for rel, out in outs:
        d = json.load(open(out))
        units.append({"unit": rel, "functions": len(d["functions"])})
        for f in d["functions"]:
            k = (f["key"], f["sig"], f["file"], f["line"])
            if k in seen:
                continue
            seen.add(k)
            f["unit"] = rel
            f["file"] = relpath(f["file"])
            byfile.setdefault(f["file"], []).append(f)
        for r in d["records"]:
            r["file"] = relpath(r["file"])
            records.setdefault((r["name"], r.get("cargs", "")), r)
        for e in d["enums"]:
            e["file"] = relpath(e["file"])
            enums.setdefault(e["name"], e)
        os.remove(out)
    os.makedirs(dest, exist_ok=True)
    index = {"files": {}, "units": units}
    for fn, lst in byfile.items():
        name = fn.replace("/", "_").lstrip("_") + ".json"
        with open(os.path.join(dest, name), "w") as fh:
            json.dump(lst, fh, separators=(",", ":"))
        index["files"][fn] = {"store": name, "functions": len(lst)}
    with open(os.path.join(dest, "records.json"), "w") as fh:
        json.dump({"records": list(records.values()), "enums": list(enums.values())}, fh, separators=(",", ":"))
    with open(os.path.join(dest, "index.json"), "w") as fh:
        json.dump(index, fh, indent=1)


def facts_dir(verbose=False):
    """returns the directory with merged facts for the current tree; extracts when not cached"""
    ensure_extractor()
    th = tree_hash()
    base = os.path.join(WORK, "facts")
    os.makedirs(base, exist_ok=True)
    dest = os.path.join(base, th)
    if os.path.exists(os.path.join(dest, "DONE")):
        return dest
    with open(os.path.join(base, th + ".lock"), "w") as lk:
        fcntl.flock(lk, fcntl.LOCK_EX)
        if os.path.exists(os.path.join(dest, "DONE")):
            return dest
        t0 = time.time()
        tmp = os.path.join(WORK, "run-%d" % os.getpid())
        shutil.rmtree(tmp, ignore_errors=True)
        os.makedirs(tmp)
        try:
            units = configure(os.path.join(tmp, "cfg"))
            shutil.copytree(os.path.join(tmp, "cfg", "configured"), os.path.join(tmp, "configured"))
            # the include path must not point into the scratch directory that is removed below
            keep = os.path.join(dest + ".partial", "configured")
            shutil.rmtree(dest + ".partial", ignore_errors=True)
            os.makedirs(dest + ".partial")
            shutil.copytree(os.path.join(tmp, "cfg", "configured"), keep)
            resdir = _resource_dir()
            jobs = []
            for rel, flags in units.items():
                fl = [("-I" + keep) if a.endswith("/cfg/configured") else a for a in flags]
                for cfgname in ("serial", "omp"):
                    jobs.append((rel, cfgname, fl, tmp, resdir))
            with ThreadPoolExecutor(max_workers=min(16, os.cpu_count() or 4)) as ex:
                res = list(ex.map(_extract_one, jobs))
            bad = [(rel, c, err) for rel, c, out, ok, err in res if not ok]
            if bad:
                raise AnalysisBroken("units failed to parse: " + "; ".join("%s[%s]: %s" % (r, c, e[-600:]) for r, c, e in bad))
            for cfgname in ("serial", "omp"):
                _merge([(rel, out) for rel, c, out, ok, err in res if c == cfgname], os.path.join(dest + ".partial", cfgname))
            with open(os.path.join(dest + ".partial", "units.json"), "w") as fh:
                json.dump({"units": sorted(units), "seconds": time.time() - t0}, fh, indent=1)
            shutil.rmtree(dest, ignore_errors=True)
            os.rename(dest + ".partial", dest)
            open(os.path.join(dest, "DONE"), "w").close()
        finally:
            shutil.rmtree(tmp, ignore_errors=True)
        # keep the cache small: remove older fact sets
        for d in os.listdir(base):
            p = os.path.join(base, d)
            if os.path.isdir(p) and p != dest and time.time() - os.path.getmtime(p) > 3600:
                shutil.rmtree(p, ignore_errors=True)
        if verbose:
            print("facts extracted in %.1fs -> %s" % (time.time() - t0, dest), file=sys.stderr)
    return dest


if __name__ == "__main__":
    try:
        print(facts_dir(verbose=True))
    except AnalysisBroken as e:
        print("ANALYSIS-BROKEN:", e)
        sys.exit(2)
