"""R-SYMBOLIC: conversion of straight-line C++ expression trees into sympy expressions.

Only closed forms are handled (literals, variables, + - * / unary minus, casts, ?:, std::abs/sqrt/pow
and a table of named atoms).  Anything else raises NotClosedForm and the caller reports the
obligation as 'not analysable' - nothing is executed and no path condition is solved."""
import sympy

from .facts import strip, txt, callee, call_args, call_object, const_val


class NotClosedForm(Exception):
    pass


def to_sympy(n, resolve, depth=0):
    """resolve(node) -> sympy expr or None; called first for every node (variables, members, calls)"""
    if n is None or depth > 60:
        raise NotClosedForm("empty/too deep")
    k = n.get("k")
    c = n.get("c") or []
    if k in ("ImplicitCastExpr", "ParenExpr", "CStyleCastExpr", "CXXStaticCastExpr", "CXXFunctionalCastExpr"):
        return to_sympy(c[0], resolve, depth + 1)
    r = resolve(n)
    if r is not None:
        return r
    if k == "IntegerLiteral":
        return sympy.Integer(int(n["val"]))
    if k == "FloatingLiteral":
        return sympy.nsimplify(n["val"], rational=True)
    if k == "CXXBoolLiteralExpr":
        return sympy.true if n["val"] == "true" else sympy.false
    if k == "DeclRefExpr" and "enumc" in n:
        return sympy.Integer(int(n["val"]))
    if k == "UnaryOperator":
        v = to_sympy(c[0], resolve, depth + 1)
        if n["op"] == "-":
            return -v
        if n["op"] == "+":
            return v
        if n["op"] == "!":
            return sympy.Not(v)
        raise NotClosedForm("unary " + n["op"])
    if k == "BinaryOperator":
        op = n["op"]
        a, b = to_sympy(c[0], resolve, depth + 1), to_sympy(c[1], resolve, depth + 1)
        if op == "+":
            return a + b
        if op == "-":
            return a - b
        if op == "*":
            return a * b
        if op == "/":
            if n.get("t") in ("int", "long", "size_t", "unsigned long", "unsigned int", "long long"):
                return sympy.floor(a / b)       # integer division (the type of the division itself, explicit casts respected)
            return a / b
        if op in ("<", "<=", ">", ">=", "==", "!="):
            return {"<": sympy.Lt, "<=": sympy.Le, ">": sympy.Gt, ">=": sympy.Ge, "==": sympy.Eq, "!=": sympy.Ne}[op](a, b)
        if op == "&&":
            return sympy.And(a, b)
        if op == "||":
            return sympy.Or(a, b)
        if op in ("<<", ">>") and getattr(a, "is_Integer", False) and getattr(b, "is_Integer", False):
            return sympy.Integer(int(a) << int(b)) if op == "<<" else sympy.Integer(int(a) >> int(b))
        raise NotClosedForm("binary " + op)
    if k == "ConditionalOperator":
        cond = to_sympy(c[0], resolve, depth + 1)
        a, b = to_sympy(c[1], resolve, depth + 1), to_sympy(c[2], resolve, depth + 1)
        if cond is sympy.true:
            return a
        if cond is sympy.false:
            return b
        return sympy.Piecewise((a, cond), (b, True))
    if k == "CallExpr":
        cal = callee(n) or ""
        args = call_args(n)
        if cal in ("std::abs", "std::fabs", "abs", "fabs"):
            return sympy.Abs(to_sympy(args[0], resolve, depth + 1))
        if cal in ("std::sqrt", "sqrt"):
            return sympy.sqrt(to_sympy(args[0], resolve, depth + 1))
        if cal in ("std::pow", "pow"):
            return sympy.Pow(to_sympy(args[0], resolve, depth + 1), to_sympy(args[1], resolve, depth + 1))
        if cal in ("std::log", "log"):
            return sympy.log(to_sympy(args[0], resolve, depth + 1))
        if cal in ("std::exp", "exp"):
            return sympy.exp(to_sympy(args[0], resolve, depth + 1))
        if cal.startswith(("std::min", "std::max")) and len(args) == 2:
            a, b = to_sympy(args[0], resolve, depth + 1), to_sympy(args[1], resolve, depth + 1)
            return sympy.Min(a, b) if cal.startswith("std::min") else sympy.Max(a, b)
        raise NotClosedForm("call " + cal)
    if k in ("CXXConstructExpr",) and len(c) == 1:
        return to_sympy(c[0], resolve, depth + 1)
    raise NotClosedForm("%s: %s" % (k, txt(n)[:50]))


def equal(a, b, assumptions=None):
    """symbolic equality by simplification of the difference (piecewise aware)"""
    d = sympy.simplify(a - b)
    if d == 0:
        return True
    try:
        d2 = sympy.simplify(sympy.piecewise_fold(d))
        return d2 == 0
    except Exception:
        return False


def index_form(e):
    """(major, stride, minor) texts of an index expression of the form  major * stride + minor
    (either operand order of the product); None when the expression has another shape"""
    s = strip(e)
    if s is None or s.get("k") != "BinaryOperator" or s.get("op") != "+":
        return None
    a, b = strip(s["c"][0]), strip(s["c"][1])
    prod, minor = (a, b) if a.get("k") == "BinaryOperator" and a.get("op") == "*" else (b, a)
    if prod.get("k") != "BinaryOperator" or prod.get("op") != "*":
        return None
    u, v = strip(prod["c"][0]), strip(prod["c"][1])
    return txt(u), txt(v), txt(minor)
