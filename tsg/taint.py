"""Inter-procedural propagation of 'this parameter/variable carries value X' over resolved
call sites (forward to callee parameters).  Used for the level-limits threading rules."""
from .facts import strip, callee, call_args, callee_node, walk

IDENTITY_CALLS = ("std::move", "std::forward", "TasGrid::Utils::copyArray")


def carrier(n):
    """the variable (did) or field (qualified name) an argument expression passes on, looking
    through casts, std::move/forward, copy constructions and Utils::copyArray"""
    n = strip(n)
    while n is not None:
        k = n.get("k")
        if k == "DeclRefExpr" and "did" in n:
            return ("var", n["did"])
        if k == "MemberExpr" and "field" in n:
            return ("field", n["field"])
        if k in ("CallExpr",) and callee(n) in IDENTITY_CALLS:
            a = call_args(n)
            n = strip(a[0]) if a else None
            continue
        if k in ("CXXConstructExpr", "CXXTemporaryObjectExpr") and len(n.get("c", [])) == 1:
            n = strip(n["c"][0])
            continue
        if k == "CXXMemberCallExpr" and (callee(n) or "").endswith("::data") and (callee(n) or "").startswith("std::vector<"):
            # v.data(): the raw view of the same container
            from .facts import call_object
            n = strip(call_object(n))
            continue
        if k == "ConditionalOperator":
            # (v.empty()) ? nullptr : v.data()  -- the non-null alternative carries the value
            alts = [strip(x) for x in n["c"][1:3]]
            nonnull = [a for a in alts if a is not None and a.get("k") not in ("CXXNullPtrLiteralExpr", "GNUNullExpr", "IntegerLiteral") and
                       not (a.get("k") == "ImplicitCastExpr" and a.get("cast") == "NullToPointer")]
            if len(nonnull) == 1:
                n = nonnull[0]
                continue
            return None
        return None
    return None


class ParamFlow:
    """tainted[(fn.key, fn.sig)] = set of parameter indices (and local dids) carrying the value"""

    def __init__(self, db, seed_fields=(), seed_params=()):
        self.db = db
        self.seed_fields = set(seed_fields)
        self.params = {}      # (key,sig) -> set(param index)
        self.vars = {}        # (key,sig) -> set(did)   (params + locals copied from them)
        self.edges = []       # (caller Fn, call node, arg index, callee Fn)
        db.load_all()
        for (key, sig, idx) in seed_params:
            self.params.setdefault((key, sig), set()).add(idx)
        self._run()

    def tainted_vars(self, fn):
        k = (fn.key, fn.sig)
        out = set(self.vars.get(k, set()))
        ps = fn.params()
        for i in self.params.get(k, ()):
            if i < len(ps):
                out.add(ps[i]["did"])
        return out

    def is_carrier(self, fn, n, tv=None):
        c = carrier(n)
        if c is None:
            return False
        if c[0] == "field":
            return c[1] in self.seed_fields
        tv = tv if tv is not None else self.tainted_vars(fn)
        return c[1] in tv

    def _run(self):
        fns = [f for lst in self.db.load_all().values() for f in lst]
        # lambdas see the variables of their enclosing function: share taint by did
        changed = True
        rounds = 0
        while changed:
            rounds += 1
            changed = False
            if rounds > 50:
                break
            self.edges = []
            for fn in fns:
                k = (fn.key, fn.sig)
                tv = self.tainted_vars(fn)
                if fn.d.get("islambda"):
                    # captured variables of the parent
                    pk = fn.key.rsplit("::lambda@", 1)[0]
                    for pf in fns:
                        if pf.key == pk:
                            tv |= self.tainted_vars(pf)
                has_field = bool(self.seed_fields)
                if not tv and not has_field:
                    continue
                # local copies:  T x = tainted;
                for n in fn.walk():
                    if n.get("k") == "VarDecl" and n.get("c") and n["did"] not in tv:
                        if self.is_carrier(fn, n["c"][0], tv):
                            self.vars.setdefault(k, set()).add(n["did"])
                            tv.add(n["did"])
                            changed = True
                for call in fn.walk():
                    cal = callee(call)
                    if cal is None or cal in IDENTITY_CALLS:
                        continue
                    args = call_args(call)
                    hit = [i for i, a in enumerate(args) if self.is_carrier(fn, a, tv)]
                    if not hit:
                        continue
                    tgt = self.db.resolve(call)
                    if tgt is None:
                        continue
                    shift = 1 if (call.get("k") == "CXXOperatorCallExpr" and tgt.cls and not tgt.d.get("static")) else 0
                    targets = [tgt]
                    if tgt.d.get("virtual"):
                        targets += self.db.overriders(tgt.name, tgt.sig)
                    for t in targets:
                        tk = (t.key, t.sig)
                        for i in hit:
                            pi = i - shift
                            if pi < 0 or pi >= len(t.params()):
                                continue
                            self.edges.append((fn, call, i, t, pi))
                            if pi not in self.params.setdefault(tk, set()):
                                self.params[tk].add(pi)
                                changed = True
