"""Query layer over the merged fact files written by tsg.build."""
import json
import os

import networkx as nx

from . import build
from .build import AnalysisBroken

CHILD_KEYS = ("init", "condvar", "cond", "then", "else", "inc", "body", "range", "lv", "lhs", "sub", "c")
DO_KEYS = ("body", "cond")
TRANSPARENT = ("ImplicitCastExpr", "ParenExpr", "CXXFunctionalCastExpr", "CXXStaticCastExpr", "CStyleCastExpr")


def children(n):
    keys = DO_KEYS if n.get("k") == "DoStmt" else CHILD_KEYS
    for k in keys:
        v = n.get(k)
        if v is None:
            continue
        if isinstance(v, list):
            for x in v:
                if isinstance(x, dict):
                    yield x
        elif isinstance(v, dict):
            yield v
    if n.get("k") == "LambdaExpr":
        for p in n.get("params", []):
            yield p


def walk(n, into_lambda=True):
    """pre-order walk in source order"""
    if n is None:
        return
    stack = [n]
    while stack:
        x = stack.pop()
        yield x
        if not into_lambda and x.get("k") == "LambdaExpr" and x is not n:
            continue
        stack.extend(reversed(list(children(x))))


def strip(n, casts=True):
    """skip parentheses and implicit (and, with casts=True, explicit value) casts"""
    while n is not None and n.get("k") in (TRANSPARENT if casts else ("ImplicitCastExpr", "ParenExpr")):
        cs = n.get("c") or []
        if len(cs) != 1:
            break
        n = cs[0]
    return n


def short(q):
    return q.rsplit("::", 1)[-1] if q else q


_SUBST = {}


class substituting:
    """context manager: render variables (by declaration id) as the given replacement text"""

    def __init__(self, mapping):
        self.m = mapping

    def __enter__(self):
        global _SUBST
        self.old = _SUBST
        _SUBST = dict(self.m)

    def __exit__(self, *a):
        global _SUBST
        _SUBST = self.old


def txt(n, depth=0):
    """canonical pseudo-source rendering of an expression/statement (over resolved names)"""
    if n is None:
        return ""
    if depth > 40:
        return "…"
    k = n.get("k")
    c = n.get("c") or []
    d = depth + 1
    if k in ("ImplicitCastExpr", "ParenExpr"):
        if k == "ParenExpr":
            return "(" + txt(c[0], d) + ")"
        return txt(c[0], d) if c else ""
    if k in ("CXXFunctionalCastExpr", "CXXStaticCastExpr", "CStyleCastExpr", "CXXReinterpretCastExpr", "CXXConstCastExpr"):
        return "(%s)%s" % (n.get("to", ""), txt(c[0], d) if c else "")
    if k == "DeclRefExpr":
        if "var" in n:
            if _SUBST and n.get("did") in _SUBST:
                return _SUBST[n["did"]]
            return n["var"]
        if "fn" in n:
            return short(n["fn"])
        if "enumc" in n:
            return short(n["enumc"])
        return n.get("other", "?")
    if k == "MemberExpr":
        base = txt(c[0], d) if c else ""
        name = short(n.get("field") or n.get("fn") or n.get("other") or "?")
        if base in ("this", ""):
            return name
        return base + ("->" if n.get("arrow") else ".") + name
    if k == "CXXThisExpr":
        return "this"
    if k in ("IntegerLiteral", "FloatingLiteral", "CXXBoolLiteralExpr"):
        return n.get("val", "?")
    if k == "StringLiteral":
        return json.dumps(n.get("val", ""))
    if k == "CharacterLiteral":
        try:
            return repr(chr(int(n.get("val", "0"))))
        except ValueError:
            return "'?'"
    if k == "BinaryOperator" or k == "CompoundAssignOperator":
        return "%s %s %s" % (txt(c[0], d), n.get("op"), txt(c[1], d))
    if k == "UnaryOperator":
        return (txt(c[0], d) + n["op"]) if n.get("postfix") else (n["op"] + txt(c[0], d))
    if k == "ConditionalOperator":
        return "%s ? %s : %s" % (txt(c[0], d), txt(c[1], d), txt(c[2], d))
    if k == "CXXMemberCallExpr":
        h = strip(c[0], casts=False) if c else None
        if h is not None and h.get("k") == "MemberExpr" and short(h.get("fn", "")).startswith("operator ") and len(c) == 1 and h.get("c"):
            return txt(h["c"][0], d)        # implicit conversion operator (vector<bool> reference -> bool)
        return "%s(%s)" % (txt(c[0], d), ", ".join(txt(x, d) for x in c[1:]))
    if k == "CXXOperatorCallExpr":
        op = n.get("op")
        args = c[1:]
        if op == "[]" and len(args) == 2:
            return "%s[%s]" % (txt(args[0], d), txt(args[1], d))
        if op == "()" and args:
            return "%s(%s)" % (txt(args[0], d), ", ".join(txt(x, d) for x in args[1:]))
        if len(args) == 2:
            return "%s %s %s" % (txt(args[0], d), op, txt(args[1], d))
        if len(args) == 1:
            if op == "->":
                return txt(args[0], d)      # smart pointer: the MemberExpr adds the arrow
            return "%s%s" % (op, txt(args[0], d))
        return "operator%s(%s)" % (op, ", ".join(txt(x, d) for x in args))
    if k == "CallExpr":
        return "%s(%s)" % (txt(c[0], d), ", ".join(txt(x, d) for x in c[1:]))
    if k in ("CXXConstructExpr", "CXXTemporaryObjectExpr"):
        if len(c) == 1 and k == "CXXConstructExpr":
            return txt(c[0], d)  # copy/move/conversion: render the source
        return "%s(%s)" % (short(n.get("ctor", "?")), ", ".join(txt(x, d) for x in c))
    if k == "ArraySubscriptExpr":
        return "%s[%s]" % (txt(c[0], d), txt(c[1], d))
    if k == "CXXThrowExpr":
        return "throw " + (txt(c[0], d) if c else "")
    if k == "ReturnStmt":
        return "return " + (txt(c[0], d) if c else "")
    if k == "DeclStmt":
        return "; ".join(txt(x, d) for x in c)
    if k == "VarDecl":
        return "%s %s%s" % (n.get("t"), n.get("name"), (" = " + txt(c[0], d)) if c else "")
    if k == "InitListExpr":
        return "{" + ", ".join(txt(x, d) for x in c) + "}"
    if k == "LambdaExpr":
        return "[lambda@%d]" % n.get("l", 0)
    if k == "UnaryExprOrTypeTraitExpr":
        return "%s(%s)" % (n.get("trait"), n.get("argt") or (txt(c[0], d) if c else ""))
    if k == "CXXNewExpr":
        return "new " + n.get("newt", "")
    if k == "CXXStdInitializerListExpr":
        return txt(c[0], d) if c else "{}"
    if k == "CXXNullPtrLiteralExpr":
        return "nullptr"
    if k == "CompoundStmt":
        return "{…}"
    if k == "IfStmt":
        return "if (%s)" % txt(n.get("cond"), d)
    if k == "ForStmt":
        return "for(%s; %s; %s)" % (txt(n.get("init"), d), txt(n.get("cond"), d), txt(n.get("inc"), d))
    if k == "WhileStmt":
        return "while (%s)" % txt(n.get("cond"), d)
    if k == "DoStmt":
        return "do…while (%s)" % txt(n.get("cond"), d)
    if "omp" in n:
        return "#pragma omp " + n["omp"]
    if c:
        return "%s(%s)" % (k, ", ".join(txt(x, d) for x in c))
    return k or "?"


def const_val(n):
    """integer value of a compile-time constant expression (literals, enumerators, casts,
    comparisons and arithmetic of those); None otherwise"""
    if n is None:
        return None
    k = n.get("k")
    c = n.get("c") or []
    if k in ("ImplicitCastExpr", "ParenExpr", "CStyleCastExpr", "CXXStaticCastExpr", "CXXFunctionalCastExpr"):
        return const_val(c[0]) if len(c) == 1 else None
    if k == "IntegerLiteral":
        return int(n["val"])
    if k == "CXXBoolLiteralExpr":
        return 1 if n["val"] == "true" else 0
    if k == "DeclRefExpr" and "enumc" in n:
        return int(n["val"])
    if k == "DeclRefExpr" and "cv" in n:
        return int(n["cv"])
    if k == "UnaryOperator" and n.get("op") in ("-", "!", "+"):
        v = const_val(c[0])
        if v is None:
            return None
        return {"-": -v, "!": int(not v), "+": v}[n["op"]]
    if k == "BinaryOperator":
        a, b = const_val(c[0]), const_val(c[1])
        op = n.get("op")
        if op == "&&":
            if a == 0 or b == 0:
                return 0
            return 1 if (a is not None and b is not None) else None
        if op == "||":
            if (a is not None and a != 0) or (b is not None and b != 0):
                return 1
            return 0 if (a == 0 and b == 0) else None
        if a is None or b is None:
            return None
        try:
            return int({"==": a == b, "!=": a != b, "<": a < b, "<=": a <= b, ">": a > b, ">=": a >= b,
                        "+": a + b, "-": a - b, "*": a * b}[op])
        except KeyError:
            return None
    return None


def callee(n):
    """resolved callee name of a call-like node (None when not a call or unresolved)"""
    if n.get("k") in ("CallExpr", "CXXMemberCallExpr", "CXXOperatorCallExpr", "CXXConstructExpr", "CXXTemporaryObjectExpr"):
        if "fn" in n:
            return n["fn"]
        c = n.get("c") or []
        if c:
            h = strip(c[0], casts=False)
            if h and "fn" in h:
                return h["fn"]
    return None


def callee_node(n):
    """node that carries the resolved callee facts (fn, key, cm, virt)"""
    if "fn" in n:
        return n
    c = n.get("c") or []
    if c:
        h = strip(c[0], casts=False)
        if h and "fn" in h:
            return h
    return None


def call_args(n):
    k = n.get("k")
    c = n.get("c") or []
    if k in ("CallExpr", "CXXMemberCallExpr"):
        return c[1:]
    if k == "CXXOperatorCallExpr":
        return c[1:]
    if k in ("CXXConstructExpr", "CXXTemporaryObjectExpr"):
        return c
    return []


def call_object(n):
    """object expression of a member call (None otherwise)"""
    if n.get("k") == "CXXMemberCallExpr":
        h = strip(n["c"][0], casts=False)
        if h.get("k") == "MemberExpr" and h.get("c"):
            return h["c"][0]
    if n.get("k") == "CXXOperatorCallExpr" and len(n.get("c", [])) >= 2:
        return n["c"][1]
    return None


class CFG:
    def __init__(self, fn):
        g = fn.d.get("cfg")
        if not g:
            raise AnalysisBroken("no CFG for " + fn.key)
        self.fn = fn
        self.entry = g["entry"]
        self.exit = g["exit"]
        self.blocks = {b["id"]: b for b in g["blocks"]}
        self.G = nx.DiGraph()
        for b in g["blocks"]:
            self.G.add_node(b["id"])
            # edges whose branch condition is a compile-time constant (template argument
            # substituted) are pruned: `if (limited)` in the <false> instantiation is dead code
            dead = None
            if "cond" in b and len(b["s"]) == 2 and b.get("termk") != "SwitchStmt":
                cv = const_val(fn.nodes.get(b["cond"]))
                if cv is not None:
                    dead = 0 if cv == 0 else 1
            for i, s in enumerate(b["s"]):
                if s is not None and i != dead:
                    self.G.add_edge(b["id"], s)
            if dead is not None:
                b["s"] = [x if i != dead else None for i, x in enumerate(b["s"])]
        self.where = {}
        for b in g["blocks"]:
            for i, e in enumerate(b["e"]):
                if isinstance(e, int):
                    self.where[e] = (b["id"], i)
        self._dom = None
        self._pdom = None

    def succs(self, b):
        return [s for s in self.blocks[b]["s"] if s is not None]

    def cond_succ(self, b):
        """(cond node id, true succ, false succ) for two-way branches"""
        blk = self.blocks[b]
        if "cond" in blk and len(blk["s"]) == 2:
            return blk["cond"], blk["s"][0], blk["s"][1]
        return None

    def reachable_blocks(self):
        if getattr(self, "_reach", None) is None:
            self._reach = nx.descendants(self.G, self.entry) | {self.entry}
        return self._reach

    def dom(self):
        if self._dom is None:
            self._dom = nx.immediate_dominators(self.G, self.entry)
        return self._dom

    def pdom(self):
        if self._pdom is None:
            R = self.G.reverse()
            # functions that only throw / loop forever may not reach exit
            self._pdom = nx.immediate_dominators(R, self.exit)
        return self._pdom

    def dominates(self, a, b):
        """block a dominates block b"""
        d = self.dom()
        if b not in d:
            return False
        while True:
            if a == b:
                return True
            p = d.get(b)
            if p is None or p == b:
                return False
            b = p

    def postdominates(self, a, b):
        d = self.pdom()
        if b not in d:
            return False
        while True:
            if a == b:
                return True
            p = d.get(b)
            if p is None or p == b:
                return False
            b = p

    def block_of(self, node):
        """block/index of a node or of its nearest descendant/ancestor that is a CFG element"""
        nid = node["id"] if isinstance(node, dict) else node
        if nid in self.where:
            return self.where[nid]
        if isinstance(node, dict):
            for x in walk(node):
                if x.get("id") in self.where:
                    return self.where[x["id"]]
            p = self.fn.parent.get(nid)
            while p is not None:
                if p.get("id") in self.where:
                    return self.where[p["id"]]
                p = self.fn.parent.get(p.get("id"))
        return None


class Fn:
    def __init__(self, d):
        self.d = d
        self.key = d["key"]
        self.name = d["name"]
        self.sig = d["sig"]
        self.file = d["file"]
        self.line = d["line"]
        self.cls = d.get("class")
        self.body = d["body"]
        self._nodes = None
        self._parent = None
        self._cfg = None

    def __repr__(self):
        return "<Fn %s%s %s:%d>" % (self.key, self.sig, self.file, self.line)

    @property
    def where(self):
        return "%s:%d" % (self.file, self.line)

    def _index(self):
        self._nodes = {}
        self._parent = {}
        roots = [self.body] + [i["init"] for i in self.d.get("inits", []) if i.get("init")]
        for r in roots:
            stack = [(r, None)]
            while stack:
                n, p = stack.pop()
                if "id" in n:
                    self._nodes[n["id"]] = n
                    if p is not None:
                        self._parent[n["id"]] = p
                elif p is not None and n.get("k") == "VarDecl":
                    # VarDecls have no stmt id; give them a synthetic one
                    n["id"] = "v%d" % n["did"]
                    self._nodes[n["id"]] = n
                    self._parent[n["id"]] = p
                for ch in children(n):
                    stack.append((ch, n))

    @property
    def nodes(self):
        if self._nodes is None:
            self._index()
        return self._nodes

    @property
    def parent(self):
        if self._parent is None:
            self._index()
        return self._parent

    def ancestors(self, n):
        p = self.parent.get(n.get("id"))
        while p is not None:
            yield p
            p = self.parent.get(p.get("id"))

    @property
    def cfg(self):
        if self._cfg is None:
            self._cfg = CFG(self)
        return self._cfg

    def walk(self, into_lambda=True):
        yield from walk(self.body, into_lambda)
        for i in self.d.get("inits", []):
            if i.get("init"):
                yield from walk(i["init"], into_lambda)

    def calls(self, name=None, into_lambda=True):
        for n in self.walk(into_lambda):
            c = callee(n)
            if c is not None and (name is None or c == name or (isinstance(name, (set, tuple, list, frozenset)) and c in name)):
                yield n

    def loc(self, n):
        return "%s:%d" % (self.file, n.get("l", self.line))

    def locals(self):
        """did -> VarDecl node; range-for variables map to {'range': <range expression>}"""
        if getattr(self, "_locals", None) is None:
            self._locals = {}
            for n in self.walk():
                if n.get("k") == "VarDecl" and "did" in n:
                    self._locals.setdefault(n["did"], n)
                if n.get("k") == "CXXForRangeStmt" and n.get("lv") is not None:
                    self._locals[n["lv"]["did"]] = {"k": "VarDecl", "did": n["lv"]["did"], "name": n["lv"].get("name"), "range": n.get("range"), "t": n["lv"].get("t")}
        return self._locals

    def params(self):
        return self.d.get("params", [])


class DB:
    """facts of one configuration ('serial' or 'omp')"""

    def __init__(self, config="serial", root=None):
        # the thorough tier re-runs the path rules on the OpenMP configuration (the #ifdef _OPENMP branches are parsed there)
        if config == "serial" and os.environ.get("TSG_CONFIG_OVERRIDE"):
            config = os.environ["TSG_CONFIG_OVERRIDE"]
        self.root = root or build.facts_dir()
        self.dir = os.path.join(self.root, config)
        self.config = config
        self.index = json.load(open(os.path.join(self.dir, "index.json")))
        self._files = {}
        rec = json.load(open(os.path.join(self.dir, "records.json")))
        self.records = {}
        for r in rec["records"]:
            self.records.setdefault(r["name"], r)
        self.enums = {e["name"]: e for e in rec["enums"]}
        self._byname = None

    def files(self):
        return sorted(self.index["files"])

    def file_functions(self, relfile):
        if relfile not in self._files:
            ent = self.index["files"].get(relfile)
            if ent is None:
                raise AnalysisBroken("no facts for file %s (anchor vanished?)" % relfile)
            self._files[relfile] = [Fn(d) for d in json.load(open(os.path.join(self.dir, ent["store"])))]
        return self._files[relfile]

    def all_functions(self, files=None):
        for f in (files or self.files()):
            yield from self.file_functions(f)

    def load_all(self):
        if self._byname is None:
            self._byname = {}
            self._bykey = {}
            for fn in self.all_functions():
                self._byname.setdefault(fn.name, []).append(fn)
                self._bykey.setdefault((fn.key, fn.sig), fn)
        return self._byname

    def resolve(self, call):
        """definition of the callee of a call node (None for library / undefined callees)"""
        h = callee_node(call)
        if h is None:
            return None
        self.load_all()
        return self._bykey.get((h.get("key"), h.get("csig")))

    def overriders(self, qname, sig):
        """definitions of all methods overriding the virtual method qname(sig) (transitively)"""
        self.load_all()
        out = []
        for fns in self._byname.values():
            for f in fns:
                if f.sig == sig and qname in f.d.get("overrides", []):
                    out.append(f)
        return out

    def fns(self, name, files=None, required=True):
        """all definitions (overloads, instantiations) with this qualified name"""
        if files is None:
            res = self.load_all().get(name, [])
        else:
            res = [f for f in self.all_functions(files) if f.name == name]
        if required and not res:
            raise AnalysisBroken("anchor function %s not found" % name)
        return res

    def fn(self, name, files=None, sig=None, targs=None):
        res = self.fns(name, files)
        if sig is not None:
            res = [f for f in res if sig in f.sig]
        if targs is not None:
            res = [f for f in res if f.d.get("targs") == targs]
        if len(res) != 1:
            raise AnalysisBroken("expected exactly one definition of %s (sig=%s targs=%s), found %d" % (name, sig, targs, len(res)))
        return res[0]

    def record(self, name):
        r = self.records.get(name)
        if r is None:
            raise AnalysisBroken("anchor class %s not found" % name)
        return r

    def enum(self, name):
        e = self.enums.get(name)
        if e is None:
            raise AnalysisBroken("anchor enum %s not found" % name)
        return e
