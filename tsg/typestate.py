"""Path rules on the CFG: must-pass-after / must-pass-before, member write detection."""
from .facts import strip, txt, callee, call_args, call_object, walk
from .flow import element_writes, STD_ACCESSORS, ASSIGN_OPS, is_accessor, STD_OUTPUT_ARGS


def member_of(n):
    """qualified field name at the root of an lvalue path rooted in `this` (None otherwise)"""
    n = strip(n)
    last = None
    while n is not None:
        k = n.get("k")
        if k == "MemberExpr" and "field" in n:
            last = n["field"]
            c = n.get("c") or []
            if not c:
                return last
            b = strip(c[0])
            if b.get("k") == "CXXThisExpr":
                return last
            n = b
            continue
        if k in ("ArraySubscriptExpr", "UnaryOperator", "ImplicitCastExpr", "ParenExpr"):
            c = n.get("c") or []
            n = strip(c[0]) if c else None
            continue
        if k == "CXXOperatorCallExpr" and n.get("op") in ("[]", "*", "->"):
            n = strip(n["c"][1])
            continue
        if k == "BinaryOperator" and n.get("op") in ("+", "-"):
            n = strip(n["c"][0])
            continue
        if k == "CXXOperatorCallExpr" and n.get("op") in ("+", "-") and len(n.get("c", [])) == 3:
            n = strip(n["c"][1])
            continue
        if k in ("CXXConstructExpr", "CXXTemporaryObjectExpr") and len(n.get("c", [])) == 1:
            n = strip(n["c"][0])
            continue
        if k == "CXXMemberCallExpr":
            o = call_object(n)
            n = strip(o) if o is not None else None
            continue
        if k == "CXXThisExpr":
            return last
        return None
    return None


def pointer_aliases(fn):
    """locals of non-const pointer/reference type initialised from an lvalue path into a member
    (T *p = member.getStrip(i);  auto &v = member[k];) : did -> field"""
    al = {}
    for n in fn.walk():
        if n.get("k") == "VarDecl" and n.get("c"):
            t = n.get("t", "")
            if not (t.endswith("*") or t.endswith("&") or n.get("ref")):
                continue
            if t.startswith("const ") or " const *" in t or "const " in t.split("<")[0]:
                continue
            f = member_of(n["c"][0])
            if f:
                al[n["did"]] = f
    return al


def _alias_root(n, al):
    from .flow import base_var
    v = base_var(n)
    return al.get(v) if v is not None else None


def member_writes(fn, into_lambda=True):
    """yield (node, field, kind) for every element that may modify a data member of *this
    kind: 'assign' | 'update' (compound, ++, non-const method, passed as mutable argument)"""
    al = pointer_aliases(fn)
    if al:
        for n in fn.walk(into_lambda):
            k = n.get("k")
            c = n.get("c") or []
            if k in ("BinaryOperator", "CompoundAssignOperator") and n.get("op") in ASSIGN_OPS:
                l = strip(c[0])
                if l is not None and l.get("k") != "DeclRefExpr":      # p[k] = .., *p = ..  (not re-seating p itself)
                    f = _alias_root(l, al)
                    if f:
                        yield n, f, "update"
            elif k in ("CallExpr", "CXXMemberCallExpr", "CXXOperatorCallExpr"):
                args = call_args(n)
                for i in n.get("mutargs", []):
                    if i < len(args):
                        f = _alias_root(strip(args[i]), al)
                        if f:
                            yield n, f, "update"
    for n in fn.walk(into_lambda):
        k = n.get("k")
        c = n.get("c") or []
        if k in ("BinaryOperator", "CompoundAssignOperator") and n.get("op") in ASSIGN_OPS:
            f = member_of(c[0])
            if f:
                yield n, f, ("assign" if n.get("op") == "=" and strip(c[0]).get("k") == "MemberExpr" else "update")
        elif k == "UnaryOperator" and n.get("op") in ("++", "--"):
            f = member_of(c[0])
            if f:
                yield n, f, "update"
        elif k in ("CallExpr", "CXXMemberCallExpr", "CXXOperatorCallExpr", "CXXConstructExpr", "CXXTemporaryObjectExpr"):
            args = call_args(n)
            for i in n.get("mutargs", []):
                if i < len(args):
                    a = strip(args[i])
                    if a is not None and a.get("k") == "UnaryOperator" and a.get("op") == "&":
                        a = strip(a["c"][0])
                    f = member_of(a) if a is not None else None
                    if f:
                        yield n, f, "update"
            if k == "CallExpr" and callee(n) in STD_OUTPUT_ARGS:
                for i in STD_OUTPUT_ARGS[callee(n)]:
                    if i < len(args):
                        f = member_of(args[i])
                        if f:
                            yield n, f, "update"
            if k == "CXXMemberCallExpr":
                h = strip(n["c"][0], casts=False)
                if h is not None and not h.get("cm") and not h.get("static") and not is_accessor(h.get("fn", "")):
                    o = call_object(n)
                    f = member_of(o) if o is not None else None
                    if f:
                        yield n, f, "update"
            if k == "CXXOperatorCallExpr" and n.get("op") in ASSIGN_OPS + ("++", "--") and args:
                f = member_of(args[0])
                if f:
                    yield n, f, ("assign" if n.get("op") == "=" and strip(args[0]).get("k") == "MemberExpr" else "update")


def must_pass_after(fn, start, pred, stop_at_throw=True):
    """True iff every CFG path from just after element `start` to the function exit executes an
    element satisfying pred(node).  Paths that end in a throw are ignored when stop_at_throw."""
    cfg = fn.cfg
    w = cfg.block_of(start)
    if w is None:
        return None
    b0, i0 = w

    def scan(bid, frm):
        for e in cfg.blocks[bid]["e"][frm:]:
            if isinstance(e, int):
                n = fn.nodes.get(e)
                if n is None:
                    continue
                if pred(n):
                    return "hit"
                if stop_at_throw and n.get("k") == "CXXThrowExpr":
                    return "throw"
        return None

    r = scan(b0, i0 + 1)
    if r:
        return True
    seen = set()
    work = [s for s in cfg.succs(b0)]
    while work:
        b = work.pop()
        if b in seen:
            continue
        seen.add(b)
        if b == cfg.exit:
            return False
        r = scan(b, 0)
        if r:
            continue
        work.extend(cfg.succs(b))
    return True


def must_pass_before(fn, target, pred):
    """True iff every CFG path from function entry to element `target` executes an element
    satisfying pred before reaching it"""
    cfg = fn.cfg
    w = cfg.block_of(target)
    if w is None:
        return None
    bt, it = w
    # forward reachability from entry avoiding blocks after a hit
    seen = set()
    work = [cfg.entry]
    while work:
        b = work.pop()
        if b in seen:
            continue
        seen.add(b)
        hit = False
        lim = it if b == bt else None
        for e in cfg.blocks[b]["e"][:lim]:
            if isinstance(e, int):
                n = fn.nodes.get(e)
                if n is not None and pred(n):
                    hit = True
                    break
        if b == bt and not hit:
            return False
        if hit:
            continue
        work.extend(cfg.succs(b))
    return True


def must_pass_each_iteration(fn, loop, pred):
    """True iff every path through one iteration of `loop` (from the first element of its body to the point where the body is left:
    increment, next test of the condition, break or return) executes an element satisfying pred.  None if the body is not in the CFG."""
    from .facts import walk
    cfg = fn.cfg
    body = loop.get("body")
    if body is None:
        return None
    ids = {q.get("id") for q in [body] + list(walk(body)) if q.get("id") is not None}
    inside = set()
    first = None
    decls = {q.get("did") for q in walk(body) if q.get("k") == "VarDecl"}
    for b, blk in cfg.blocks.items():
        for e in blk["e"]:
            if isinstance(e, int) and e in ids:
                inside.add(b)
            elif isinstance(e, dict) and e.get("dtor") in decls:
                inside.add(b)       # implicit destructor of a variable of the body: still the same iteration
        if blk.get("cond") in ids:
            inside.add(b)
    # entry block of the body: the inside block that has a predecessor outside (the loop condition)
    preds = {}
    for b in cfg.blocks:
        for s_ in cfg.succs(b):
            preds.setdefault(s_, set()).add(b)
    starts = [b for b in inside if any(p_ not in inside for p_ in preds.get(b, ()))]
    if not starts:
        return None
    seen = set()
    work = list(starts)
    while work:
        b = work.pop()
        if b in seen:
            continue
        seen.add(b)
        hit = False
        for e in cfg.blocks[b]["e"]:
            if isinstance(e, int):
                n = fn.nodes.get(e)
                if n is not None and pred(n):
                    hit = True
                    break
        if hit:
            continue
        for s_ in cfg.succs(b):
            if s_ not in inside:
                # leaving the body: a throw is not an iteration that has to be recorded
                blk = cfg.blocks[b]
                last = [fn.nodes.get(e) for e in blk["e"] if isinstance(e, int)]
                if any(x is not None and x.get("k") == "CXXThrowExpr" for x in last):
                    continue
                return False
            work.append(s_)
    return True


def flag_known(fn, flag_is, gen_value, at_nodes):
    """Forward must-analysis of one boolean flag over the CFG of fn.

    flag_is(node)   -> None, or the boolean the node assigns to the flag (node is a CFG element)
    cond_flag(node) is derived from flag_is applied to branch conditions `flag` / `!flag` (through fn.nodes)
    Returns {node id: True/False}: whether the flag is known to equal gen_value when each of at_nodes executes
    (intersection over all paths; unknown at function entry)."""
    cfg = fn.cfg

    def cond_value(cn):
        """(value of the flag on the true edge) for conditions `flag`, `!flag`; None otherwise"""
        c = strip(cn)
        neg = False
        while c is not None and c.get("k") == "UnaryOperator" and c.get("op") == "!":
            neg = not neg
            c = strip(c["c"][0])
        if c is not None and c.get("k") == "BinaryOperator" and c.get("op") in ("==", "!="):
            # flag == false, true != flag, ...
            a, b = strip(c["c"][0]), strip(c["c"][1])
            for x, y in ((a, b), (b, a)):
                if y is not None and y.get("k") == "CXXBoolLiteralExpr" and x is not None and flag_is(("read", x)):
                    lit = (y.get("val") == "true")
                    val = lit if c["op"] == "==" else (not lit)
                    return (not val) if neg else val
        if c is not None and flag_is(("read", c)):
            return not neg
        return None
    targets = {n["id"]: n for n in at_nodes}
    IN = {b: None for b in cfg.blocks}          # None = not visited yet (top), else bool "known to equal gen_value"
    IN[cfg.entry] = False
    result = {}
    work = [cfg.entry]
    edge_fact = {}
    while work:
        b = work.pop()
        cur = IN[b]
        for e in cfg.blocks[b]["e"]:
            if not isinstance(e, int):
                continue
            n = fn.nodes.get(e)
            if n is None:
                continue
            if e in targets:
                result[e] = bool(cur) if e not in result else (result[e] and bool(cur))
            v = flag_is(("write", n))
            if v is not None:
                cur = (v == gen_value)
        cs = cfg.cond_succ(b)
        for s in cfg.succs(b):
            out = cur
            if cs is not None:
                cv = cond_value(fn.nodes.get(cs[0]) or {})
                if cv is not None:
                    if s == cs[1] and s != cs[2]:
                        out = (cv == gen_value)
                    elif s == cs[2] and s != cs[1]:
                        out = ((not cv) == gen_value)
            new = out if IN[s] is None else (IN[s] and out)
            if IN[s] is None or new != IN[s]:
                IN[s] = new
                work.append(s)
    # a second sweep so that results reflect the fixed point
    for b in cfg.blocks:
        cur = IN[b]
        if cur is None:
            continue
        for e in cfg.blocks[b]["e"]:
            if not isinstance(e, int):
                continue
            n = fn.nodes.get(e)
            if n is None:
                continue
            if e in targets:
                result[e] = bool(cur)
            v = flag_is(("write", n))
            if v is not None:
                cur = (v == gen_value)
    return result
