"""C14: rules added after the fourth seeding round (documented throws-clauses that the API did not honour).

D15.family   a method that is documented for one grid family (update<Family>Grid) rejects the other families before it delegates to the family-generic routine.
D16.output   GridGlobal routines use `output` as a subscript; every API call that hands its `output` parameter to one of them is unreachable for output == -1
             (propositional check over the dominating conditions and guard clauses).
D17.rawlen   a raw-pointer overload that copies an array with a length computed from an integer parameter validates that parameter first: a negative length
             would escape as std::length_error from the vector constructor.
D18.nopoints the vector overload of loadNeededValues() cannot hand a null pointer to the grid class: a grid without needed and without loaded points is rejected
             before the size test (0 == 0) can pass.
"""
import sympy
from sympy.logic.inference import satisfiable

from tsg.facts import strip, txt, walk, callee, call_args, call_object, short, const_val
from tsg.flow import relation, cond_edges_dominating, is_reachable
from tsg.typestate import must_pass_before
from tsg.build import AnalysisBroken

TSG = "TasGrid::TasmanianSparseGrid"
FILES = ["SparseGrids/TasmanianSparseGrid.cpp", "SparseGrids/TasmanianSparseGrid.hpp"]
FAMILIES = {"Global": "isGlobal", "Sequence": "isSequence", "Fourier": "isFourier", "LocalPolynomial": "isLocalPolynomial", "Wavelet": "isWavelet"}


def _throws_under(f, pred_name, negated=True):
    """a throw in f on the edge where pred_name() is false (negated) / true"""
    for th in [n for n in f.walk(into_lambda=False) if n.get("k") == "CXXThrowExpr" and is_reachable(f, n)]:
        for cnd, truth in cond_edges_dominating(f, th):
            s = strip(cnd)
            t = txt(s).replace("this->", "").replace(" ", "")
            if t == "%s()" % pred_name and truth == (not negated):
                return True
            if t in ("!%s()" % pred_name, "not%s()" % pred_name) and truth == negated:
                return True
    return False


def family_rule(chk, db, rule_id, formula):
    chk.rule(rule_id, "a public method that is named and documented for one grid family (update<Family>Grid) throws when the grid belongs to another family, in the method itself or in the "
                      "same-name overload it forwards to, before it delegates to the family-generic update")
    n = 0
    fns = [f for f in db.all_functions(FILES) if f.cls == TSG and not f.d.get("islambda")]
    byname = {}
    for f in fns:
        byname.setdefault(short(f.name), []).append(f)
    for f in fns:
        last = short(f.name)
        fam = next((k for k in FAMILIES if last == "update%sGrid" % k), None)
        if fam is None:
            continue
        n += 1
        chk.saw(f)
        ok = _throws_under(f, FAMILIES[fam])
        if not ok:
            # forwards to the sibling overload that tests
            for c in f.calls(into_lambda=False):
                if short(callee(c) or "") == last:
                    t = db.resolve(c)
                    if t is not None and (t.key, t.sig) != (f.key, f.sig) and _throws_under(t, FAMILIES[fam]):
                        ok = True
        chk.ob(rule_id, f.key + f.sig, "%s rejects grids that are not %s" % (last, fam), ok, f.where,
               "" if ok else "no throw on the edge where %s() is false: the call silently updates a grid of another family although the documentation announces std::runtime_error" % FAMILIES[fam])
    return n


def output_rule(chk, db, rule_id, formula):
    chk.rule(rule_id, "the Global grid uses the output index as a subscript (GridGlobal::computeSurpluses reads values[i][output] with no test for -1); wherever the API hands its `output` "
                      "parameter to a GridGlobal routine, the dominating conditions and guard clauses make output == -1 impossible (propositional check): -1 means 'all outputs' only for the "
                      "families that implement it")
    # premise: a GridGlobal routine subscripts with its output parameter and never tests it
    gg = [f for f in db.all_functions(["SparseGrids/tsgGridGlobal.cpp"]) if f.cls == "TasGrid::GridGlobal"]
    unsafe = set()
    for g in gg:
        for p_ in g.params():
            if p_.get("name") != "output":
                continue
            subs = [q for q in g.walk() if q.get("k") == "ArraySubscriptExpr" and (strip(q["c"][1]) or {}).get("did") == p_["did"]]
            tests = [q for q in g.walk() if q.get("k") == "BinaryOperator" and q.get("op") in ("==", "!=", "<", ">=") and any((strip(x) or {}).get("did") == p_["did"] for x in q["c"])]
            if subs and not tests:
                unsafe.add((g.key, g.sig))
    # routines that pass their output on to an unsafe one
    changed = True
    while changed:
        changed = False
        for g in gg:
            if (g.key, g.sig) in unsafe:
                continue
            for p_ in g.params():
                if p_.get("name") != "output":
                    continue
                for c in g.calls():
                    t = db.resolve(c)
                    if t is not None and (t.key, t.sig) in unsafe and any((strip(a) or {}).get("did") == p_["did"] for a in call_args(c)):
                        if not [q for q in g.walk() if q.get("k") == "BinaryOperator" and q.get("op") in ("==", "!=", "<", ">=") and any((strip(x) or {}).get("did") == p_["did"] for x in q["c"])]:
                            unsafe.add((g.key, g.sig))
                            changed = True
    if not unsafe:
        chk.note(rule_id, "SparseGrids/tsgGridGlobal.cpp", "no GridGlobal routine subscripts with an untested output parameter: nothing to require from the API")
        return 0
    n = 0
    for f in db.all_functions(FILES):
        if f.cls != TSG or f.d.get("islambda"):
            continue
        op = next((p_ for p_ in f.params() if p_.get("name") == "output"), None)
        if op is None:
            continue
        for c in f.calls(into_lambda=False):
            t = db.resolve(c)
            if t is None or (t.key, t.sig) not in unsafe or not is_reachable(f, c):
                continue
            if not any((strip(a) or {}).get("did") == op["did"] for a in call_args(c)):
                continue
            n += 1
            chk.saw(f)
            atoms = {}
            parts = []
            for cnd, truth in cond_edges_dominating(f, c):
                fm = formula(cnd, atoms)
                parts.append(fm if truth else sympy.Not(fm))
            assume = []
            for key, sym in atoms.items():
                k2 = key.replace(" ", "")
                if k2 in ("output==-1", "-1==output", "output<0"):
                    assume.append(sym)
                elif k2 in ("output!=-1", "output>=0", "output>-1"):
                    assume.append(sympy.Not(sym))
                elif k2 == "output<-1":
                    assume.append(sympy.Not(sym))
            possible = bool(satisfiable(sympy.And(*(parts + assume)))) if (parts or assume) else True
            if not any(k.replace(" ", "") in ("output==-1", "-1==output", "output<0", "output!=-1", "output>=0", "output>-1") for k in atoms):
                possible = True      # never tested
            chk.ob(rule_id, f.key + f.sig, "%s is not reached with output == -1" % short(t.name), not possible, f.loc(c),
                   "" if not possible else "output == -1 passes the range test (output < -1 is rejected, -1 is not) and reaches a routine that reads values[i][-1]")
    return n


def rawlen_rule(chk, db, rule_id):
    chk.rule(rule_id, "a raw-pointer make overload copies its arrays with a length computed from `dimensions` (Utils::copyArray); a throw guarded by a test of `dimensions` against 1 "
                      "dominates the copy, so that a negative dimension is reported as std::invalid_argument and not as std::length_error from the vector constructor")
    n = 0
    for f in db.all_functions(FILES):
        if f.cls != TSG or f.d.get("islambda") or not short(f.name).startswith("make"):
            continue
        dp = next((p_ for p_ in f.params() if p_.get("name") == "dimensions"), None)
        if dp is None:
            continue
        copies = [c for c in f.calls(into_lambda=False) if short(callee(c) or "").startswith("copyArray") and is_reachable(f, c) and
                  any(q.get("k") == "DeclRefExpr" and q.get("did") == dp["did"] for a in call_args(c)[1:] for q in [a] + list(walk(a)))]
        for c in copies:
            n += 1
            chk.saw(f)
            ok = False
            for cnd, truth in cond_edges_dominating(f, c):
                r = relation(cnd)
                # on the edge taken the parameter is known not to be below the bound: false edge of `dimensions < 1`, true edge of `dimensions >= 1`
                if r is not None and (strip(r[0]) or {}).get("did") == dp["did"] and ((r[1] in ("<", "<=") and not truth) or (r[1] in (">", ">=") and truth)):
                    ok = True
            chk.ob(rule_id, f.key + f.sig, "copyArray(..., %s) after `dimensions` was validated" % txt(strip(call_args(c)[1]))[:40], ok, f.loc(c),
                   "" if ok else "the array is copied before `dimensions < 1` is rejected: a negative value becomes a huge size_t")
    return n


def nopoints_rule(chk, db, rule_id):
    chk.rule(rule_id, "loadNeededValues(std::vector) forwards vals.data() only after the number of points it expects values for was tested against zero (throwing): an empty vector passes "
                      "the size test 0 == 0 for a grid whose needed points were cleared before anything was loaded, and the grid class would copy from a null pointer")
    n = 0
    for f in db.all_functions(FILES):
        if f.cls != TSG or short(f.name) != "loadNeededValues" or "std::vector" not in f.sig:
            continue
        for c in f.calls(into_lambda=False):
            if short(callee(c) or "") != "loadNeededValues" or not is_reachable(f, c):
                continue
            n += 1
            chk.saw(f)
            ok = False
            for cnd, truth in cond_edges_dominating(f, c):
                r = relation(cnd)
                if r is not None and const_val(strip(r[2])) == 0 and ((r[1] == "==" and not truth) or (r[1] in ("!=", ">") and truth)) and \
                        any(q.get("k") == "DeclRefExpr" for q in [r[0]] + list(walk(r[0]))):
                    # the tested variable counts points (initialised from getNumNeeded / getNumPoints)
                    d = strip(r[0])
                    loc = {v.get("did"): v for v in f.locals().values()}
                    ini = txt(loc.get(d.get("did"), {})) if d is not None else ""
                    if "getNumNeeded" in ini or "getNumPoints" in ini or "getNumLoaded" in ini:
                        ok = True
            chk.ob(rule_id, f.key + f.sig, "values forwarded only for a grid that has points", ok, f.loc(c),
                   "" if ok else "no throwing test of the point count against zero dominates the forwarding call")
    return n


def modes_rule(chk, db, rule_id):
    chk.rule(rule_id, "batch refinement and dynamic construction exclude each other: every API method that hands a batch refinement to the grid class (updateGrid, set*Refinement of the "
                      "grid classes) throws while using_dynamic_construction is set, in the method or in the same-name overload it is reached from; the refinement routines replace the "
                      "needed points and tensors that the construction data refer to")
    fns = [f for f in db.all_functions(FILES) if f.cls == TSG and not f.d.get("islambda")]
    n = 0
    for f in fns:
        if f.d.get("const"):
            continue
        for c in f.calls(into_lambda=False):
            cal = callee(c) or ""
            last = short(cal)
            if not cal.startswith("TasGrid::Grid") or not (last == "updateGrid" or (last.startswith("set") and last.endswith("Refinement"))) or not is_reachable(f, c):
                continue
            n += 1
            chk.saw(f)
            ok = False
            for th in [x for x in f.walk(into_lambda=False) if x.get("k") == "CXXThrowExpr"]:
                for cnd, truth in cond_edges_dominating(f, th):
                    if truth and txt(strip(cnd)).replace("this->", "") == "using_dynamic_construction":
                        ok = True
            chk.ob(rule_id, f.key + f.sig, "%s is not reached during dynamic construction" % cal.replace("TasGrid::", ""), ok, f.loc(c),
                   "" if ok else "no throw under `using_dynamic_construction` in this method: a batch refinement can be installed in the middle of a construction")
    return n


def tablebound_rule(chk, db, rule_id):
    """levels 0..L of a tabulated / cached one dimensional rule are used only when L + 1 <= getNumLevels()"""
    import sympy
    from tsg.sym import to_sympy, NotClosedForm
    chk.rule(rule_id, "wherever the largest level that is going to be used is compared with the number of levels a table or cache holds (getNumLevels()), the outcome that keeps using the "
                      "table implies level + 1 <= getNumLevels(): the comparison is brought to the normal form `V + c <= NL` on its 'sufficient' side (members are replaced by their "
                      "constructor initialisers) and c >= 1 is required; otherwise the documented exception for a table that is too short is not thrown and the level is read past the end")
    NL = sympy.Symbol("NL", integer=True)
    n = 0
    for f in db.all_functions(["SparseGrids/tsgOneDimensionalWrapper.hpp", "SparseGrids/tsgGridGlobal.cpp", "SparseGrids/tsgGridFourier.cpp", "SparseGrids/tsgGridGlobal.hpp", "SparseGrids/tsgGridFourier.hpp"]):
        if f.d.get("islambda"):
            continue
        inits = {short(i["field"]): i["init"] for i in (f.d.get("inits") or []) if i.get("field") and i.get("init") is not None}

        def resolve(q, depth=[0]):
            k = q.get("k")
            if k in ("CXXMemberCallExpr", "CallExpr") and short(callee(q) or "") == "getNumLevels":
                return NL
            if k == "MemberExpr" and short(q.get("field") or "") in inits and depth[0] < 3:
                depth[0] += 1
                try:
                    return to_sympy(inits[short(q["field"])], resolve)
                finally:
                    depth[0] -= 1
            if k == "DeclRefExpr" and q.get("var"):
                d_ = f.locals().get(q.get("did"))
                if d_ is not None and d_.get("c") and depth[0] < 3 and not q.get("parm"):
                    depth[0] += 1
                    try:
                        return to_sympy(d_["c"][0], resolve)
                    except NotClosedForm:
                        pass
                    finally:
                        depth[0] -= 1
                return sympy.Symbol("v_" + q["var"], integer=True)
            if k in ("CXXMemberCallExpr", "CallExpr") and not call_args(q):
                return sympy.Symbol("c_" + short(callee(q) or "call"), integer=True)
            if k == "MemberExpr" and q.get("field"):
                return sympy.Symbol("m_" + short(q["field"]), integer=True)
            return None
        for iff in f.walk():
            if iff.get("k") != "IfStmt" or iff.get("cond") is None or not is_reachable(f, iff):
                continue
            c = strip(iff["cond"])
            if c is None or c.get("k") != "BinaryOperator" or c.get("op") not in ("<", "<=", ">", ">=") or "getNumLevels" not in txt(c):
                continue
            try:
                a, b = to_sympy(c["c"][0], resolve), to_sympy(c["c"][1], resolve)
            except NotClosedForm:
                continue
            op = c["op"]
            if NL in b.free_symbols and NL not in a.free_symbols:
                small, large = a, b          # written as  small OP large
            elif NL in a.free_symbols and NL not in b.free_symbols:
                small, large, op = b, a, {"<": ">", ">": "<", "<=": ">=", ">=": "<="}[op]
            else:
                continue
            # 'sufficient' region in the form  small + k <= large
            k_ = {"<": 1, "<=": 0, ">": 0, ">=": 1}[op]      # small < large -> small + 1 <= large ; NOT(small > large) -> small <= large ; NOT(small >= large) -> small + 1 <= large
            free = [s_ for s_ in small.free_symbols]
            if len(free) != 1:
                continue
            V = free[0]
            cval = sympy.simplify(small + k_ - V - (large - NL))
            n += 1
            chk.saw(f)
            ok = cval.is_number and cval >= 1
            chk.ob(rule_id, f.key + f.sig, "table bound @%d `%s`" % (iff.get("l", 0), txt(c)[:60]), bool(ok), f.loc(iff),
                   "the table is used as is when %s + %s <= getNumLevels()" % (V, cval), "level + 1 <= getNumLevels()")
    return n


def cwrap_rule(chk, db, rule_id):
    """C entry points that turn a failed read into a return code catch both exception types the readers throw"""
    chk.rule(rule_id, "an extern C entry point that wraps a file read of the library in try/catch and reports failure through its return value handles every exception type the readers "
                      "throw for a file they reject (std::runtime_error and, from the custom-rule block, std::invalid_argument) - by both types, a common base class or catch(...): "
                      "an exception that leaves an extern-C function terminates the caller")
    n = 0
    for f in db.all_functions(["SparseGrids/TasmanianSparseGridWrapC.cpp"]):
        for t in f.walk():
            if t.get("k") != "CXXTryStmt":
                continue
            kids = [c for c in t.get("c", []) if isinstance(c, dict)]
            body = [c for c in kids if c.get("k") != "CXXCatchStmt"]
            handlers = [c for c in kids if c.get("k") == "CXXCatchStmt"]
            if not any(q.get("k") == "CXXMemberCallExpr" and short(callee(q) or "") == "read" for b in body for q in walk(b)):
                continue
            n += 1
            chk.saw(f)
            types = [h.get("catch") or "" for h in handlers]
            wide = any(tp == "..." or "std::exception" in tp for tp in types)
            ok = wide or (any("runtime_error" in tp for tp in types) and any("invalid_argument" in tp or "logic_error" in tp for tp in types))
            chk.ob(rule_id, f.key, "failed read converted into a return code @%d" % t.get("l", 0), ok, f.loc(t), "handlers: %s" % types, "std::runtime_error and std::invalid_argument (or a common base)")
    return n
