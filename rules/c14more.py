"""C14: rules added after the fourth seeding round (documented throws-clauses that the API did not honour).

D15.family   a method that is documented for one grid family (update<Family>Grid) rejects the other families before it delegates to the family-generic routine.
D16.output   GridGlobal routines use `output` as a subscript; every API call that hands its `output` parameter to one of them is unreachable for output == -1
             (propositional check over the dominating conditions and guard clauses).
D17.rawlen   a raw-pointer overload that copies an array with a length computed from an integer parameter validates that parameter first: a negative length
             would escape as std::length_error from the vector constructor.
D18.nopoints the vector overload of loadNeededValues() cannot hand a null pointer to the grid class: a grid without needed and without loaded points is rejected
             before the size test (0 == 0) can pass.
"""
import sympy
from sympy.logic.inference import satisfiable

from tsg.facts import strip, txt, walk, callee, call_args, call_object, short, const_val
from tsg.flow import relation, cond_edges_dominating, is_reachable
from tsg.typestate import must_pass_before
from tsg.build import AnalysisBroken

TSG = "TasGrid::TasmanianSparseGrid"
FILES = ["SparseGrids/TasmanianSparseGrid.cpp", "SparseGrids/TasmanianSparseGrid.hpp"]
FAMILIES = {"Global": "isGlobal", "Sequence": "isSequence", "Fourier": "isFourier", "LocalPolynomial": "isLocalPolynomial", "Wavelet": "isWavelet"}


def _throws_under(f, pred_name, negated=True):
    """a throw in f on the edge where pred_name() is false (negated) / true"""
    for th in [n for n in f.walk(into_lambda=False) if n.get("k") == "CXXThrowExpr" and is_reachable(f, n)]:
        for cnd, truth in cond_edges_dominating(f, th):
            s = strip(cnd)
            t = txt(s).replace("this->", "").replace(" ", "")
            if t == "%s()" % pred_name and truth == (not negated):
                return True
            if t in ("!%s()" % pred_name, "not%s()" % pred_name) and truth == negated:
                return True
    return False


def family_rule(chk, db, rule_id, formula):
    chk.rule(rule_id, "a public method that is named and documented for one grid family (update<Family>Grid) throws when the grid belongs to another family, in the method itself or in the "
                      "same-name overload it forwards to, before it delegates to the family-generic update")
    n = 0
    fns = [f for f in db.all_functions(FILES) if f.cls == TSG and not f.d.get("islambda")]
    byname = {}
    for f in fns:
        byname.setdefault(short(f.name), []).append(f)
    for f in fns:
        last = short(f.name)
        fam = next((k for k in FAMILIES if last == "update%sGrid" % k), None)
        if fam is None:
            continue
        n += 1
        chk.saw(f)
        ok = _throws_under(f, FAMILIES[fam])
        if not ok:
            # forwards to the sibling overload that tests
            for c in f.calls(into_lambda=False):
                if short(callee(c) or "") == last:
                    t = db.resolve(c)
                    if t is not None and (t.key, t.sig) != (f.key, f.sig) and _throws_under(t, FAMILIES[fam]):
                        ok = True
        chk.ob(rule_id, f.key + f.sig, "%s rejects grids that are not %s" % (last, fam), ok, f.where,
               "" if ok else "no throw on the edge where %s() is false: the call silently updates a grid of another family although the documentation announces std::runtime_error" % FAMILIES[fam])
    return n


def output_rule(chk, db, rule_id, formula):
    chk.rule(rule_id, "the Global grid uses the output index as a subscript (GridGlobal::computeSurpluses reads values[i][output] with no test for -1); wherever the API hands its `output` "
                      "parameter to a GridGlobal routine, the dominating conditions and guard clauses make output == -1 impossible (propositional check): -1 means 'all outputs' only for the "
                      "families that implement it")
    # premise: a GridGlobal routine subscripts with its output parameter and never tests it
    gg = [f for f in db.all_functions(["SparseGrids/tsgGridGlobal.cpp"]) if f.cls == "TasGrid::GridGlobal"]
    unsafe = set()
    for g in gg:
        for p_ in g.params():
            if p_.get("name") != "output":
                continue
            subs = [q for q in g.walk() if q.get("k") == "ArraySubscriptExpr" and (strip(q["c"][1]) or {}).get("did") == p_["did"]]
            tests = [q for q in g.walk() if q.get("k") == "BinaryOperator" and q.get("op") in ("==", "!=", "<", ">=") and any((strip(x) or {}).get("did") == p_["did"] for x in q["c"])]
            if subs and not tests:
                unsafe.add((g.key, g.sig))
    # routines that pass their output on to an unsafe one
    changed = True
    while changed:
        changed = False
        for g in gg:
            if (g.key, g.sig) in unsafe:
                continue
            for p_ in g.params():
                if p_.get("name") != "output":
                    continue
                for c in g.calls():
                    t = db.resolve(c)
                    if t is not None and (t.key, t.sig) in unsafe and any((strip(a) or {}).get("did") == p_["did"] for a in call_args(c)):
                        if not [q for q in g.walk() if q.get("k") == "BinaryOperator" and q.get("op") in ("==", "!=", "<", ">=") and any((strip(x) or {}).get("did") == p_["did"] for x in q["c"])]:
                            unsafe.add((g.key, g.sig))
                            changed = True
    if not unsafe:
        chk.note(rule_id, "SparseGrids/tsgGridGlobal.cpp", "no GridGlobal routine subscripts with an untested output parameter: nothing to require from the API")
        return 0
    n = 0
    for f in db.all_functions(FILES):
        if f.cls != TSG or f.d.get("islambda"):
            continue
        op = next((p_ for p_ in f.params() if p_.get("name") == "output"), None)
        if op is None:
            continue
        for c in f.calls(into_lambda=False):
            t = db.resolve(c)
            if t is None or (t.key, t.sig) not in unsafe or not is_reachable(f, c):
                continue
            if not any((strip(a) or {}).get("did") == op["did"] for a in call_args(c)):
                continue
            n += 1
            chk.saw(f)
            atoms = {}
            parts = []
            for cnd, truth in cond_edges_dominating(f, c):
                fm = formula(cnd, atoms)
                parts.append(fm if truth else sympy.Not(fm))
            assume = []
            for key, sym in atoms.items():
                k2 = key.replace(" ", "")
                if k2 in ("output==-1", "-1==output", "output<0"):
                    assume.append(sym)
                elif k2 in ("output!=-1", "output>=0", "output>-1"):
                    assume.append(sympy.Not(sym))
                elif k2 == "output<-1":
                    assume.append(sympy.Not(sym))
            possible = bool(satisfiable(sympy.And(*(parts + assume)))) if (parts or assume) else True
            if not any(k.replace(" ", "") in ("output==-1", "-1==output", "output<0", "output!=-1", "output>=0", "output>-1") for k in atoms):
                possible = True      # never tested
            chk.ob(rule_id, f.key + f.sig, "%s is not reached with output == -1" % short(t.name), not possible, f.loc(c),
                   "" if not possible else "output == -1 passes the range test (output < -1 is rejected, -1 is not) and reaches a routine that reads values[i][-1]")
    return n


def rawlen_rule(chk, db, rule_id):
    chk.rule(rule_id, "a raw-pointer make overload copies its arrays with a length computed from `dimensions` (Utils::copyArray); a throw guarded by a test of `dimensions` against 1 "
                      "dominates the copy, so that a negative dimension is reported as std::invalid_argument and not as std::length_error from the vector constructor")
    n = 0
    for f in db.all_functions(FILES):
        if f.cls != TSG or f.d.get("islambda") or not short(f.name).startswith("make"):
            continue
        dp = next((p_ for p_ in f.params() if p_.get("name") == "dimensions"), None)
        if dp is None:
            continue
        copies = [c for c in f.calls(into_lambda=False) if short(callee(c) or "").startswith("copyArray") and is_reachable(f, c) and
                  any(q.get("k") == "DeclRefExpr" and q.get("did") == dp["did"] for a in call_args(c)[1:] for q in [a] + list(walk(a)))]
        for c in copies:
            n += 1
            chk.saw(f)
            ok = False
            for cnd, truth in cond_edges_dominating(f, c):
                r = relation(cnd)
                # on the edge taken the parameter is known not to be below the bound: false edge of `dimensions < 1`, true edge of `dimensions >= 1`
                if r is not None and (strip(r[0]) or {}).get("did") == dp["did"] and ((r[1] in ("<", "<=") and not truth) or (r[1] in (">", ">=") and truth)):
                    ok = True
            chk.ob(rule_id, f.key + f.sig, "copyArray(..., %s) after `dimensions` was validated" % txt(strip(call_args(c)[1]))[:40], ok, f.loc(c),
                   "" if ok else "the array is copied before `dimensions < 1` is rejected: a negative value becomes a huge size_t")
    return n


def nopoints_rule(chk, db, rule_id):
    chk.rule(rule_id, "loadNeededValues(std::vector) forwards vals.data() only after the number of points it expects values for was tested against zero (throwing): an empty vector passes "
                      "the size test 0 == 0 for a grid whose needed points were cleared before anything was loaded, and the grid class would copy from a null pointer")
    n = 0
    for f in db.all_functions(FILES):
        if f.cls != TSG or short(f.name) != "loadNeededValues" or "std::vector" not in f.sig:
            continue
        for c in f.calls(into_lambda=False):
            if short(callee(c) or "") != "loadNeededValues" or not is_reachable(f, c):
                continue
            n += 1
            chk.saw(f)
            ok = False
            for cnd, truth in cond_edges_dominating(f, c):
                r = relation(cnd)
                if r is not None and const_val(strip(r[2])) == 0 and ((r[1] == "==" and not truth) or (r[1] in ("!=", ">") and truth)) and \
                        any(q.get("k") == "DeclRefExpr" for q in [r[0]] + list(walk(r[0]))):
                    # the tested variable counts points (initialised from getNumNeeded / getNumPoints)
                    d = strip(r[0])
                    loc = {v.get("did"): v for v in f.locals().values()}
                    ini = txt(loc.get(d.get("did"), {})) if d is not None else ""
                    if "getNumNeeded" in ini or "getNumPoints" in ini or "getNumLoaded" in ini:
                        ok = True
            chk.ob(rule_id, f.key + f.sig, "values forwarded only for a grid that has points", ok, f.loc(c),
                   "" if ok else "no throwing test of the point count against zero dominates the forwarding call")
    return n


def modes_rule(chk, db, rule_id):
    chk.rule(rule_id, "batch refinement and dynamic construction exclude each other: every API method that hands a batch refinement to the grid class (updateGrid, set*Refinement of the "
                      "grid classes) throws while using_dynamic_construction is set, in the method or in the same-name overload it is reached from; the refinement routines replace the "
                      "needed points and tensors that the construction data refer to")
    fns = [f for f in db.all_functions(FILES) if f.cls == TSG and not f.d.get("islambda")]
    n = 0
    for f in fns:
        if f.d.get("const"):
            continue
        for c in f.calls(into_lambda=False):
            cal = callee(c) or ""
            last = short(cal)
            if not cal.startswith("TasGrid::Grid") or not (last == "updateGrid" or (last.startswith("set") and last.endswith("Refinement"))) or not is_reachable(f, c):
                continue
            n += 1
            chk.saw(f)
            ok = False
            for th in [x for x in f.walk(into_lambda=False) if x.get("k") == "CXXThrowExpr"]:
                for cnd, truth in cond_edges_dominating(f, th):
                    if truth and txt(strip(cnd)).replace("this->", "") == "using_dynamic_construction":
                        ok = True
            chk.ob(rule_id, f.key + f.sig, "%s is not reached during dynamic construction" % cal.replace("TasGrid::", ""), ok, f.loc(c),
                   "" if ok else "no throw under `using_dynamic_construction` in this method: a batch refinement can be installed in the middle of a construction")
    return n
