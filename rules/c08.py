"""C08  Level limits bound every point a grid ever contains or proposes.

D1 threading of the persistent limits member to every selection primitive (inter-procedural
   parameter flow over resolved call sites), D2 '-1 means unrestricted' guard on every element
   read, D3 lock-step iterators, D5 saturation exit of grow-until-min_growth loops."""
from tsg.facts import DB, strip, txt, callee, call_args, call_object, walk, const_val, callee_node
from tsg.flow import emptiness, var_of, base_var, cond_edges_dominating, is_reachable, element_writes
from tsg.taint import ParamFlow, carrier
from tsg.build import AnalysisBroken

TSG = "TasGrid::TasmanianSparseGrid"
# generic containers / utilities: a limits vector handed to them is plain data, their parameters are
# not "limits parameters" (frozen list, confirmed by reading)
GENERIC = ("TasGrid::IO::", "TasGrid::Utils::", "TasGrid::MultiIndexSet::", "TasGrid::Data2D", "TasGrid::StorageSet::", "std::")
LLIMITS = TSG + "::llimits"


def sentinel_polarity(cond, truth):
    """if cond (evaluated to `truth`) is a test of an expression E against the -1 sentinel,
    return (txt(E), True if it establishes E != -1 / E >= 0, False if it establishes E == -1)"""
    n = strip(cond, casts=False)
    if n is None or n.get("k") != "BinaryOperator":
        return None
    op = n.get("op")
    a, b = n["c"]
    ca, cb = const_val(a), const_val(b)
    if cb is None and ca is not None:
        flip = {"<": ">", "<=": ">=", ">": "<", ">=": "<=", "==": "==", "!=": "!="}
        a, b, ca, cb, op = b, a, cb, ca, flip.get(op)
    if cb is None or op is None:
        return None
    e = txt(strip(a))
    res = None
    if (op, cb) in (("==", -1), ("<", 0), ("<=", -1)):
        res = False          # true means E is the sentinel
    elif (op, cb) in (("!=", -1), (">", -1), (">=", 0)):
        res = True           # true means E is a real limit
    if res is None:
        return None
    return e, (res if truth else not res)


def is_sentinel_operand(fn, node):
    p = fn.parent.get(node["id"])
    while p is not None and p.get("k") in ("ImplicitCastExpr", "ParenExpr"):
        p = fn.parent.get(p["id"])
    if p is None or p.get("k") != "BinaryOperator":
        return False
    return sentinel_polarity(p, True) is not None and sentinel_polarity(p, True)[0] == txt(strip(node))


def child_rule(chk, db, rule_id):
    """the level that is compared with the limit is the level of the child that is appended"""
    from tsg.flow import relation
    from tsg.typestate import must_pass_before
    chk.rule(rule_id, "in the routines that append the children of a refined point under level limits (addChildLimited of the Local Polynomial and Wavelet grids), every appended child index "
                      "is guarded, on the path of that append, by a comparison of the level of that same index with the limit of the direction (or the limit being the -1 sentinel): "
                      "a test of a sibling's level, or a test hoisted out of the path, does not bound the child that is stored")
    n = 0
    for cls in ("TasGrid::GridLocalPolynomial", "TasGrid::GridWavelet"):
        for f in db.fns(cls + "::addChildLimited"):
            if not f.body:
                continue
            for c in f.calls():
                if not (callee(c) or "").endswith("::appendStrip") or not is_reachable(f, c):
                    continue
                kid = strip(call_args(c)[-1])
                if kid is None or kid.get("k") != "DeclRefExpr":
                    continue
                # the last value stored into kid[direction] before this append
                stores = [q for q in f.walk() if q.get("k") == "BinaryOperator" and q.get("op") == "=" and strip(q["c"][0]) is not None and strip(q["c"][0]).get("k") in ("ArraySubscriptExpr", "CXXOperatorCallExpr")
                          and any(z.get("k") == "DeclRefExpr" and z.get("did") == kid.get("did") for z in walk(q["c"][0])) and q.get("l", 0) <= c.get("l", 0)]
                if not stores:
                    continue
                st = max(stores, key=lambda q: (q.get("l", 0), q.get("id", 0)))
                val = strip(st["c"][1])
                lhs_txt = txt(strip(st["c"][0]))
                n += 1
                chk.saw(f)
                ok = False
                vparams = {p_["did"] for p_ in f.params() if "std::vector<int>" in p_["t"]}

                def is_limit_entry(e, vparams=vparams):
                    # an element of the vector<int> parameter of the routine (the limits), whatever it is called
                    return any(z.get("k") == "DeclRefExpr" and z.get("did") in vparams for z in [strip(e)] + list(walk(e)))
                for cnd, truth in cond_edges_dominating(f, c):
                    if not truth:
                        continue
                    parts = [strip(cnd)]
                    if parts[0] is not None and parts[0].get("k") == "BinaryOperator" and parts[0].get("op") == "||":
                        parts = [strip(parts[0]["c"][0]), strip(parts[0]["c"][1])]
                    for pt in parts:
                        r = relation(pt) if pt is not None else None
                        if r is None or r[1] not in ("<=", "<"):
                            continue
                        lv = strip(r[0])
                        if lv is None or lv.get("k") not in ("CallExpr", "CXXMemberCallExpr") or (callee(lv) or "").rsplit("::", 1)[-1] != "getLevel" or not is_limit_entry(r[2]):
                            continue
                        arg = strip(call_args(lv)[0])
                        same = arg is not None and (txt(arg) == lhs_txt or (val is not None and val.get("k") == "DeclRefExpr" and arg.get("k") == "DeclRefExpr" and arg.get("did") == val.get("did")))
                        if same:
                            ok = True
                chk.ob(rule_id, f.key + f.sig, "child `%s` appended @%d" % (txt(val)[:30] if val is not None else "?", c.get("l", 0)), ok, f.loc(c),
                       "" if ok else "no comparison of the level of this index with the limit lies on the path of the append", "getLevel(child) <= limit of the direction, or limit == -1")
    return n


def run(chk):
    db = DB("serial")
    db.load_all()
    chk.rule("C08-D1.store", "every public TasmanianSparseGrid method with a level-limits parameter stores it into the member llimits: unconditionally in make*, "
                             "only when non-empty elsewhere (limits persist across calls that pass none)")
    chk.rule("C08-D1.forward", "every call from TasmanianSparseGrid into a grid class passes the *member* llimits at each limits position (positions inferred by "
                               "inter-procedural flow from llimits), after it was updated; a method that stores its limits argument unconditionally may pass that argument itself")
    chk.rule("C08-D1.thread", "inside the grid classes a limits parameter is never replaced by something else when calling on to a function that takes limits, and is never unused")
    chk.rule("C08-D1.variant", "a <true>/<false> (limited / unlimited) template variant is chosen exactly on the false / true edge of limits.empty()")
    chk.rule("C08-D2.sentinel", "every read of a limits element (v[j], *it) other than the -1 test itself is control-dependent on a test establishing element != -1 on the same element")
    chk.rule("C08-D3.lockstep", "an iterator walking the limits in step with a dimension loop is advanced exactly once on every path through the loop body")
    chk.rule("C08-D5.saturation", "a loop that grows the grid until getNumNeeded() reaches min_growth has an exit that does not depend on the needed count growing "
                                  "(limits that leave no admissible point would otherwise never terminate)")

    # ------------------------------------------------------------------ limits parameter positions
    tsg_fns = [f for f in db.all_functions(["SparseGrids/TasmanianSparseGrid.cpp", "SparseGrids/TasmanianSparseGrid.hpp"]) if f.cls == TSG]
    sources = {}    # (key,sig) -> param index : TSG parameters that are stored into llimits
    for fn in tsg_fns:
        for n in fn.walk():
            if n.get("k") == "CXXOperatorCallExpr" and n.get("op") == "=":
                lhs = strip(n["c"][1])
                if lhs.get("k") == "MemberExpr" and lhs.get("field") == LLIMITS:
                    c = carrier(n["c"][2])
                    if c and c[0] == "var":
                        for i, p in enumerate(fn.params()):
                            if p["did"] == c[1]:
                                sources[(fn.key, fn.sig)] = (i, n)
    # positions are inferred from the member llimits *and* from the user-supplied limits arguments, so
    # that a call site that passes the argument instead of the member is still recognised as a limits position
    pf = ParamFlow(db, seed_fields=[LLIMITS], seed_params=[(k[0], k[1], v[0]) for k, v in sources.items()])
    sink_positions = {k: v for k, v in pf.params.items()}
    nsink = sum(len(v) for v in sink_positions.values())
    chk.floor("C08-D1.forward", nsink, 50, "limits parameter positions reached from llimits")

    # ------------------------------------------------------------------ D1 store / forward
    store_sites = 0
    chk.floor("C08-D1.store", len(sources), 13, "public methods storing a limits argument")
    # raw-pointer overloads and thin wrappers: parameters that flow into a source parameter
    wrappers = {}
    changed = True
    while changed:
        changed = False
        for fn in tsg_fns:
            k = (fn.key, fn.sig)
            if k in sources or k in wrappers:
                continue
            for call in fn.calls():
                t = db.resolve(call)
                if t is None:
                    continue
                tk = (t.key, t.sig)
                idx = sources.get(tk, (None,))[0] if tk in sources else wrappers.get(tk, (None,))[0] if tk in wrappers else None
                if idx is None:
                    continue
                args = call_args(call)
                if idx < len(args):
                    c = carrier(args[idx])
                    if c and c[0] == "var":
                        for i, p in enumerate(fn.params()):
                            if p["did"] == c[1]:
                                wrappers[k] = (i, call)
                                changed = True
    for fn in tsg_fns:
        k = (fn.key, fn.sig)
        chk.saw(fn)
        if k in sources:
            store_sites += 1
            idx, asg = sources[k]
            pname = fn.params()[idx]["name"]
            raw_edges = list(cond_edges_dominating(fn, asg, skip_bailouts=True))
            edges = [(txt(strip(c)), t) for c, t in raw_edges]
            is_make = fn.name.rsplit("::", 1)[-1].startswith("make")
            nonempty, other = [], []
            for (c, t), e in zip(raw_edges, edges):
                em = emptiness(c)
                # the edge taken says 'the limits parameter is not empty / not null'
                if em is not None and em[0] == pname and em[1] == (not t):
                    nonempty.append(e)
                else:
                    other.append(e)
            if is_make:
                ok = not edges
                want = "unconditional store (make replaces the limits)"
            else:
                ok = len(nonempty) >= 1 and not other
                want = "store guarded only by !%s.empty()" % pname
            chk.ob("C08-D1.store", fn.key + fn.sig, "llimits = %s" % pname, ok, fn.loc(asg), "guards: %s" % edges, want)
        # forwarding
        for call in fn.calls():
            t = db.resolve(call)
            if t is None or t.cls == TSG:
                continue
            pos = sink_positions.get((t.key, t.sig), set())
            if not pos or (t.name.startswith(GENERIC) and not t.name.startswith("TasGrid::Utils::make_unique")):
                continue
            args = call_args(call)
            for pi in sorted(pos):
                if pi >= len(args):
                    continue
                c = carrier(args[pi])
                ok = c == ("field", LLIMITS)
                detail = "passes %s" % txt(args[pi])
                if not ok and k in sources and c == ("var", fn.params()[sources[k][0]]["did"]) and not list(cond_edges_dominating(fn, sources[k][1], skip_bailouts=True)):
                    # the argument that this very method stores unconditionally as the new limits *is* the effective limits
                    # (a factory may store it only after the grid was built, so that a failed make keeps no limits)
                    ok = True
                    detail += " (stored unconditionally into llimits by this method)"
                if ok and k in sources:
                    # the store must dominate the forwarding call or be on a branch that rejoins before it
                    ab = fn.cfg.block_of(sources[k][1])
                    cb = fn.cfg.block_of(call)
                    if ab and cb and not (fn.cfg.dominates(ab[0], cb[0]) or any(fn.cfg.dominates(p, cb[0]) for p in [ab[0]])):
                        # conditional store: its join point must dominate the call, i.e. no path reaches the call that bypasses the *test*
                        tests = [c2 for c2, _ in cond_edges_dominating(fn, sources[k][1])]
                        tb = [fn.cfg.block_of(x) for x in tests]
                        ok = all(b and fn.cfg.dominates(b[0], cb[0]) for b in tb) and bool(tb)
                        detail += "; store is conditional, its test %s the call" % ("dominates" if ok else "does not dominate")
                chk.ob("C08-D1.forward", fn.key + fn.sig, "%s arg%d" % (t.key, pi), ok, fn.loc(call), detail, "the member llimits")
    # wrappers must pass their parameter on (not drop it)
    for k, (i, call) in wrappers.items():
        chk.ob("C08-D1.store", k[0] + k[1], "raw/wrapper overload forwards its limits argument", True, "", txt(call)[:120])
    # every TSG method with a parameter typed/named as limits that is *neither* source nor wrapper is dropping it
    for fn in tsg_fns:
        k = (fn.key, fn.sig)
        for i, p in enumerate(fn.params()):
            if p["name"] in ("level_limits", "limit_levels") and k not in sources and k not in wrappers:
                chk.ob("C08-D1.store", fn.key + fn.sig, "limits parameter %s reaches llimits" % p["name"], False, fn.where,
                       "parameter is neither stored into llimits nor passed to an overload that stores it")

    # ------------------------------------------------------------------ D1 thread / variant
    nthread = 0
    allfns = [f for lst in db.load_all().values() for f in lst]
    lambdas_of = {}
    for f in allfns:
        if f.d.get("islambda"):
            lambdas_of.setdefault(f.key.rsplit("::lambda@", 1)[0], []).append(f)
    for fn in allfns:
        k = (fn.key, fn.sig)
        if fn.cls == TSG or fn.name.startswith(GENERIC) or fn.d.get("islambda"):
            continue
        mine = sink_positions.get(k)
        if not mine:
            continue
        chk.saw(fn)
        tv = pf.tainted_vars(fn)
        for pi in sorted(mine):
            p = fn.params()[pi]
            used = any(x.get("k") == "DeclRefExpr" and x.get("did") == p["did"] for x in fn.walk())
            chk.ob("C08-D1.thread", fn.key + fn.sig, "limits parameter %s is used" % p["name"], used, fn.where, "" if used else "parameter never referenced: limits silently ignored")
        for call in fn.calls():
            t = db.resolve(call)
            if t is None:
                continue
            pos = sink_positions.get((t.key, t.sig), set())
            if not pos or (t.name.startswith(GENERIC) and not t.name.startswith("TasGrid::Utils::make_unique")):
                continue
            args = call_args(call)
            shift = 0
            for pi in sorted(pos):
                if pi + shift >= len(args):
                    continue
                a = args[pi + shift]
                ok = pf.is_carrier(fn, a, tv)
                nthread += 1
                chk.ob("C08-D1.thread", fn.key + fn.sig, "%s arg%d" % (t.key, pi), ok, fn.loc(call), "passes %s" % txt(a)[:80], "its own limits parameter")
            # variant selection
            targs = (callee_node(call) or {}).get("targs")
            if targs in ("true", "false") and is_reachable(fn, call):
                edges = cond_edges_dominating(fn, call)
                sel = [(txt(strip(c)), tr) for c, tr in edges if emptiness(c) is not None]
                a = args[sorted(pos)[0]] if sorted(pos)[0] < len(args) else None
                an = txt(strip(a)) if a is not None else "?"
                want_empty = (targs == "false")
                ok = False
                for c, tr in edges:
                    em = emptiness(c)
                    # on the edge taken the limits are empty exactly when the <false> (unlimited) variant is selected
                    if em is not None and em[0] == an and (em[1] == tr) == want_empty:
                        ok = True
                chk.ob("C08-D1.variant", fn.key + fn.sig, "%s<%s>" % (t.name.rsplit("::", 1)[-1], targs), ok, fn.loc(call),
                       "selected under %s" % sel, "%s.empty() is %s" % (an, want_empty))
    chk.floor("C08-D1.thread", nthread, 25, "limits forwarding edges inside the grid classes")

    # ------------------------------------------------------------------ D2 sentinel guard, D3 lock-step
    chk.rule("C08-D6.unlimited", "where a function that applies the limits itself has two variants of the same loop, one that reads the limit of each direction and one that does not, the "
                                 "variant without tests is selected by `limits.empty()` and nothing weaker (a local flag counts as its initialiser)")
    _lbd = {}

    def fn_locals_by_did(f_):
        k_ = (f_.key, f_.sig)
        if k_ not in _lbd:
            _lbd[k_] = {v.get("did"): v for v in f_.locals().values() if v.get("k") == "VarDecl"}
        return _lbd[k_]
    ndual = 0
    nread = 0
    nlock = 0
    for fn in allfns:
        if fn.cls == TSG or fn.name.startswith(GENERIC):
            continue
        if fn.d.get("islambda"):
            pk = fn.key.rsplit("::lambda@", 1)[0]
            tv = set()
            for pfn in allfns:
                if pfn.key == pk:
                    tv |= pf.tainted_vars(pfn)
        else:
            tv = pf.tainted_vars(fn)
        if not tv:
            continue
        # iterators over a limits vector
        iters = {}
        for n in walk(fn.body, into_lambda=False):
            if n.get("k") == "VarDecl" and n.get("c"):
                i = strip(n["c"][0])
                if i.get("k") == "CXXMemberCallExpr" and (callee(i) or "").endswith(("::begin", "::cbegin")):
                    o = call_object(i)
                    if o is not None and var_of(o) in tv:
                        iters[n["did"]] = n
        reads = []
        for n in walk(fn.body, into_lambda=False):
            k = n.get("k")
            if k == "CXXOperatorCallExpr" and n.get("op") == "[]" and var_of(n["c"][1]) in tv:
                reads.append(n)
            elif k == "CXXOperatorCallExpr" and n.get("op") == "*" and len(n["c"]) == 2 and var_of(n["c"][1]) in iters:
                reads.append(n)
            elif k == "UnaryOperator" and n.get("op") == "*" and var_of(n["c"][0]) in iters:
                reads.append(n)
            elif k == "ArraySubscriptExpr" and var_of(n["c"][0]) in tv:
                reads.append(n)
        if not reads:
            continue
        chk.saw(fn)
        # D6: the branch that does the work without looking at the limits is taken for empty limits only
        for a in walk(fn.body, into_lambda=False):
            if a.get("k") != "IfStmt" or a.get("cond") is None or a.get("then") is None or a.get("else") is None or not is_reachable(fn, a["cond"]):
                continue
            rt = [r for r in reads if any(x is r for x in walk(a["then"]))]
            re_ = [r for r in reads if any(x is r for x in walk(a["else"]))]
            if bool(rt) == bool(re_):
                continue
            # loops on both sides: two variants of the same work
            def has_loop(b):
                return any(x.get("k") in ("ForStmt", "WhileStmt", "CXXForRangeStmt") for x in [b] + list(walk(b)))
            if not (has_loop(a["then"]) and has_loop(a["else"])):
                continue
            cnd = strip(a["cond"])
            # a local flag stands for its initialiser
            seen_d = set()
            while cnd is not None and cnd.get("k") == "DeclRefExpr" and cnd.get("did") in fn_locals_by_did(fn) and cnd["did"] not in seen_d:
                seen_d.add(cnd["did"])
                d_ = fn_locals_by_did(fn)[cnd["did"]]
                cnd = strip(d_["c"][0]) if d_.get("c") else None
            ct = txt(cnd).replace(" ", "") if cnd is not None else "?"
            em_ = emptiness(cnd) if cnd is not None else None
            if em_ is not None:
                ct = ("%s.empty()" if em_[1] else "!%s.empty()") % em_[0]       # canonical spelling of an emptiness test
            lim_names = {txt(strip(r["c"][1] if r.get("k") == "CXXOperatorCallExpr" and r.get("op") == "[]" else r["c"][0])) for r in reads if r.get("k") in ("CXXOperatorCallExpr", "ArraySubscriptExpr") and r.get("op", "[]") == "[]"}
            lim_names |= {txt(strip(call_object(strip(it["c"][0])))) for it in iters.values()}
            unlimited_then = not rt
            want = {("%s.empty()" % nm) if unlimited_then else ("!%s.empty()" % nm) for nm in lim_names}
            ndual += 1
            ok = ct in want
            chk.ob("C08-D6.unlimited", fn.key, "the variant without limit tests is selected by the emptiness of the limits", ok, fn.loc(a),
                   "" if ok else "the branch that never reads the limits runs when `%s`: limits that are not empty are ignored there" % ct[:90], " / ".join(sorted(want)))
        seen_txt = {}
        for r in reads:
            if not is_reachable(fn, r):
                continue
            if is_sentinel_operand(fn, r):
                continue
            nread += 1
            e = txt(r)
            ok = False
            for c, tr in cond_edges_dominating(fn, r):
                sp = sentinel_polarity(c, tr)
                if sp and sp[0] == e and sp[1] is True:
                    ok = True
            seen_txt[e] = seen_txt.get(e, 0) + 1
            par = fn.parent.get(r["id"])
            while par is not None and par.get("k") in ("ImplicitCastExpr", "ParenExpr"):
                par = fn.parent.get(par["id"])
            chk.ob("C08-D2.sentinel", fn.key, "%s in %s" % (e, txt(par)[:60]), ok, fn.loc(r),
                   "" if ok else "limit element used without a dominating '!= -1' test on %s" % e, "guarded by %s == -1 || … / %s > -1 && …" % (e, e))
        # D3
        for did, decl in iters.items():
            derefs = [r for r in reads if (var_of(r["c"][1]) if r.get("k") == "CXXOperatorCallExpr" else var_of(r["c"][0])) == did and is_reachable(fn, r)]
            if not derefs:
                continue
            incs = [n for n in walk(fn.body, into_lambda=False) if any(d == did and kd == "update" for d, kd, _ in element_writes(n))]
            # innermost loop containing a deref
            loop = None
            for a in fn.ancestors(derefs[0]):
                if a.get("k") in ("ForStmt", "CXXForRangeStmt", "WhileStmt", "DoStmt"):
                    loop = a
                    break
            if loop is None:
                continue
            nlock += 1
            body = loop.get("body")
            bb = fn.cfg.block_of(body) if body else None
            inside = [i for i in incs if any(a is loop for a in fn.ancestors(i))]
            ok = len(inside) == 1 and bb is not None
            detail = "%d increment(s) inside the loop" % len(inside)
            if ok:
                ib = fn.cfg.block_of(inside[0])
                ok = ib is not None and fn.cfg.postdominates(ib[0], bb[0])
                if not ok:
                    detail = "the increment at line %d is skipped on some path through the loop body" % inside[0].get("l", 0)
            chk.ob("C08-D3.lockstep", fn.key, "iterator %s over %s" % (decl["name"], txt(strip(decl["c"][0]))), ok, fn.loc(decl), detail,
                   "increment post-dominates the loop body entry")
    chk.floor("C08-D2.sentinel", nread, 12, "guarded limit-element reads")
    chk.floor("C08-D3.lockstep", nlock, 2, "lock-step limit iterators")
    chk.floor("C08-D6.unlimited", ndual, 1, "functions with a limited and an unlimited variant of the same loop")

    # ------------------------------------------------------------------ D5 saturation exits
    nloops = 0
    for fn in allfns:
        k = (fn.key, fn.sig)
        if not sink_positions.get(k) or fn.cls == TSG or fn.d.get("islambda"):
            continue
        tv = pf.tainted_vars(fn)
        for loop in walk(fn.body, into_lambda=False):
            if loop.get("k") not in ("DoStmt", "WhileStmt"):
                continue
            # does the body forward limits into a selection call?
            forwards = any(pf.is_carrier(fn, a, tv) for c in walk(loop.get("body")) if callee(c) for a in call_args(c))
            if not forwards:
                continue
            # a grow-until loop: its own condition compares the size of the proposed refinement with the requested growth
            ctext = txt(loop.get("cond") or {})
            if not any(w in ctext for w in ("getNumNeeded", "min_growth", "needed.getNumIndexes")):
                continue
            nloops += 1
            conds = [loop.get("cond")]
            for x in walk(loop.get("body")):
                if x.get("k") in ("BreakStmt", "ReturnStmt"):
                    for a in fn.ancestors(x):
                        if a is loop:
                            break
                        if a.get("k") == "IfStmt":
                            conds.append(a.get("cond"))
            def reads(c):
                out = set()
                for x in walk(c):
                    if callee(x):
                        out.add(callee(x).rsplit("::", 1)[-1])
                    elif x.get("k") == "DeclRefExpr" and "var" in x:
                        out.add(x["var"])
                    elif x.get("k") == "MemberExpr" and "field" in x:
                        out.add(x["field"].rsplit("::", 1)[-1])
                return out
            growth_only = {"getNumNeeded", "getNumIndexes", "needed", "min_growth"}
            def mentions_limits(c):
                return any(x.get("k") == "DeclRefExpr" and x.get("did") in tv for x in walk(c))
            indep = [txt(c) for c in conds if c is not None and not (reads(c) <= growth_only) and mentions_limits(c)]
            chk.ob("C08-D5.saturation", fn.key, "do/while(%s)" % txt(strip(loop.get("cond"))), bool(indep), fn.loc(loop),
                   "every exit condition reads only %s" % sorted(set().union(*[reads(c) for c in conds if c is not None])) if not indep else "exit that consults the limits: %s" % indep,
                   "an exit that triggers when the limits are saturated")
    chk.floor("C08-D5.saturation", nloops, 3, "grow-until-min_growth loops")
    # the saturation test looks at the sets that live in level space: the tensors where a class has them (point indexes of a Fourier / Global grid are not levels), the points of a Sequence grid
    nsat = 0
    for fn in allfns:
        if fn.d.get("islambda") or not (fn.cls or "").startswith("TasGrid::Grid"):
            continue
        for c in fn.calls():
            if not (callee(c) or "").endswith("::isLimitSaturated") or not is_reachable(fn, c):
                continue
            nsat += 1
            rec = db.record(fn.cls)
            has_tensors = any(fl["name"] == "tensors" for fl in rec["fields"])
            got = tuple((strip(a) or {}).get("field", "").rsplit("::", 1)[-1] for a in call_args(c)[:2])
            want = ("tensors", "updated_tensors") if has_tensors else ("points", "needed")
            chk.ob("C08-D5.saturation", fn.key, "isLimitSaturated(%s, %s, ...)" % got, got == want, fn.loc(c),
                   "" if got == want else "the limits bound levels; this class keeps its levels in %s / %s, the sets passed hold %s" % (want[0], want[1], "point indexes" if has_tensors else "something else"),
                   "isLimitSaturated(%s, %s, limits)" % want)
    chk.floor("C08-D5.saturation", nsat, 3, "saturation tests of the anisotropic refinement loops")

    nch = child_rule(chk, db, "C08-D7.child")
    chk.floor("C08-D7.child", nch, 7, "appends of a child index under level limits")
    return ("Static rule discharge. The positions of limits parameters are not listed by hand: they are inferred by inter-procedural flow of the member "
            "TasmanianSparseGrid::llimits over resolved call sites (through make_unique, constructors, virtual dispatch to the five grid classes, lambdas by capture). "
            "D1 checks storing/forwarding at the API layer and threading/variant selection below it; D2 checks the -1 sentinel guard by branch-edge dominance on the same "
            "element expression (template-constant branches pruned); D3 post-dominance of the iterator increment; D5 a termination lint for the min_growth loops. "
            "Safety clause is fully structural; termination in general is not decided, only the named saturation exit.")
