"""C16 (tasgrid == library): rules added after the third seeding round.

D10.init      every scalar data member of TasgridWrapper (and, as a cross-check with the same rule, of every library class with a
              user-provided constructor) is given a value by every constructor: initialiser list, default member initialiser,
              delegation, or an assignment in the constructor body / a method it calls on itself.
D11.readonly  the commands after which executeCommand() does not write the grid file back are exactly the commands whose case in the
              dispatch only calls const methods of the grid (directly or through const wrapper methods).
D12.coefflay  the file layout of Fourier coefficients is the same in both directions: the (file column, library offset) pairs of the
              copy loops in the routine that writes coefficients and in the routine that sets them are equal as polynomials.
"""
import sympy

from tsg.facts import strip, txt, walk, callee, call_args, call_object, short, const_val
from tsg.flow import is_reachable, cond_edges_dominating
from tsg.typestate import member_writes
from tsg.effects import Effects
from tsg.sym import to_sympy, NotClosedForm
from tsg.build import AnalysisBroken

WR = "TasgridWrapper"
SCAL = ("bool", "int", "double", "float", "size_t", "unsigned", "long", "char", "std::size_t", "unsigned int", "long long", "unsigned long")


def scalar_type(t):
    t = t.replace("const ", "").strip()
    return t in SCAL or t.endswith("*") or t.split("::")[-1].startswith("Type")


def init_rule(chk, db, rule_id):
    chk.rule(rule_id, "every scalar data member (arithmetic, enumeration, raw pointer) of TasgridWrapper and of every library class with a user-provided constructor receives a value in "
                      "every constructor: initialiser list, default member initialiser, delegation, or an assignment made by the constructor or a method it calls on the object; a member "
                      "that is read before any command sets it otherwise carries an indeterminate value into the library call")
    eff = Effects(db)
    n = 0
    nwr = 0
    for lst in db.load_all().values():
        for f in lst:
            if not f.d.get("isctor") or f.file.startswith("@verif") or "test" in f.file.lower() or "Tester" in f.file or not f.cls:
                continue
            rec = db.record(f.cls)
            if not rec:
                continue
            ins = f.d.get("inits", []) or []
            if any(i.get("delegating") for i in ins):
                continue
            if "GpuVector" in f.cls:
                continue        # device buffers: only constructed in GPU builds
            inits = {short(i.get("field", "")): i for i in ins if i.get("field")}
            cl = {short(x) for x in eff.closure(f)}
            bad = []
            for fld in rec["fields"]:
                if not scalar_type(fld["t"]):
                    continue
                n += 1
                if f.cls == WR:
                    nwr += 1
                i = inits.get(fld["name"])
                ok = (i is not None and (i.get("written") or i.get("init") is not None)) or fld["name"] in cl
                if not ok:
                    bad.append("%s (%s)" % (fld["name"], fld["t"]))
            if bad or f.cls == WR:
                chk.saw(f)
            chk.ob(rule_id, f.key + f.sig, "scalar members initialised", not bad, f.where, ("no value for: " + ", ".join(bad)) if bad else "")
    if nwr < 20:
        raise AnalysisBroken("%s: constructor of TasgridWrapper not found or has fewer than 20 scalar members (%d)" % (rule_id, nwr))
    return n


def readonly_rule(chk, db, rule_id):
    chk.rule(rule_id, "executeCommand() writes the grid file back unless the command is on its read-only list: a command is on that list exactly when its case in the dispatch changes nothing "
                      "of the grid (only const methods of the grid are called, directly or through wrapper methods). A mutating command on the list loses its effect; a const command off "
                      "the list rewrites the file (and changes its format when -ascii is not repeated)")
    ex = [f for f in db.all_functions(["Tasgrid/tasgridWrapper.cpp"]) if f.cls == WR and short(f.name) == "executeCommand"]
    if not ex:
        raise AnalysisBroken("executeCommand not found")
    f = ex[0]
    eff = Effects(db)
    # the read-only list: the initialiser of the local that guards writeGrid()
    wg = [c for c in f.calls(into_lambda=False) if short(callee(c) or "") == "writeGrid"]
    if not wg:
        raise AnalysisBroken("executeCommand: no writeGrid() call")
    guard_vars = set()
    for cnd, truth in cond_edges_dominating(f, wg[-1]):
        for q in [cnd] + list(walk(cnd)):
            if q.get("k") == "DeclRefExpr" and q.get("did") in {v.get("did") for v in f.locals().values()}:
                guard_vars.add(q["did"])
    ro = set()
    for v in f.locals().values():
        if v.get("did") in guard_vars and v.get("c"):
            for q in walk(v["c"][0]):
                if q.get("k") == "DeclRefExpr" and (q.get("enumc") or q.get("var") or "").startswith("command_"):
                    ro.add(q.get("enumc") or q.get("var"))
    if len(ro) < 10:
        raise AnalysisBroken("executeCommand: read-only list not recognised (%d commands)" % len(ro))

    def changes_grid(node):
        """does executing node change the member grid?"""
        for q in [node] + list(walk(node)):
            k = q.get("k")
            if k == "CXXMemberCallExpr":
                o = call_object(q)
                so = strip(o) if o is not None else None
                h = strip(q["c"][0], casts=False) or {}
                if so is not None and so.get("k") == "MemberExpr" and short(so.get("field") or "") == "grid" and not h.get("cm"):
                    return txt(q)[:50]
                if so is not None and so.get("k") == "CXXThisExpr" or (h.get("k") == "MemberExpr" and (h.get("fn") or "").startswith(WR + "::")):
                    t = db.resolve(q)
                    if t is not None and t.cls == WR and any(short(x) == "grid" for x in eff.closure(t)):
                        return "%s()" % short(t.name)
        return None
    sw = [a for a in f.walk(into_lambda=False) if a.get("k") == "SwitchStmt"]
    ncase = 0
    for s in sw:
        body = s.get("body", {}).get("c", []) if s.get("body") else []
        cur = []
        groups = []
        for st in body:
            x = st
            labels = []
            while x is not None and x.get("k") in ("CaseStmt", "DefaultStmt"):
                if x.get("k") == "CaseStmt":
                    labels.append(txt(strip(x.get("lhs"))))
                x = x.get("sub")
            if labels:
                if cur and cur[1] and cur[1][-1].get("k") == "BreakStmt":
                    groups.append(cur)
                    cur = [[], []]
                if not cur:
                    cur = [[], []]
                cur[0] += labels
            if cur:
                if x is not None:
                    cur[1].append(x)
                if x is not None and x.get("k") == "BreakStmt":
                    groups.append(cur)
                    cur = []
        if cur:
            groups.append(cur)
        for labels, stmts in groups:
            labels = [l for l in labels if l.startswith("command_")]
            if not labels:
                continue
            why = None
            for st in stmts:
                why = why or changes_grid(st)
            for lab in labels:
                ncase += 1
                listed = lab in ro
                ok = (listed and not why) or (not listed and bool(why))
                # commands that build a new grid or whose effect is the file itself are outside the dispatch (make*, handled before it)
                chk.ob(rule_id, f.key, "%s: %s" % (lab, "on the read-only list" if listed else "grid file written back"), ok, f.loc(stmts[0]) if stmts else f.where,
                       "" if ok else ("the case changes the grid (%s) but the file is not written back" % why if listed else
                                      "the case only reads the grid but the file is rewritten"), "read-only list == commands whose case changes nothing")
    return ncase


def _strip_offsets(fn):
    """pointer locals defined by X.getStrip(e): did -> (kind, base description, row expression node, stride node or None, base offset node or None)"""
    loc = {v["did"]: v for v in fn.locals().values() if "did" in v}
    return loc


def coeff_layout_rule(chk, db, rule_id):
    chk.rule(rule_id, "the matrix file of Fourier coefficients has one layout: for the routine that writes hierarchical coefficients and the routine that sets them, the copy statements of "
                      "the Fourier branch are resolved to (file column, offset in the library array) pairs - Wrapper2D / Data2D strips and locals substituted - and the two sets of pairs are "
                      "equal as polynomials in the point index, the output index, the number of points and the number of outputs")
    P, J, N, O = sympy.symbols("p j N O", integer=True, nonnegative=True)
    fns = {short(f.name): f for f in db.all_functions(["Tasgrid/tasgridWrapper.cpp"]) if f.cls == WR and short(f.name) in ("outputHierarchicalCoefficients", "setHierarchy")}
    if len(fns) != 2:
        raise AnalysisBroken("%s: outputHierarchicalCoefficients / setHierarchy not found" % rule_id)
    result = {}
    for name, f in fns.items():
        loc = {v["did"]: v for v in f.locals().values() if "did" in v}
        loops = [a for a in f.walk(into_lambda=False) if a.get("k") == "ForStmt"]
        # loop variables by nesting depth inside the Fourier branch
        lv = {}
        for a in loops:
            depth = sum(1 for x in f.ancestors(a) if x.get("k") == "ForStmt")
            for x in walk(a.get("init") or {}):
                if x.get("k") == "VarDecl":
                    lv[x["did"]] = P if depth == 0 else J

        def scalar(n):
            def r(x):
                if x.get("k") == "DeclRefExpr" and x.get("did") in lv:
                    return lv[x["did"]]
                t = txt(strip(x) or x).replace(" ", "")
                if x.get("k") in ("CXXMemberCallExpr", "MemberExpr", "DeclRefExpr", "CStyleCastExpr", "CXXFunctionalCastExpr", "CXXStaticCastExpr"):
                    if t.endswith("getNumPoints()") or t in ("num_points",):
                        d = loc.get(x.get("did")) if x.get("k") == "DeclRefExpr" else None
                        if d is None or "getNumPoints" in txt(d) or True:
                            return N
                    if t.endswith("getNumOutputs()") or t in ("num_outputs", "outs"):
                        return O
                if x.get("k") == "DeclRefExpr" and x.get("did") in loc and loc[x["did"]].get("c") and loc[x["did"]].get("t") in ("size_t", "int", "unsigned long"):
                    return to_sympy(loc[x["did"]]["c"][0], r)
                return None
            return sympy.expand(to_sympy(n, r))

        def resolve_ptr(n, depth=0):
            """('lib', offset) | ('file', row, col offset) for a pointer-valued expression"""
            n = strip(n)
            if n is None or depth > 6:
                return None
            if n.get("k") == "DeclRefExpr" and n.get("did") in loc:
                d = loc[n["did"]]
                t = d.get("t", "")
                if "Data2D" in t:
                    return ("file2d", None)
                if t.startswith("std::vector<double"):
                    return ("lib", sympy.Integer(0))
                if "Wrapper2D" in t:
                    ctor = next((x for x in walk(d["c"][0]) if x.get("k") in ("CXXConstructExpr", "CXXTemporaryObjectExpr")), None) if d.get("c") else None
                    args = [c for c in (ctor or {}).get("c", []) if isinstance(c, dict)]
                    if len(args) >= 2:
                        base = resolve_ptr(args[1], depth + 1)
                        if base and base[0] == "lib":
                            return ("wrap", scalar(args[0]), base[1])
                    return None
                if d.get("c"):
                    return resolve_ptr(d["c"][0], depth + 1)
                return None
            if n.get("k") == "BinaryOperator" and n.get("op") == "+":
                # pointer arithmetic: base + offset
                for a, b in ((n["c"][0], n["c"][1]), (n["c"][1], n["c"][0])):
                    try:
                        base = resolve_ptr(a, depth + 1)
                    except NotClosedForm:
                        base = None
                    if base and base[0] == "lib":
                        return ("lib", sympy.expand(base[1] + scalar(b)))
                return None
            if n.get("k") == "CXXMemberCallExpr":
                cal = short(callee(n) or "")
                if cal == "getHierarchicalCoefficients":
                    return ("lib", sympy.Integer(0))
                if cal == "getStrip":
                    o = resolve_ptr(call_object(n), depth + 1)
                    row = scalar(call_args(n)[0])
                    if o and o[0] == "wrap":
                        return ("lib", sympy.expand(o[2] + row * o[1]))
                    if o and o[0] == "file2d":
                        return ("file", row, sympy.Integer(0))
                if cal in ("data", "release"):
                    return resolve_ptr(call_object(n), depth + 1)
            return None

        def element(n):
            n = strip(n)
            if n is None:
                return None
            if n.get("k") == "ArraySubscriptExpr":
                b = resolve_ptr(n["c"][0])
                i = scalar(n["c"][1])
            elif n.get("k") == "CXXOperatorCallExpr" and n.get("op") == "[]":
                ch = [x for x in n.get("c", []) if isinstance(x, dict)]
                b = resolve_ptr(ch[-2])
                i = scalar(ch[-1])
            else:
                return None
            if b is None:
                return None
            if b[0] == "lib":
                return ("lib", sympy.expand(b[1] + i))
            if b[0] == "file":
                return ("file", b[1], sympy.expand(b[2] + i))
            return None
        pairs = set()
        direct = False
        for q in f.walk(into_lambda=False):
            if q.get("k") == "BinaryOperator" and q.get("op") == "=" and is_reachable(f, q):
                try:
                    l, r = element(q["c"][0]), element(q["c"][1])
                except NotClosedForm:
                    continue
                if l and r and {l[0], r[0]} == {"lib", "file"}:
                    fl, lb = (l, r) if l[0] == "file" else (r, l)
                    pairs.add((str(fl[1]), str(fl[2]), str(lb[1])))
        # the matrix of the file handed to the library unchanged on the Fourier branch?
        for c in f.calls(into_lambda=False):
            if short(callee(c) or "") == "setHierarchicalCoefficients" and is_reachable(f, c):
                a = call_args(c)[0] if call_args(c) else None
                rp = None
                try:
                    rp = resolve_ptr(a) if a is not None else None
                except NotClosedForm:
                    rp = None
                fourier = any(truth and "isFourier" in txt(cn) for cn, truth in cond_edges_dominating(f, c))
                if fourier and rp and rp[0] == "file2d":
                    direct = True
        result[name] = (pairs, direct, f)
    wp, _, wf = result["outputHierarchicalCoefficients"]
    sp, sdirect, sf = result["setHierarchy"]
    chk.saw(wf)
    chk.saw(sf)
    chk.ob(rule_id, wf.key, "writer: (file column, library offset) pairs of the Fourier branch", len(wp) == 2, wf.where, "pairs (row, column, offset): %s" % sorted(wp))
    chk.ob(rule_id, sf.key, "setter uses the layout of the writer", (not sdirect) and sp == wp and len(sp) == 2, sf.where,
           ("the matrix read from the file is handed to setHierarchicalCoefficients unchanged although the writer interleaves real and imaginary parts" if sdirect else
            "setter pairs %s, writer pairs %s" % (sorted(sp), sorted(wp))))
    return len(wp)


def xfile_rule(chk, db, rule_id):
    chk.rule(rule_id, "the commands whose case in the dispatch reads the points file (-xfile, through verifiedRead(xfilename, ...)) are the commands for which checkSane() rejects a missing "
                      "-xfile, and each of them is on the list that requires a means of output: a command that is dispatched with its siblings but missing from the lists exits 0 "
                      "and writes an empty matrix")
    fns = {short(f.name): f for f in db.all_functions(["Tasgrid/tasgridWrapper.cpp"]) if f.cls == WR and not f.d.get("islambda")}
    ex, cs = fns.get("executeCommand"), fns.get("checkSane")
    if ex is None or cs is None:
        raise AnalysisBroken("executeCommand / checkSane not found")
    # wrapper methods that read the points file
    readers = {}        # method -> None (every command that reaches it) | set of commands under which it reads the points file
    writers = set()     # methods that produce a matrix
    excluded = {}       # method -> commands under which the read is skipped
    for nm, f in fns.items():
        for c in f.calls():
            if short(callee(c) or "") == "verifiedRead" and call_args(c) and "xfilename" in txt(call_args(c)[0]):
                only = set()
                for cn, tr in cond_edges_dominating(f, c):
                    s_ = strip(cn)
                    if s_ is not None and s_.get("k") == "BinaryOperator" and s_.get("op") == "==":
                        cmds = {q.get("enumc") for q in walk(s_) if q.get("k") == "DeclRefExpr" and (q.get("enumc") or "").startswith("command_")}
                        if tr:
                            only |= cmds
                        else:
                            excluded[nm] = excluded.get(nm, set()) | cmds     # the else-branch of `command == X`: every command but X
                if only and readers.get(nm, set()) is not None:
                    readers[nm] = (readers.get(nm) or set()) | only
                else:
                    readers[nm] = None
            if short(callee(c) or "") in ("writeMatrix", "printMatrix"):
                writers.add(nm)
    # case groups of the dispatch that call such a method
    need = set()
    needout = set()
    for s in [a for a in ex.walk(into_lambda=False) if a.get("k") == "SwitchStmt"]:
        body = s.get("body", {}).get("c", []) if s.get("body") else []
        labels, called = [], set()
        for st in body:
            x = st
            while x is not None and x.get("k") in ("CaseStmt", "DefaultStmt"):
                if x.get("k") == "CaseStmt":
                    labels.append(txt(strip(x.get("lhs"))))
                x = x.get("sub")
            if x is not None:
                called |= {short(callee(q) or "") for q in [x] + list(walk(x)) if q.get("k") in ("CXXMemberCallExpr", "CallExpr")}
                if x.get("k") == "BreakStmt":
                    labs = {l for l in labels if l.startswith("command_")}
                    for m_ in called & set(readers):
                        sel = (labs if readers[m_] is None else (labs & readers[m_])) - excluded.get(m_, set())
                        need |= sel
                        if m_ in writers:
                            needout |= sel
                    labels, called = [], set()
    if len(need) < 4:
        raise AnalysisBroken("%s: fewer than 4 commands read the points file (%s)" % (rule_id, sorted(need)))

    def listed(pred):
        """commands named in the com.inside(...) lists of the fail_if statements whose condition satisfies pred"""
        out = set()
        for c in cs.calls():
            if short(callee(c) or "") != "fail_if" or not call_args(c):
                continue
            cond = call_args(c)[0]
            if pred(txt(cond)):
                out |= {q.get("enumc") for q in walk(cond) if q.get("k") == "DeclRefExpr" and (q.get("enumc") or "").startswith("command_")}
        return out
    xlist = listed(lambda t: "xfilename.empty()" in t)
    olist = listed(lambda t: "outfilename.empty()" in t and "printCout" in t and "gridfilename" not in t)
    n = 0
    for cmd in sorted(need):
        n += 1
        chk.ob(rule_id, ex.key, "%s: a missing -xfile is rejected" % cmd, cmd in xlist, cs.where, "" if cmd in xlist else "the command reads the points file but checkSane() lets it start without one")
        if cmd in needout:
            chk.ob(rule_id, ex.key, "%s: a means of output is required" % cmd, cmd in olist, cs.where, "" if cmd in olist else "the command produces a matrix but may run with neither -outfile nor -print")
    chk.saw(ex)
    chk.saw(cs)
    return n


def limits_rule(chk, db, rule_id):
    chk.rule(rule_id, "every library call made by the tool that has a level-limits parameter receives the limits of -levellimitsfile (readLimits() or a local initialised from it); "
                      "a call that relies on the default argument silently ignores the option the tool accepted")
    n = 0
    for f in db.all_functions(["Tasgrid/tasgridWrapper.cpp"]):
        if f.cls != WR or f.d.get("islambda"):
            continue
        loc = {v["did"]: v for v in f.locals().values() if "did" in v}
        for c in f.calls(into_lambda=False):
            t = db.resolve(c)
            if t is None or t.cls != "TasGrid::TasmanianSparseGrid" or not is_reachable(f, c):
                continue
            pos = [i for i, p_ in enumerate(t.params()) if p_.get("name") in ("level_limits", "limit_levels")]
            if not pos:
                continue
            args = call_args(c)
            n += 1
            chk.saw(f)
            a = args[pos[0]] if pos[0] < len(args) else None
            ok = False
            if a is not None and a.get("k") != "CXXDefaultArgExpr" and (strip(a) or {}).get("k") != "CXXDefaultArgExpr":
                src = [a] + list(walk(a))
                for q in list(src):
                    if q.get("k") == "DeclRefExpr" and q.get("did") in loc and loc[q["did"]].get("c"):
                        src += [loc[q["did"]]["c"][0]] + list(walk(loc[q["did"]]["c"][0]))
                ok = any(short(callee(q) or "") == "readLimits" for q in src if q.get("k") in ("CXXMemberCallExpr", "CallExpr"))
            chk.ob(rule_id, f.key, "%s receives the limits of -levellimitsfile" % short(t.name), ok, f.loc(c),
                   "" if ok else "the limits argument is %s" % ("left to its default (no limits)" if a is None or "DefaultArg" in str((a or {}).get("k")) + str((strip(a) or {}).get("k")) else "`%s`" % txt(a)[:40]))
    return n


def rejected_rule(chk, db, rule_id):
    chk.rule(rule_id, "after a helper of the tool has rejected an option file with iassert() (which only records the error), the data are not used: the copy that assumes the rejected size is "
                      "dominated by a test of pass_flag, and executeCommand() writes the grid file only on the pass_flag edge")
    n = 0
    fns = {short(f.name): f for f in db.all_functions(["Tasgrid/tasgridWrapper.cpp"]) if f.cls == WR and not f.d.get("islambda")}
    for nm in ("readLimits", "readAnisotropic"):
        f = fns.get(nm)
        if f is None:
            raise AnalysisBroken("%s not found" % nm)
        for c in f.calls():
            if (callee(c) or "") != "std::transform" or not is_reachable(f, c):
                continue
            n += 1
            chk.saw(f)
            ok = any("pass_flag" in txt(cn) for cn, tr in cond_edges_dominating(f, c))
            chk.ob(rule_id, f.key, "copy of the option matrix only after its size was accepted", ok, f.loc(c),
                   "" if ok else "the size test before this copy only records an error: a matrix with more entries than expected is copied past the end of the vector")
    # every strip of a matrix read from an option file that is addressed with an index bounded by something else than the matrix itself
    for f in fns.values():
        mats = {d_["did"] for d_ in f.locals().values() if d_.get("k") == "VarDecl" and d_.get("c") and any(short(callee(q) or "") == "readMatrix" for q in [d_["c"][0]] + list(walk(d_["c"][0])))}
        if not mats:
            continue
        for c in f.calls():
            if short(callee(c) or "") != "getStrip" or (strip(call_object(c)) or {}).get("did") not in mats or not is_reachable(f, c):
                continue
            idx = strip(call_args(c)[0])
            if idx is None or idx.get("k") == "IntegerLiteral":
                continue
            loops = [a for a in f.ancestors(c) if a.get("k") == "ForStmt" and a.get("cond") is not None and any(z.get("k") == "DeclRefExpr" and z.get("did") == idx.get("did") for z in walk(a["cond"]))]
            own = bool(loops) and any(z.get("k") == "DeclRefExpr" and z.get("did") in mats for z in walk(loops[0]["cond"]))
            if own:
                continue
            n += 1
            chk.saw(f)
            ok = any("pass_flag" in txt(cn) for cn, tr in cond_edges_dominating(f, c))
            chk.ob(rule_id, f.key, "row %s of the option matrix read only after its shape was accepted" % txt(idx)[:20], ok, f.loc(c),
                   "" if ok else "the shape test before this read only records an error: the loop runs over the expected number of rows, not over the rows the file has")
    ex = fns.get("executeCommand")
    for c in ex.calls(into_lambda=False):
        if short(callee(c) or "") == "writeGrid" and is_reachable(ex, c):
            n += 1
            ok = any("pass_flag" in txt(cn) and tr for cn, tr in cond_edges_dominating(ex, c)) or any("pass_flag" in txt(cn) for cn, tr in cond_edges_dominating(ex, c))
            chk.ob(rule_id, ex.key, "the grid file is written only when the command succeeded", ok, ex.loc(c), "" if ok else "writeGrid() runs although an error was recorded")
    return n


def contour_rule(chk, db, rule_id):
    """a depth type is 'curved' through its contour: type_curved, type_ipcurved and type_qpcurved all carry 2*dims anisotropic coefficients"""
    chk.rule(rule_id, "the tool and the library decide 'curved' (two coefficients per dimension) from the contour of the depth type: a comparison with the enumerator type_curved either has the "
                      "result of getControurType() on its other side (directly, through a local or through a member that every writer sets from it), or belongs to a chain of "
                      "comparisons of the same operand that names the whole family (type_ipcurved and type_qpcurved as well, or the three level-based types type_level / type_curved / "
                      "type_hyperbolic); a raw depth type compared with type_curved alone misses type_ipcurved and type_qpcurved and halves the length of the anisotropic coefficients")
    allf = [g for gs in db.load_all().values() for g in gs]
    contour_fields = {}

    def field_is_contour(fld):
        if fld not in contour_fields:
            srcs = [w["c"][1] for g in allf for w in g.walk() if w.get("k") == "BinaryOperator" and w.get("op") == "=" and (strip(w["c"][0]) or {}).get("field") == fld]
            srcs += [ini["init"] for g in allf if g.d.get("isctor") for ini in (g.d.get("inits") or []) if ini.get("field") == fld and ini.get("init") is not None and ini.get("written")]
            contour_fields[fld] = bool(srcs) and all(any(short(callee(z) or "") == "getControurType" for z in [e] + list(walk(e))) or
                                                      (strip(e) or {}).get("k") == "MemberExpr" and (strip(e) or {}).get("field") == fld for e in srcs)
        return contour_fields[fld]
    n = 0
    for f in allf:
        if f.file.startswith("@verif") or "/test" in f.file or f.file.startswith("Addons/test") or "Example" in f.file:
            continue
        for q in f.walk():
            if q.get("k") != "BinaryOperator" or q.get("op") not in ("==", "!="):
                continue
            a, b = strip(q["c"][0]), strip(q["c"][1])
            for x, y in ((a, b), (b, a)):
                if y is None or y.get("k") != "DeclRefExpr" or short(y.get("enumc") or "") != "type_curved" or x is None:
                    continue
                n += 1
                chk.saw(f)
                ok = x.get("k") in ("CallExpr", "CXXMemberCallExpr") and short(callee(x) or "") == "getControurType"
                if not ok and const_val(x) is not None:
                    ok = True       # a template argument: the instantiation was selected by a switch over the contour
                if not ok and x.get("k") == "DeclRefExpr":
                    d_ = f.locals().get(x.get("did"))
                    ok = d_ is not None and d_.get("c") and any(short(callee(z) or "") == "getControurType" for z in [d_["c"][0]] + list(walk(d_["c"][0])))
                if not ok and x.get("k") == "MemberExpr" and x.get("field"):
                    ok = field_is_contour(x["field"])
                if not ok:
                    # the whole family is named in the same chain of comparisons of the same operand
                    top = q
                    while True:
                        par = f.parent.get(top.get("id"))
                        if par is not None and par.get("k") in ("BinaryOperator", "ParenExpr", "ImplicitCastExpr") and (par.get("k") != "BinaryOperator" or par.get("op") in ("||", "&&")):
                            top = par
                        else:
                            break
                    names = set()
                    for z in [top] + list(walk(top)):
                        if z.get("k") == "BinaryOperator" and z.get("op") in ("==", "!="):
                            l_, r_ = strip(z["c"][0]), strip(z["c"][1])
                            for u, v in ((l_, r_), (r_, l_)):
                                if v is not None and v.get("k") == "DeclRefExpr" and v.get("enumc") and u is not None and txt(u) == txt(x):
                                    names.add(short(v["enumc"]))
                    ok = {"type_ipcurved", "type_qpcurved"} <= names or {"type_level", "type_hyperbolic"} <= names
                chk.ob(rule_id, f.key + f.sig, "`%s` @%d" % (txt(q)[:60], q.get("l", 0)), bool(ok), f.loc(q),
                       "" if ok else "`%s` is a depth type, not a contour: type_ipcurved and type_qpcurved compare unequal to type_curved" % txt(x)[:40], "getControurType(type) == type_curved")
    return n


def refine_dispatch_rule(chk, db, rule_id):
    """-refine picks the anisotropic variant for exactly the grid families whose API call accepts it"""
    chk.rule(rule_id, "the command -refine selects setAnisotropicRefinement() for exactly the grid families that the API method accepts (the families named in its family guard), and the "
                      "surplus variant for the others: a family that the API sends to the anisotropic routine but the tool sends to the surplus routine is rejected by the library "
                      "and the tool ends with an uncaught exception")
    FAMS = ("isGlobal", "isSequence", "isFourier", "isLocalPolynomial", "isWavelet")

    def fam_atoms(e):
        return {short(callee(q) or "") for q in [e] + list(walk(e)) if q.get("k") == "CXXMemberCallExpr" and short(callee(q) or "") in FAMS}
    api = [f for f in db.all_functions(["SparseGrids/TasmanianSparseGrid.cpp"]) if f.name.endswith("::setAnisotropicRefinement") and "std::vector<int>" in f.sig]
    if len(api) != 1:
        raise AnalysisBroken("setAnisotropicRefinement(vector) not found")
    accepted = None
    for iff in api[0].walk():
        if iff.get("k") == "IfStmt" and iff.get("then") is not None and any(x.get("k") == "CXXThrowExpr" for x in walk(iff["then"])):
            c = strip(iff["cond"])
            # `not (isA() or isB() or isC())` -> throw : the accepted families are the atoms under the negation
            if c is not None and c.get("k") == "UnaryOperator" and c.get("op") == "!" and len(fam_atoms(c)) >= 2:
                accepted = fam_atoms(c)
    if not accepted:
        raise AnalysisBroken("family guard of setAnisotropicRefinement not recognised")
    n = 0
    for f in db.all_functions(["Tasgrid/tasgridWrapper.cpp"]):
        if f.cls != WR or short(f.name) != "refineGrid":
            continue
        for iff in f.walk():
            if iff.get("k") != "IfStmt" or iff.get("then") is None or iff.get("else") is None:
                continue
            th = [txt(q) for q in walk(iff["then"]) if q.get("k") == "BinaryOperator" and q.get("op") == "="]
            el = [txt(q) for q in walk(iff["else"]) if q.get("k") == "BinaryOperator" and q.get("op") == "="]
            if not (any("command_refine_aniso" in t for t in th) and any("command_refine_surp" in t for t in el)):
                continue
            n += 1
            chk.saw(f)
            got = fam_atoms(iff["cond"])
            chk.ob(rule_id, f.key, "families sent to the anisotropic variant by -refine", got == accepted, f.loc(iff), "tool: %s ; API accepts: %s" % (sorted(got), sorted(accepted)), "the families of the API guard")
    return n
