"""Self-describing blocks: the counts in the header are the sizes of the vectors that follow (shared by C06 / C17).

A reader that sizes a local vector with a number it has just read from the stream (`n = readNumber(is); std::vector<T> v(n); readVector(is, v)`)
depends on the writer having stored exactly the length of the corresponding vector at that header position.  For every class with such a
reader the k-th value handed to writeNumbers() in the sibling writer must be `w.size()` of the vector w written at the position where
the reader reads v.  (Headers that hold logical dimensions from which the reader *computes* a length are covered by the token-sequence
rule C06-D1 and the shape rules; this rule covers the direct case.)
"""
from tsg.facts import strip, txt, walk, callee, call_args, short
from tsg.build import AnalysisBroken


def header_rule(chk, db, rule_id):
    chk.rule(rule_id, "where a reader sizes a vector with a header number read from the stream and then fills it with readVector, the sibling writer stores `size()` of the vector it writes "
                      "at that position in that header slot: a header that counts something else (samples instead of numbers) still parses and silently pairs the wrong data")
    n = 0
    for rd in [f for fs_ in db.load_all().values() for f in fs_ if short(f.name) == "read" and f.cls and not f.file.startswith("@verif")]:
        wr = [g for g in db.all_functions([rd.file]) if g.cls == rd.cls and short(g.name) == "write"]
        if not wr:
            continue
        loc = {v["did"]: v for v in rd.locals().values() if "did" in v}
        # header numbers in reading order
        hdr = []
        for v in sorted(loc.values(), key=lambda d: (d.get("l", 0), d.get("did", 0))):
            if v.get("c") and any(short(callee(q) or "").startswith("readNumber") for q in [v["c"][0]] + list(walk(v["c"][0])) if q.get("k") in ("CallExpr", "CXXMemberCallExpr")):
                hdr.append(v["did"])
        if not hdr:
            continue
        # vectors sized by exactly one header number
        sized = {}
        for v in loc.values():
            if v.get("t", "").startswith("std::vector<") and v.get("c"):
                ctor = next((q for q in [strip(v["c"][0])] + list(walk(v["c"][0])) if q is not None and q.get("k") in ("CXXConstructExpr", "CXXTemporaryObjectExpr")), None)
                args = [c for c in (ctor or {}).get("c", []) if isinstance(c, dict)]
                if len(args) >= 1:
                    a = strip(args[0])
                    if a is not None and a.get("k") == "DeclRefExpr" and a.get("did") in hdr:
                        sized[v["did"]] = hdr.index(a["did"])
        if not sized:
            continue
        # order in which the reader fills them
        rorder = []
        for c in sorted(rd.calls(), key=lambda q: (q.get("l", 0), q.get("id", 0))):
            if short(callee(c) or "").startswith("readVector"):
                for a in call_args(c):
                    s = strip(a)
                    if s is not None and s.get("k") == "DeclRefExpr" and s.get("did") in sized:
                        rorder.append(s["did"])
        for w in wr:
            wnums = []
            wvecs = []
            for c in sorted(w.calls(), key=lambda q: (q.get("l", 0), q.get("id", 0))):
                cal = short(callee(c) or "")
                if cal.startswith("writeNumbers"):
                    wnums += [a for a in call_args(c)[1:]]
                elif cal.startswith("writeVector"):
                    wvecs.append(call_args(c)[0])
            for pos, did in enumerate(rorder):
                k = sized[did]
                if k >= len(wnums) or pos >= len(wvecs):
                    chk.ob(rule_id, w.key, "header slot %d / vector %d present" % (k, pos), False, w.where, "the writer has %d header numbers and %d vectors" % (len(wnums), len(wvecs)))
                    continue
                n += 1
                chk.saw(w)
                chk.saw(rd)
                want = txt(strip(wvecs[pos])).replace(" ", "") + ".size()"
                got = txt(strip(wnums[k])).replace(" ", "")
                chk.ob(rule_id, w.key, "header number %d is the length of vector %d (`%s`)" % (k, pos, txt(strip(wvecs[pos]))[:30]), got == want, w.loc(wnums[k]),
                       "" if got == want else "the writer stores `%s`; the reader constructs `%s` with that many elements and reads them" % (got, loc[did].get("name")), want)
    return n
