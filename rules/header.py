"""Self-describing blocks: the counts in the header are the sizes of the vectors that follow (shared by C06 / C17).

A reader that sizes a local vector with a number it has just read from the stream (`n = readNumber(is); std::vector<T> v(n); readVector(is, v)`)
depends on the writer having stored exactly the length of the corresponding vector at that header position.  For every class with such a
reader the k-th value handed to writeNumbers() in the sibling writer must be `w.size()` of the vector w written at the position where
the reader reads v.  (Headers that hold logical dimensions from which the reader *computes* a length are covered by the token-sequence
rule C06-D1 and the shape rules; this rule covers the direct case.)
"""
from tsg.facts import strip, txt, walk, callee, call_args, short
from tsg.build import AnalysisBroken


def header_rule(chk, db, rule_id):
    chk.rule(rule_id, "where a reader sizes a vector with a header number read from the stream and then fills it with readVector, the sibling writer stores `size()` of the vector it writes "
                      "at that position in that header slot: a header that counts something else (samples instead of numbers) still parses and silently pairs the wrong data")
    n = 0
    for rd in [f for fs_ in db.load_all().values() for f in fs_ if short(f.name) == "read" and f.cls and not f.file.startswith("@verif")]:
        wr = [g for g in db.all_functions([rd.file]) if g.cls == rd.cls and short(g.name) == "write"]
        if not wr:
            continue
        loc = {v["did"]: v for v in rd.locals().values() if "did" in v}
        # header numbers in reading order
        hdr = []
        for v in sorted(loc.values(), key=lambda d: (d.get("l", 0), d.get("did", 0))):
            if v.get("c") and any(short(callee(q) or "").startswith("readNumber") for q in [v["c"][0]] + list(walk(v["c"][0])) if q.get("k") in ("CallExpr", "CXXMemberCallExpr")):
                hdr.append(v["did"])
        if not hdr:
            continue
        # vectors sized by exactly one header number
        sized = {}
        for v in loc.values():
            if v.get("t", "").startswith("std::vector<") and v.get("c"):
                ctor = next((q for q in [strip(v["c"][0])] + list(walk(v["c"][0])) if q is not None and q.get("k") in ("CXXConstructExpr", "CXXTemporaryObjectExpr")), None)
                args = [c for c in (ctor or {}).get("c", []) if isinstance(c, dict)]
                if len(args) >= 1:
                    a = strip(args[0])
                    if a is not None and a.get("k") == "DeclRefExpr" and a.get("did") in hdr:
                        sized[v["did"]] = hdr.index(a["did"])
        if not sized:
            continue
        # order in which the reader fills them
        rorder = []
        for c in sorted(rd.calls(), key=lambda q: (q.get("l", 0), q.get("id", 0))):
            if short(callee(c) or "").startswith("readVector"):
                for a in call_args(c):
                    s = strip(a)
                    if s is not None and s.get("k") == "DeclRefExpr" and s.get("did") in sized:
                        rorder.append(s["did"])
        for w in wr:
            wnums = []
            wvecs = []
            for c in sorted(w.calls(), key=lambda q: (q.get("l", 0), q.get("id", 0))):
                cal = short(callee(c) or "")
                if cal.startswith("writeNumbers"):
                    wnums += [a for a in call_args(c)[1:]]
                elif cal.startswith("writeVector"):
                    wvecs.append(call_args(c)[0])
            for pos, did in enumerate(rorder):
                k = sized[did]
                if k >= len(wnums) or pos >= len(wvecs):
                    chk.ob(rule_id, w.key, "header slot %d / vector %d present" % (k, pos), False, w.where, "the writer has %d header numbers and %d vectors" % (len(wnums), len(wvecs)))
                    continue
                n += 1
                chk.saw(w)
                chk.saw(rd)
                want = txt(strip(wvecs[pos])).replace(" ", "") + ".size()"
                got = txt(strip(wnums[k])).replace(" ", "")
                chk.ob(rule_id, w.key, "header number %d is the length of vector %d (`%s`)" % (k, pos, txt(strip(wvecs[pos]))[:30]), got == want, w.loc(wnums[k]),
                       "" if got == want else "the writer stores `%s`; the reader constructs `%s` with that many elements and reads them" % (got, loc[did].get("name")), want)
    return n


def sequenced_reads_rule(chk, db, rule_id, files):
    """two reads of one stream are never unsequenced: the arguments of a call are evaluated in an unspecified order"""
    from tsg.facts import strip, txt, callee, call_args, walk, short
    chk.rule(rule_id, "no call, member call or parenthesised constructor call has two arguments that each read from a stream (IO::read*, operator>>, a Reader constructor taking the stream): "
                      "the order in which function arguments are evaluated is unspecified (g++ goes right to left), so the fields would be taken from the file in the wrong order; "
                      "a braced initialiser list T{a, b} is evaluated left to right and is the accepted form")
    n = 0

    def reads_stream(e):
        for q in [e] + list(walk(e)):
            k = q.get("k")
            if k in ("CallExpr", "CXXMemberCallExpr") and (callee(q) or "").startswith("TasGrid::IO::read"):
                return True
            if k == "CXXOperatorCallExpr" and q.get("op") == ">>":
                return True
            if k in ("CXXConstructExpr", "CXXTemporaryObjectExpr") and any("istream" in ((strip(a) or {}).get("t") or "") for a in [c for c in q.get("c", []) if isinstance(c, dict)]):
                return True
        return False
    for f in db.all_functions(files):
        for q in f.walk():
            k = q.get("k")
            if k in ("CallExpr", "CXXMemberCallExpr"):
                args = call_args(q)
            elif k in ("CXXConstructExpr", "CXXTemporaryObjectExpr") and not q.get("listinit"):
                args = [c for c in q.get("c", []) if isinstance(c, dict)]
            else:
                continue
            if len(args) < 2:
                continue
            readers = [a for a in args if reads_stream(a)]
            if not readers:
                continue
            n += 1
            chk.saw(f)
            chk.ob(rule_id, f.key + f.sig, "arguments of `%s` @%d" % (txt(q)[:50], q.get("l", 0)), len(readers) < 2, f.loc(q),
                   "" if len(readers) < 2 else "%d arguments read from the stream; their order of evaluation is unspecified" % len(readers), "at most one stream read among the arguments of a call")
    return n


def value_guards(db, f):
    """throws of f that are guarded by an order comparison between two floating point data values (elements of double vectors / double variables)"""
    from tsg.facts import strip, txt, walk
    from tsg.flow import cond_edges_dominating

    def is_data(e):
        e = strip(e)
        if e is None:
            return False
        t = (e.get("t") or "")
        if e.get("k") in ("ArraySubscriptExpr", "CXXOperatorCallExpr") and (e.get("op") in (None, "[]")) and "double" in t:
            return True
        return e.get("k") == "DeclRefExpr" and t.replace("const ", "").strip() in ("double", "double &")
    out = []
    for th in f.walk():
        if th.get("k") != "CXXThrowExpr":
            continue
        for cnd, truth in cond_edges_dominating(f, th):
            for q in [cnd] + list(walk(cnd)):
                if q.get("k") == "BinaryOperator" and q.get("op") in ("<", "<=", ">", ">=") and is_data(q["c"][0]) and is_data(q["c"][1]):
                    out.append((th, txt(q)))
    return out


def accepts_rule(chk, db, rule_id):
    """the readers reject a file for its format, never for an order relation between restored floating point values"""
    from tsg.facts import callee, short
    from tsg.build import AnalysisBroken
    chk.rule(rule_id, "what write() produces, read() accepts: a throw in the top-level readers of the grid (readAscii / readBinary and the file-local helpers they call) is guarded by the "
                      "state of the stream, tags, versions and counts - not by an order comparison between two restored floating point values, which no setter enforces "
                      "(the pair (a, b) of a domain transform is shift and scale for the Hermite / Laguerre families, not an interval)")
    TSGC = "TasGrid::TasmanianSparseGrid"
    readers = [f for f in db.all_functions(["SparseGrids/TasmanianSparseGrid.cpp"]) if f.cls == TSGC and short(f.name) in ("readAscii", "readBinary", "read")]
    helpers = []
    for f in readers:
        for c in f.calls():
            g = db.resolve(c)
            if g is not None and g.file == "SparseGrids/TasmanianSparseGrid.cpp" and g.cls in (None, "", TSGC) and g not in readers and not (g.cls == TSGC and g.d.get("access") == "public"):
                helpers.append(g)
    n = 0
    for f in readers + helpers:
        nthrow = sum(1 for q in f.walk() if q.get("k") == "CXXThrowExpr")
        if not nthrow:
            continue
        n += nthrow
        chk.saw(f)
        bad = value_guards(db, f)
        chk.ob(rule_id, f.key + f.sig, "%d rejection(s) of the input" % nthrow, not bad, f.loc(bad[0][0]) if bad else f.where,
               "" if not bad else "rejected when `%s`: write() stores such values (shift and scale of an unbounded rule), the file it wrote cannot be read back" % bad[0][1])
    ctl = db.fns("VerifControls::control_value_guard", required=False)
    if not ctl or not value_guards(db, ctl[0]):
        raise AnalysisBroken("%s: the positive control (instantiate/controls.cpp, control_value_guard) is not reported: the matcher is broken" % rule_id)
    chk.ob(rule_id, "(control)", "the rule reports the seeded control in instantiate/controls.cpp", True, "", "value-ordered rejection reported")
    return n
