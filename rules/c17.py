"""C17  constructSurrogate checkpoints let completed work survive a crash."""
from tsg.facts import DB, strip, txt, callee, call_args, call_object, walk, const_val, short
from tsg.flow import var_of, cond_edges_dominating, is_reachable
from tsg.typestate import must_pass_after, must_pass_before
from tsg.taint import carrier
from tsg.build import AnalysisBroken

HPP = "Addons/tsgConstructSurrogate.hpp"


def stream_decls(fn, kind):
    """local std::ifstream / std::ofstream declarations: (decl node, path expression text)"""
    out = []
    for n in walk(fn.body, into_lambda=False):
        if n.get("k") == "VarDecl" and kind in n.get("t", "") and n.get("c"):
            init = strip(n["c"][0])
            if init.get("k") == "CXXConstructExpr" and init.get("c"):
                out.append((n, txt(strip(init["c"][0]))))
        # a stream declared elsewhere (captured by a lambda, reused) and opened here: stream.open(path, ...)
        if n.get("k") == "CXXMemberCallExpr" and short(callee(n) or "") == "open" and call_args(n):
            o = strip(call_object(n)) if call_object(n) is not None else None
            if o is not None and kind in (o.get("t") or ""):
                out.append((n, txt(strip(call_args(n)[0]))))
    return out


def lambdas_of(db, fn):
    return [f for f in db.all_functions([fn.file]) if f.d.get("islambda") and f.key.startswith(fn.key + "::lambda@")]


def lambda_var(fn, lam):
    """name of the local variable a lambda (Fn) is bound to in its parent"""
    line = int(lam.key.rsplit("@", 1)[1])
    for n in walk(fn.body, into_lambda=False):
        if n.get("k") == "VarDecl" and n.get("c") and strip(n["c"][0]).get("k") == "LambdaExpr" and strip(n["c"][0]).get("l") == line:
            return n
    return None


def run(chk):
    db = DB("serial")
    db.load_all()
    cores = db.fns("TasGrid::constructCommon", [HPP])
    chk.floor("C17-D1.files", len(cores), 2, "instantiations of constructCommon")
    chk.rule("C17-D1.files", "the set of path expressions opened for reading by the recovery code equals the set opened for writing by the checkpoint code (two documented files)")
    chk.rule("C17-D2.backup", "in checkpoint() the truncating stream that receives grid.write is preceded on every path by a completed copy of the current file into a *different* path, whose streams are destroyed first")
    chk.rule("C17-D3.validate", "every deserialiser called in the recovery try-blocks ends in a stream / end-marker validation throwing a type the handler catches; recovered samples are loaded only after both reads returned")
    chk.rule("C17-D4.sites", "every path from complete.add(...) to the end of the iteration passes checkpoint(); the parallel collector reports true whenever it stored a sample and the main loop checkpoints on true")
    chk.rule("C17-D7.dryrun", "recovery overwrites the caller's grid and sample store only after the same file was read completely into temporaries: a corrupt checkpoint leaves the objects "
                              "that are needed to start over untouched")
    chk.rule("C17-D8.flush", "every evaluation of the candidates callback is preceded, in the same function, by load_complete(): samples that are stored but not yet in the grid "
                             "(after a restart: the ones recovered from the checkpoint) must not be proposed again")
    chk.rule("C17-D5.budget", "after recovery the launched-sample count is initialised from every place where a recovered sample can be: the temporary storage, the loaded points and the construction data of the grid")

    for fn in cores:
        chk.saw(fn)
        name = fn.key
        lams = lambdas_of(db, fn)
        ckpt = None
        for l in lams:
            v = lambda_var(fn, l)
            if v is not None and v["name"] == "checkpoint":
                ckpt = l
        if ckpt is None:
            # not under its usual name: the checkpoint routine is the one local lambda that serialises the grid (grid.write) into a file stream
            cand = [l for l in lams if lambda_var(fn, l) is not None and stream_decls(l, "ofstream") and
                    any(short(callee(c) or "") == "write" and "TasmanianSparseGrid" in (callee(c) or "") for c in l.calls())]
            if len(cand) == 1:
                ckpt = cand[0]
        if ckpt is None:
            raise AnalysisBroken("checkpoint lambda not found in " + name)
        ckpt_name = lambda_var(fn, ckpt)["name"]
        chk.saw(ckpt)
        # ---- D1
        reads = {p for _, p in stream_decls(fn, "ifstream")}
        recov = []          # functions (the core or a helper lambda) that contain the recovery try blocks
        for l in lams:
            v = lambda_var(fn, l)
            if v is None or l is ckpt:
                continue
            lr = stream_decls(l, "ifstream")
            if not lr or not any(n.get("k") == "CXXTryStmt" for n in walk(l.body)):
                continue
            recov.append(l)
            chk.saw(l)
            pnames = {p_["name"]: i for i, p_ in enumerate(l.params())}
            for _, pth in lr:
                if pth in pnames:
                    # the path is a parameter of the helper: the files read are the arguments of its calls
                    for c in fn.walk(into_lambda=False):
                        if c.get("k") == "CXXOperatorCallExpr" and c.get("op") == "()" and var_of(c["c"][1]) == v["did"]:
                            args = [x for x in c["c"][2:] if isinstance(x, dict)]
                            if len(args) > pnames[pth]:
                                reads.add(txt(strip(args[pnames[pth]])))
                else:
                    reads.add(pth)
        writes = {p for _, p in stream_decls(fn, "ofstream")} | {p for _, p in stream_decls(ckpt, "ofstream")}
        # the copy source inside checkpoint() is not a recovery read
        chk.ob("C17-D1.files", fn.name, "recovery consults two different files (main checkpoint, then the backup)", len(reads) == 2, fn.where,
               "files read on recovery: %s" % sorted(reads), "filename and filename_old")
        chk.ob("C17-D1.files", fn.name, "recovery read set == checkpoint write set", reads == writes and len(reads) == 2, fn.where,
               "files read on recovery: %s, files written by checkpoints: %s" % (sorted(reads), sorted(writes)))
        # ---- D2
        ofs = stream_decls(ckpt, "ofstream")
        ifs = stream_decls(ckpt, "ifstream")
        gw = [c for c in ckpt.calls("TasGrid::TasmanianSparseGrid::write")]
        main = None
        for c in gw:
            sv = var_of(call_args(c)[0])
            for d, p in ofs:
                if d["did"] == sv:
                    main = (d, p)
        if main is None or len(gw) != 1:
            raise AnalysisBroken("grid.write target stream not found in checkpoint lambda")
        copies = []
        for n in walk(ckpt.body):
            if n.get("k") == "CXXOperatorCallExpr" and n.get("op") == "<<" and "rdbuf" in txt(n):
                dst = var_of(n["c"][1])
                src = None
                for x in walk(n["c"][2]):
                    if x.get("k") == "DeclRefExpr" and "did" in x:
                        src = x["did"]
                dpath = [p for d, p in ofs if d["did"] == dst]
                spath = [p for d, p in ifs if d["did"] == src]
                copies.append((n, dpath[0] if dpath else None, spath[0] if spath else None, dst, src))
        ok = False
        detail = "no copy of the current file found before it is truncated"
        for n, dpath, spath, dst, src in copies:
            if spath == main[1] and dpath is not None and dpath != main[1]:
                # copy happens before the main stream is opened, and its streams are destroyed before
                cfg = ckpt.cfg
                bd = cfg.block_of(main[0])
                bc = cfg.block_of(n)
                before = bc is not None and bd is not None and (bc[0] != bd[0] and cfg.dominates(bc[0], bd[0]) or (bc[0] == bd[0] and bc[1] < bd[1]))
                closed = False
                if before:
                    # implicit destructor of the backup stream between the copy and the declaration of the main stream
                    def is_dtor(b, lo, hi):
                        for e in cfg.blocks[b]["e"][lo:hi]:
                            if isinstance(e, dict) and e.get("dtor") == dst:
                                return True
                        return False
                    if bc[0] == bd[0]:
                        closed = is_dtor(bc[0], bc[1], bd[1])
                    else:
                        closed = any(is_dtor(b, 0, None) for b in cfg.blocks if cfg.dominates(bc[0], b) and cfg.dominates(b, bd[0]) and b != bd[0]) or is_dtor(bd[0], 0, bd[1]) or is_dtor(bc[0], bc[1], None)
                ok = before and closed
                detail = "copy %s -> %s %s the truncation, backup stream %s first" % (spath, dpath, "precedes" if before else "does NOT precede", "closed" if closed else "NOT closed")
            elif spath == main[1] and dpath == main[1]:
                detail = "the backup stream is opened on %s, the very file it copies from: %s is never written" % (dpath, sorted(reads - {main[1]}))
        chk.ob("C17-D2.backup", fn.name + "::checkpoint", "backup of %s before it is truncated" % main[1], ok, ckpt.loc(main[0]), detail)
        # the initial checkpoint (outside the lambda) writes the main file only after the recovery block
        # ---- D3
        tries = [(fn, n) for n in walk(fn.body, into_lambda=False) if n.get("k") == "CXXTryStmt"] + [(l, n) for l in recov for n in walk(l.body) if n.get("k") == "CXXTryStmt"]
        chk.floor("C17-D3.validate", len(tries), 1, "recovery try blocks")
        for tfn, t in tries:
            caught = [c.get("catch", "") for c in t.get("c", []) if c.get("k") == "CXXCatchStmt"]
            body = t["c"][0]
            for c in walk(body):
                cal = callee(c)
                if cal in ("TasGrid::TasmanianSparseGrid::read", "TasGrid::CompleteStorage::read"):
                    tgt = db.resolve(c)
                    # follow read -> readBinary
                    targets = [tgt] if tgt is not None else []
                    for tt in list(targets):
                        for c2 in tt.calls():
                            t2 = db.resolve(c2)
                            if t2 is not None and t2.name.endswith(("::readBinary",)):
                                targets.append(t2)
                    val_ok = False
                    thrown = set()
                    vdetail = "no validation of the stream after the last read"
                    for tt in targets:
                        chk.saw(tt)
                        throws = [x for x in tt.walk() if x.get("k") == "CXXThrowExpr"]
                        for th in throws:
                            ty = [q.get("ctor") for q in walk(th) if q.get("k") in ("CXXConstructExpr", "CXXTemporaryObjectExpr") and q.get("ctor", "").startswith("std::")]
                            thrown |= {x for x in ty if "error" in x or "argument" in x}
                        # last raw read in the function
                        rds = [x for x in tt.walk() if (callee(x) or "").startswith("TasGrid::IO::read")]
                        if rds and throws:
                            last = rds[-1]
                            # every path after the last read passes a condition over the stream state / the value read, guarding a throw
                            def guards(x, tt=tt):
                                if x.get("k") == "CXXThrowExpr":
                                    return False
                                return False
                            end_checks = []
                            for th in throws:
                                for cn, tr in cond_edges_dominating(tt, th):
                                    s = txt(cn)
                                    if ".fail()" in s or "readNumber" in s or ".good()" in s or "!is" in s:
                                        end_checks.append((cn, th))
                            after = [cn for cn, th in end_checks if cn.get("l", 0) >= last.get("l", 0)]
                            if after:
                                val_ok = True
                                vdetail = "validated by `%s`" % txt(after[-1])[:70]
                    chk.ob("C17-D3.validate", name, "%s validates its input" % short(cal.rsplit("::", 1)[0]) + "::read @%d" % c.get("l", 0), val_ok, tfn.loc(c), vdetail)
                    cov = all(any(short(x) in ct for ct in caught) for x in thrown) if thrown else False
                    chk.ob("C17-D3.validate", name, "handler catches what %s throws @%d" % (short(cal.rsplit("::", 1)[0]) + "::read", c.get("l", 0)), cov, fn.loc(c),
                           "throws %s, handler catches %s" % (sorted(short(x) for x in thrown), caught))
                    # ---- D7: the caller's objects are overwritten only after a dry run into temporaries
                    recv = strip(call_object(c))
                    is_local = recv is not None and recv.get("k") == "DeclRefExpr" and any(d.get("did") == recv.get("did") for d in tfn.locals().values())
                    if not is_local:
                        want_t = "TasmanianSparseGrid" if "TasmanianSparseGrid" in cal else "CompleteStorage"

                        def dry(x, want_t=want_t, tfn=tfn):
                            if callee(x) != cal:
                                return False
                            r0 = strip(call_object(x))
                            return r0 is not None and r0.get("k") == "DeclRefExpr" and any(d.get("did") == r0.get("did") and want_t in d.get("t", "") for d in tfn.locals().values())
                        okd = bool(must_pass_before(tfn, c, dry))
                        chk.ob("C17-D7.dryrun", name, "%s.read @%d only after a dry run into a temporary" % (txt(recv), c.get("l", 0)), okd, tfn.loc(c),
                               "" if okd else "a checkpoint that is torn after its header clears the caller's object before the reader throws: nothing is left to start over from")
            # good() test before reading
            gd = [x for x in walk(body) if (callee(x) or "").endswith("::good")]
            chk.ob("C17-D3.validate", name, "missing file is detected before reading (try @%d)" % t.get("l", 0), bool(gd), tfn.loc(t))
        # loading of recovered samples is outside the try blocks
        for c in fn.calls("TasGrid::CompleteStorage::load", into_lambda=False):
            inside = any(a.get("k") == "CXXTryStmt" for a in fn.ancestors(c))
            chk.ob("C17-D3.validate", name, "recovered samples loaded outside the recovery try", not inside, fn.loc(c))
        # ---- D4
        ckv = lambda_var(fn, ckpt)
        adds = [c for c in fn.calls("TasGrid::CompleteStorage::add", into_lambda=False) if is_reachable(fn, c)]
        for c in adds:
            def is_ck(x, did=ckv["did"]):
                return x.get("k") == "CXXOperatorCallExpr" and x.get("op") == "()" and var_of(x["c"][1]) == did
            ok = must_pass_after(fn, c, is_ck)
            chk.ob("C17-D4.sites", name, "sequential loop: checkpoint after complete.add", bool(ok), fn.loc(c))
        for l in lams:
            v = lambda_var(fn, l)
            if v is None or v["name"] != "collect_finished":
                continue
            ladds = [c for c in l.calls("TasGrid::CompleteStorage::add")]
            if not ladds and not is_reachable(fn, v):
                continue
            # the flag is the bool local that every return statement of the collector returns
            rets = [r for r in walk(l.body) if r.get("k") == "ReturnStmt"]
            flags = {var_of(r["c"][0]) for r in rets if r.get("c")}
            flag = next(iter(flags)) if len(flags) == 1 and None not in flags else None
            for c in ladds:
                ok = flag is not None and must_pass_after(l, c, lambda x: x.get("k") == "BinaryOperator" and x.get("op") == "=" and var_of(x["c"][0]) == flag and txt(strip(x["c"][1])) == "true")
                chk.ob("C17-D4.sites", name, "collector flags a stored sample", bool(ok), l.loc(c))
            chk.ob("C17-D4.sites", name, "collector returns the flag", flag is not None and bool(rets), l.where)
            # main loop
            for c in fn.walk(into_lambda=False):
                if c.get("k") == "CXXOperatorCallExpr" and c.get("op") == "()" and var_of(c["c"][1]) == ckv["did"] and is_reachable(fn, c):
                    edges = [(txt(strip(x)), tr) for x, tr in cond_edges_dominating(fn, c)]
                    if any(e[0] == "collect_finished()" for e in edges):
                        chk.ob("C17-D4.sites", name, "parallel loop: checkpoint when the collector stored samples", ("collect_finished()", True) in edges, fn.loc(c), str(edges))
        # ---- D8: finished samples are loaded before new candidates are computed
        cparam = next((p_ for p_ in fn.params() if p_["name"] == "candidates"), None)
        lcv = next((lambda_var(fn, l) for l in lams if (lambda_var(fn, l) or {}).get("name") == "load_complete"), None)
        if cparam is None or lcv is None:
            raise AnalysisBroken("candidates parameter / load_complete helper not found in " + name)
        ncand = 0
        for g in [fn] + lams:
            for c in g.walk(into_lambda=False):
                if c.get("k") == "CXXOperatorCallExpr" and c.get("op") == "()" and var_of(c["c"][1]) == cparam["did"] and (g is not fn or is_reachable(fn, c)):
                    ncand += 1
                    chk.saw(g)
                    ok = bool(must_pass_before(g, c, lambda x, did=lcv["did"]: x.get("k") == "CXXOperatorCallExpr" and x.get("op") == "()" and var_of(x["c"][1]) == did))
                    chk.ob("C17-D8.flush", name, "candidates(grid) @%d is preceded by load_complete()" % c.get("l", 0), ok, g.loc(c),
                           "" if ok else "samples that are finished (or recovered from the checkpoint) but not yet loaded are offered again: the model is evaluated twice at the same point and the budget is spent on duplicates")
        chk.floor("C17-D8.flush", ncand, 1, "evaluations of the candidates callback")
        # ---- D5
        tl = [d for d in fn.locals().values() if d.get("name") == "total_num_launched" and d.get("c")]
        if not tl:
            raise AnalysisBroken("total_num_launched not found")
        it = txt(strip(tl[0]["c"][0]))
        chk.ob("C17-D5.budget", name, "launched count starts from stored + loaded", "complete.getNumStored()" in it and "grid.getNumLoaded()" in it and "+" in it, fn.loc(tl[0]), it)
        # a recovered sample can sit in three places: the temporary storage, the loaded points, and the construction data of the grid (samples parked
        # until their tensor / their parents arrive; they are written and read back with the grid).  The count has to cover all of them.
        parked_terms = [q for q in walk(tl[0]) if q.get("k") == "CXXMemberCallExpr" and (callee(q) or "").startswith("TasGrid::TasmanianSparseGrid::")
                        and short(callee(q) or "") not in ("getNumLoaded", "getNumPoints", "getNumNeeded", "getNumDimensions", "getNumOutputs")]
        chk.ob("C17-D5.budget", name, "launched count covers the samples parked in the construction data of the grid", bool(parked_terms), fn.loc(tl[0]),
               "" if parked_terms else "`%s` counts the temporary storage and the loaded points only; samples that the recovered grid holds in its construction data are "
               "evaluated results too, the restart may launch that many samples beyond the budget" % it[:80])
        # and the recovery block precedes it
        rb = [t for tfn_, t in tries]
        chk.ob("C17-D5.budget", name, "count initialised after the recovery block", all(t.get("l", 0) < tl[0].get("l", 0) for t in rb), fn.loc(tl[0]))

    # ---- D3 (shared with C14-D9): a torn file is noticed at the extraction that hits its end, not at an end marker that is never reached
    from rules import c14
    chk.rule("C17-D3.stream", "the stream-reading primitives used by grid.read / CompleteStorage::read throw std::runtime_error as soon as an extraction fails (obligations of C14-D9): "
                              "every tear position of a checkpoint ends in the exception the recovery handler catches")
    nps = c14.stream_rule(chk, db, "C17-D3.stream")
    chk.floor("C17-D3.stream", nps, 6, "instantiated stream-reading primitives")

    # ---- D6: restored construction data are rebuilt in place (a by-value range-for would update copies)
    chk.rule("C17-D6.lostwrite", "the code that rebuilds restored construction data (reloadPoints etc.) never writes to a by-value range-for variable: flags of already computed samples would be lost and the samples re-computed after a restart")
    from tsg.flow import element_writes
    nl = 0
    for f in db.all_functions(["SparseGrids/tsgDConstructGridGlobal.cpp", "SparseGrids/tsgDConstructGridGlobal.hpp", "Addons/tsgCandidateManager.hpp", HPP]):
        for st in f.walk():
            if st.get("k") == "CXXForRangeStmt" and st.get("lv"):
                nl += 1
                lv = st["lv"]
                t = lv.get("t", "")
                bad = []
                if not ("&" in t or "*" in t or "iterator" in t):
                    bad = [x for x in walk(st.get("body")) for d, kd, _ in element_writes(x) if d == lv["did"] and kd in ("partial", "update")]
                chk.saw(f)
                chk.ob("C17-D6.lostwrite", f.key, "for(%s %s : %s)@%d" % (t[:30], lv.get("name"), txt(st.get("range"))[:30], nl), not bad, f.loc(st),
                       ("`%s` modifies a copy of the element" % txt(bad[0])[:60]) if bad else "")
    chk.floor("C17-D6.lostwrite", nl, 8, "range-for loops in the construction data code")

    # ------------------------------------------------------------------ D10 a stream that outlives one attempt is closed on every way out
    chk.rule("C17-D10.reopen", "a file stream of the recovery / checkpoint code that is not local to the function that opens it (declared outside a lambda that is called once per file, "
                               "or reused) is closed on every way out of that function, the exception handlers included: open() on a stream that is still open fails, and the "
                               "second file (the backup) would be reported missing although it is complete")
    nre = 0
    controls = db.fns("VerifControls::control_reopen", required=False)
    nctl_bad = 0
    for fn in list(cores) + list(controls):
        for g in [fn] + lambdas_of(db, fn):
            own = {v.get("did") for v in g.locals().values()}
            for c in g.calls(into_lambda=False):
                if short(callee(c) or "") != "open" or call_object(c) is None:
                    continue
                o = strip(call_object(c))
                if o is None or "fstream" not in (o.get("t") or "") or o.get("k") != "DeclRefExpr" or o.get("did") in own:
                    continue
                nre += 1
                chk.saw(g)

                def closes(n, did=o.get("did")):
                    return n.get("k") == "CXXMemberCallExpr" and short(callee(n) or "") == "close" and call_object(n) is not None and (strip(call_object(n)) or {}).get("did") == did
                normal = bool(must_pass_after(g, c, closes))
                # handlers of try blocks that can be entered after the open
                handlers_ok = True
                where = None
                for t in [a for a in g.walk(into_lambda=False) if a.get("k") == "CXXTryStmt"]:
                    if t.get("l", 0) < c.get("l", 0) and not any(x is c for x in walk(t)):
                        continue
                    for h in [x for x in t.get("c", []) if isinstance(x, dict) and x.get("k") == "CXXCatchStmt"]:
                        body = [x for x in h.get("c", []) if isinstance(x, dict)]
                        stmts = body[-1].get("c", []) if body and body[-1].get("k") == "CompoundStmt" else body
                        closed = False
                        for st in stmts:
                            if any(closes(q) for q in [st] + list(walk(st))):
                                closed = True
                                break
                            if any(q.get("k") in ("ReturnStmt", "CXXThrowExpr") for q in [st] + list(walk(st))):
                                break
                        if not closed:
                            handlers_ok = False
                            where = h
                ok = normal and handlers_ok
                if fn in controls:
                    nctl_bad += (0 if ok else 1)
                    continue
                chk.ob("C17-D10.reopen", g.key, "stream `%s` opened at line %d is closed on every way out" % (o.get("var") or o.get("name"), c.get("l", 0)), ok, g.loc(c),
                       "" if ok else ("a return path does not close it" if not normal else "the exception handler at line %d leaves it open: the next open() on the same stream fails" % where.get("l", 0)))
    if nctl_bad < 1:
        raise AnalysisBroken("C17-D10.reopen: the positive control (instantiate/controls.cpp, control_reopen) is not reported: the matcher is broken")
    chk.ob("C17-D10.reopen", "(control)", "the rule reports the seeded control in instantiate/controls.cpp", True, "", "%d control instance(s) reported" % nctl_bad)
    chk.note("C17-D10.reopen", "Addons/tsgConstructSurrogate.hpp", "%d open() call(s) on streams that outlive the opening function (0 on a tree where every stream is local: the destructor closes it)" % nre)

    from rules import header
    nh = header.header_rule(chk, db, "C17-D9.header")         # the sample block of a checkpoint
    chk.floor("C17-D9.header", nh, 2, "header numbers of the checkpointed sample block")

    return ("Static rule discharge over every instantiation of constructCommon<parallel,guess> and its lambdas, CompleteStorage::read and TasmanianSparseGrid::read/readBinary: "
            "file-set agreement of recovery and checkpoint code, dominance of a completed copy-to-a-different-path before the truncating open, presence of a stream/end-marker "
            "validation after the last read in each deserialiser with a handler that catches its exception type, must-pass-through of checkpoint() after every stored sample, "
            "and the restart budget initialiser. Not decided: atomicity of torn writes inside the file system and exceptions of other types raised on garbage sizes (see DESIGN.md).")
