"""C02  Quadrature is exact on the polynomial space the grid declares (declared-exactness tables and routing).

The tables getNumPoints / getIExact / getQExact are loop-free; they are partially evaluated for every rule and
levels 0..LMAX and checked against degree-of-exactness theorems that depend on the *number* of nodes only.
A declared exactness above such a bound lists a monomial that no rule with that many nodes integrates:
that is the only way the table alone can violate the property (under-claims are notes)."""
import sympy

from tsg.facts import DB, strip, txt, callee, call_args, call_object, walk, const_val, short
from tsg.peval import PEval
from tsg.sym import NotClosedForm
from tsg.build import AnalysisBroken

META = "TasGrid::OneDimensionalMeta::"
from tsg.tier import pick
LMAX = pick(12, 20)
GAUSS = ("rule_gausslegendre", "rule_gausschebyshev1", "rule_gausschebyshev2", "rule_gaussgegenbauer", "rule_gaussjacobi", "rule_gausslaguerre", "rule_gausshermite")
# frozen exceptions, one reason each
CC0 = "rule_clenshawcurtis0"     # n interior nodes stand for the (n+2)-point closed rule applied to functions vanishing at +-1: the laws are applied to n+2
FOURIER = "rule_fourier"         # exactness counts frequencies, not powers: bound (n-1)/2
PATTERSON = "rule_gausspatterson"  # nested extension of Gauss-Legendre: degree (3n+1)/2 for level >= 1


def tables(db):
    pe = PEval(db)
    fn = {k: db.fn(META + k) for k in ("getNumPoints", "getIExact", "getQExact", "isGlobal")}
    enum = db.enum("TasGrid::TypeOneDRule")["values"]
    rules = {}
    for v in enum:
        name, val = v["name"], int(v["val"])
        try:
            glob = pe.call(fn["isGlobal"], [sympy.Integer(val)])
        except NotClosedForm:
            glob = None
        if not (glob is sympy.true or glob == 1):
            continue
        if name == "rule_customtabulated":
            continue
        rows = []
        for l in range(LMAX + 1):
            try:
                n = int(pe.call(fn["getNumPoints"], [sympy.Integer(l), sympy.Integer(val)]))
                i = int(pe.call(fn["getIExact"], [sympy.Integer(l), sympy.Integer(val)]))
                q = int(pe.call(fn["getQExact"], [sympy.Integer(l), sympy.Integer(val)]))
            except NotClosedForm as e:
                raise AnalysisBroken("exactness table of %s is no longer loop-free: %s" % (name, e))
            rows.append((l, n, i, q))
        rules[name] = rows
    return fn, rules


def explicit_cases(fn):
    out = set()
    for n in walk(fn.body):
        if n.get("k") == "CaseStmt":
            for x in walk(n.get("lhs")):
                if x.get("k") == "DeclRefExpr" and "enumc" in x:
                    out.add(short(x["enumc"]))
    return out


def qbound(name, l, n):
    """largest degree of exactness any quadrature of this class with n nodes can have"""
    if name == FOURIER:
        return (n - 1) // 2, "frequencies: (n-1)/2"
    if name == CC0:
        m = n + 2
        return (m if m % 2 == 1 else m - 1), "closed rule with n+2 nodes (interpolatory, symmetric): n+2"
    if name.replace("odd", "") in GAUSS:
        return 2 * n - 1, "Gauss rule: 2n-1"
    if name == PATTERSON:
        return (1 if l == 0 else (3 * n + 1) // 2), "Gauss-Patterson: (3n+1)/2, midpoint rule at level 0"
    return (n if n % 2 == 1 else n - 1), "interpolatory rule: n-1, plus one degree by symmetry only when n is odd"


def ibound(name, l, n):
    if name == FOURIER:
        return (n - 1) // 2, "frequencies: (n-1)/2"
    if name == CC0:
        return n + 2, "basis carries the factor (1-x^2): degree up to n+1, table value n+2 frozen as upper bound"
    return n - 1, "n nodes interpolate polynomials up to degree n-1"


def quadsize_rule(chk, db, rule_id):
    """the Gauss-Legendre rule that integrates the Newton basis of a Sequence grid is sized from the maximum level over all directions"""
    from tsg.typestate import must_pass_before
    chk.rule(rule_id, "GridSequence::cacheBasisIntegrals (behind getQuadratureWeights, integrate and integrateHierarchicalFunctions of Sequence grids): the number of Gauss-Legendre points "
                      "is derived from a variable that is reduced over all entries of max_levels, and it is derived after that reduction has run (every path to the definition passes the "
                      "reducing loop): sized from one direction only, the basis functions of a more refined direction are integrated with too few points")
    n = 0
    for f in db.fns("TasGrid::GridSequence::cacheBasisIntegrals", required=False):
        gl = [c for c in f.calls() if short(callee(c) or "") == "getGaussLegendre"]
        if not gl:
            raise AnalysisBroken("cacheBasisIntegrals no longer calls getGaussLegendre")
        chk.saw(f)
        for c in gl:
            nv = strip(call_args(c)[0])
            nd = f.locals().get(nv.get("did")) if nv is not None and nv.get("k") == "DeclRefExpr" else None
            if nd is None or not nd.get("c"):
                raise AnalysisBroken("the number of Gauss-Legendre points is not a local with an initialiser")
            reads = {q.get("did") for q in walk(nd["c"][0]) if q.get("k") == "DeclRefExpr" and q.get("did") in f.locals()}
            # loops over the member max_levels that assign one of these variables
            red = []
            for lp in f.walk():
                if lp.get("k") == "CXXForRangeStmt" and lp.get("range") is not None and short((strip(lp["range"]) or {}).get("field") or "") == "max_levels":
                    if any(q.get("k") == "BinaryOperator" and q.get("op") == "=" and (strip(q["c"][0]) or {}).get("did") in reads for q in walk(lp.get("body") or {})):
                        red.append(lp)
                elif lp.get("k") == "ForStmt" and any(short(z.get("field") or "") == "max_levels" for z in walk(lp)) and \
                        any(q.get("k") == "BinaryOperator" and q.get("op") == "=" and (strip(q["c"][0]) or {}).get("did") in reads for q in walk(lp.get("body") or {})):
                    red.append(lp)
            n += 1
            ok = False
            detail = "the size is not derived from a variable reduced over max_levels"
            if red:
                inside = {q.get("id") for lp in red for q in walk(lp)}
                ok = bool(must_pass_before(f, nd, lambda q: q.get("id") in inside)) and nd.get("id") not in inside
                detail = "" if ok else "the number of points is fixed before the reduction over max_levels has run: it reflects the first direction only"
            chk.ob(rule_id, f.key, "Gauss-Legendre size `%s` of the basis integrals" % txt(nd["c"][0])[:40], ok, f.loc(nd), detail)
    return n


def params_rule(chk, db, rule_id):
    """every rebuild of the one dimensional cache inside GridGlobal uses the grid's own rule, alpha, beta (shared by C02 and C03)"""
    chk.rule(rule_id, "every construction of the one dimensional node/weight cache inside a grid class that stores rule parameters passes that grid's own rule, alpha and beta "
                              "(the members, or the values assigned to them in the same function): a rebuild with other parameters changes nodes and weights of a parametrised Gauss rule")
    npar = 0
    for cls in ("TasGrid::GridGlobal",):
        for f in db.all_functions(["SparseGrids/tsgGridGlobal.cpp", "SparseGrids/tsgGridGlobal.hpp"]):
            if f.cls != cls:
                continue
            # values assigned to the members in this function: member <- variable
            src = {}
            for q in f.walk():
                if q.get("k") == "BinaryOperator" and q.get("op") == "=":
                    l, r_ = strip(q["c"][0]), strip(q["c"][1])
                    if l is not None and l.get("k") == "MemberExpr" and short(l.get("field") or "") in ("rule", "alpha", "beta") and r_ is not None and r_.get("k") == "DeclRefExpr":
                        src.setdefault(short(l["field"]), set()).add(r_.get("did"))
            for ini in f.d.get("inits", []) or []:
                if short(ini.get("field") or "") in ("rule", "alpha", "beta") and ini.get("init") is not None:
                    i0 = strip(ini["init"])
                    # copy constructors take the parameters from the source grid
                    src.setdefault(short(ini["field"]), set()).add(txt(i0))
            for c in f.walk():
                if c.get("k") not in ("CXXTemporaryObjectExpr", "CXXConstructExpr") or not (c.get("ctor") or "").endswith("OneDimensionalWrapper"):
                    continue
                args = [x for x in c.get("c", []) if isinstance(x, dict)]
                if len(args) < 4:
                    continue        # copy / move / default construction
                npar += 1
                chk.saw(f)
                bad = []
                for role, a in zip(("rule", "alpha", "beta"), args[-3:]):
                    a0 = strip(a)
                    ok = (a0.get("k") == "MemberExpr" and short(a0.get("field") or "") == role) or \
                         (a0.get("k") == "DeclRefExpr" and a0.get("did") in src.get(role, set())) or txt(a0) in src.get(role, set()) or \
                         (a0.get("k") == "MemberExpr" and txt(a0).endswith("->" + role)) or \
                         (role == "rule" and txt(a0) == "wrapper.getRule()")       # the cache being extended was built with the grid's rule
                    if not ok:
                        bad.append("%s is `%s`" % (role, txt(a0)))
                chk.ob(rule_id, f.key + f.sig, "OneDimensionalWrapper(%s)" % ", ".join(txt(strip(a))[:14] for a in args[-3:]), not bad, f.loc(c), "; ".join(bad), "the grid's rule, alpha, beta")
    chk.floor(rule_id, npar, 4, "constructions of the one dimensional cache in GridGlobal")

    return npar


def run(chk, prop="C02"):
    db = DB("serial")
    db.load_all()
    fn, rules = tables(db)
    for f in fn.values():
        chk.saw(f)
    R = prop + "-D1."
    if prop == "C02":
        chk.rule(R + "law", "for every global rule and level 0..%d: the declared quadrature exactness does not exceed the degree-of-exactness bound of its rule class computed from the declared number of nodes" % LMAX)
    else:
        chk.rule(R + "law", "for every global rule and level 0..%d: the declared interpolation exactness does not exceed n-1 for n nodes (frozen exceptions: clenshaw-curtis-zero, fourier)" % LMAX)
    chk.rule(R + "monotone", "number of points and declared exactness are non-decreasing in the level")
    chk.rule(R + "cover", "every global rule except the custom tabulated one has an explicit case in getNumPoints, getIExact and getQExact (none falls into the 'should not be called' default)")
    chk.floor(R + "law", len(rules), 35, "global rules with tabulated exactness")

    cases = {k: explicit_cases(fn[k]) for k in ("getNumPoints", "getIExact", "getQExact")}
    for name, rows in sorted(rules.items()):
        over = []
        under = []
        for l, n, i, q in rows:
            if prop == "C02":
                b, why = qbound(name, l, n)
                v = q
            else:
                b, why = ibound(name, l, n)
                v = i
            if v > b:
                over.append("level %d: %d nodes, declared %d > bound %d (%s)" % (l, n, v, b, why))
            elif v < b and name.replace("odd", "") in GAUSS and prop == "C02":
                under.append(l)
        chk.ob(R + "law", name, "declared %s exactness within the bound of the rule class" % ("quadrature" if prop == "C02" else "interpolation"), not over, fn["getQExact" if prop == "C02" else "getIExact"].where,
               "; ".join(over[:3]) if over else "levels 0..%d" % LMAX, "an upper bound that depends only on the number of nodes")
        if under:
            chk.note(R + "law", name, "declared quadrature exactness below 2n-1 at levels %s (under-claim, not a violation)" % under[:5])
        mono = [rows[j][0] for j in range(1, len(rows)) if rows[j][1] < rows[j - 1][1] or rows[j][2] < rows[j - 1][2] or rows[j][3] < rows[j - 1][3]]
        chk.ob(R + "monotone", name, "n, i, q non-decreasing", not mono, fn["getNumPoints"].where, "decrease at level(s) %s" % mono if mono else "")
        miss = [k for k in cases if name not in cases[k]]
        chk.ob(R + "cover", name, "explicit case in all three tables", not miss, fn["getNumPoints"].where, "no case in %s" % miss if miss else "")

    # ---- rules whose Lagrange basis carries a non-constant factor span factor(x) * P, not P: the listed monomials are then not in the span
    chk.rule(R + "span", "the monomials listed by getGlobalPolynomialSpace are in the span of the basis: the global Lagrange cache multiplies every basis function by a factor that is the "
                         "constant 1; a rule with a factor that depends on x (zero-boundary modification) reproduces / integrates factor(x) * P and none of the listed monomials")
    nspan = 0
    for cf in db.all_functions(["SparseGrids/tsgCacheLagrange.hpp"]):
        if not cf.d.get("isctor") and "CacheLagrange" not in cf.key:
            continue
        for q in cf.walk():
            if q.get("k") != "ConditionalOperator":
                continue
            c0 = strip(q["c"][0])
            if c0 is None or c0.get("k") != "BinaryOperator" or c0.get("op") != "==":
                continue
            en = [x for x in walk(c0) if x.get("k") == "DeclRefExpr" and "enumc" in x]
            if not en or not any((callee(x) or "").endswith("::getRule") for x in walk(c0)):
                continue
            tb, fb = strip(q["c"][1]), strip(q["c"][2])
            def depends_on_x(e):
                return any(x.get("k") == "DeclRefExpr" and x.get("var") == "x" for x in walk(e)) or any(x.get("k") in ("ArraySubscriptExpr",) and "x" in txt(x) for x in walk(e))
            if not (depends_on_x(tb) or depends_on_x(fb)):
                continue
            nspan += 1
            rname = short(en[0]["enumc"])
            chk.saw(cf)
            if txt(tb).replace(" ", "") in ("x*x-1", "x*x-1.0") and "CacheLagrange<" in cf.key and "Derivative" not in cf.key and rname in rules:
                chk.ob(R + "span", rname, "basis factor is the constant 1", False, cf.loc(q), "the basis of %s is multiplied by `%s`: the grid reproduces (%s) * P, the listed powers 0..k are not in that span" % (rname, txt(tb), txt(tb)),
                       "factor 1 for every rule with a listed polynomial space")
    chk.floor(R + "span", nspan, 1, "rule-dependent basis factors in the Lagrange cache")
    chk.ob(R + "span", "(all other global rules)", "basis factor is the constant 1", True, "SparseGrids/tsgCacheLagrange.hpp", "the factor is selected by a test on one rule only")

    if prop == "C02":
        # custom tabulated: exactness comes from the user table
        chk.rule("C02-D3.route", "integrate() is the weighted sum: GridGlobal::integrate obtains its weights from getQuadratureWeights on the same point set; the Sequence and Fourier routes read the basis integrals")
        gi = db.fn("TasGrid::GridGlobal::integrate")
        chk.saw(gi)
        chk.ob("C02-D3.route", gi.name, "integrate uses getQuadratureWeights", any((callee(c) or "").endswith("GridGlobal::getQuadratureWeights") for c in gi.calls()), gi.where)
        gs = db.fn("TasGrid::GridSequence::integrate")
        gq = db.fn("TasGrid::GridSequence::getQuadratureWeights")
        a = {short(callee(c)) for c in gs.calls() if (callee(c) or "").startswith("TasGrid::GridSequence::")}
        b = {short(callee(c)) for c in gq.calls() if (callee(c) or "").startswith("TasGrid::GridSequence::")}
        chk.saw(gs)
        chk.ob("C02-D3.route", gs.name, "integrate and getQuadratureWeights share the basis-integral routine", bool(a & b & {"cacheBasisIntegrals"}), gs.where, "integrate: %s ; weights: %s" % (sorted(a), sorted(b)))
        # ---- shared clauses: the scale of the domain transform (C10) and the basis integrals of the local rules (C04)
        from tsg.report import Check
        from rules import c10, c04
        chk.rule("C02-D2.scale", "under a domain transform the weights are multiplied by the Jacobian of the forward map to the power fixed by the weight function of the rule family; "
                                 "getQuadratureScale dispatches every rule into the family the maps use (obligations of C10-D1 / C10-D2)")
        sub = Check("C10", chk.tier, chk.seed)
        c10.run(sub)
        chk.absorb(sub)
        nsc = 0
        for o in sub.obls:
            if (o["rule"] == "C10-D2.algebra" and ("quadrature scale" in o["construct"] or "effective" in o["construct"])) or \
                    (o["rule"] == "C10-D1.partition" and "getQuadratureScale" in (o["function"] + o["construct"])):
                nsc += 1
                chk.ob("C02-D2.scale", o["function"], o["construct"], o["ok"], o["where"], o["detail"], o["expected"])
        chk.floor("C02-D2.scale", nsc, 5, "quadrature-scale obligations shared with C10")
        chk.rule("C02-D8.independent", "integrate() and getQuadratureWeights() apply the constant Jacobian of the linear domain transform and the conformal weight correction independently of each "
                                       "other: neither is control dependent on a test of the other transform (obligations of C10-D6 for the quadrature family), so integrate() stays the weighted sum when both are set")
        nin = 0
        for o in sub.obls:
            if o["rule"] == "C10-D6.independent" and ("getQuadratureScale" in o["construct"] or "mapConformalWeights" in o["construct"]):
                nin += 1
                chk.ob("C02-D8.independent", o["function"], o["construct"], o["ok"], o["where"], o["detail"], o["expected"])
        chk.floor("C02-D8.independent", nin, 4, "quadrature corrections of the API class (shared with C10)")
        from rules import workset
        chk.rule("C02-D9.workset", "the point set whose space getGlobalPolynomialSpace() lists is the one getPoints()/getQuadratureWeights()/integrate() work on: every selection between the loaded "
                                   "and the needed set in the Global, Sequence and Fourier grids picks the loaded points whenever there are any (obligations of C03-D4 for these classes)")
        nws = workset.workset_rule(chk, db, "C02-D9.workset", classes=("TasGrid::GridGlobal", "TasGrid::GridSequence", "TasGrid::GridFourier", "TasGrid::BaseCanonicalGrid"))
        chk.floor("C02-D9.workset", nws, 15, "work-set selections in the Global, Sequence and Fourier grids")
        chk.rule("C02-D6.fresh", "integrate() of Sequence and Fourier grids reads the hierarchical coefficients: after every change of the values or of the point set the coefficients are "
                                 "recomputed on every path (obligations of C01-D1 for these two classes), so integrate() equals the weighted sum of the values that are loaded now")
        from rules import c01
        from tsg.effects import Effects
        nfr = c01.fresh_rule(chk, db, Effects(db), "C02-D6.fresh", classes=("TasGrid::GridSequence", "TasGrid::GridFourier"))
        chk.floor("C02-D6.fresh", nfr, 8, "value / point-set changes in the Sequence and Fourier grids")
        from rules import cache
        cache.size_cache_rule(chk, db, "C02-D7.cache")       # local polynomial quadrature weights are a transposed transform over the cached parent DAG
        chk.rule("C02-D4.area", "local polynomial quadrature weights are built from getArea: the tabulated basis integrals equal the exact integrals of the closed-form basis (obligations of C04-D4)")
        sub4 = Check("C04", chk.tier, chk.seed)
        c04.run(sub4)
        chk.absorb(sub4)
        na = 0
        for o in sub4.obls:
            if o["rule"] == "C04-D4.area":
                na += 1
                chk.ob("C02-D4.area", o["function"], o["construct"], o["ok"], o["where"], o["detail"], o["expected"])
        chk.floor("C02-D4.area", na, 4, "basis-integral obligations shared with C04")
        # ---- the parameters of the rule reach every rebuild of the one dimensional cache
        params_rule(chk, db, "C02-D5.params")
        nqs = quadsize_rule(chk, db, "C02-D10.quadsize")
        chk.floor("C02-D10.quadsize", nqs, 1, "quadrature sizes of the Sequence basis integrals")
        chk.note("C02", "SparseGrids/tsgCoreOneDimensional.cpp", "exactness of the computed nodes/weights themselves (eigen-solves, closed forms, tensor weights) is numerical and not decided")
        return ("Static rule discharge: the three exactness tables are partially evaluated (no loops) for every global rule and levels 0..%d and the declared quadrature exactness is compared with "
                "theorems that bound the degree of exactness by the number of nodes (Gauss 2n-1, Gauss-Patterson (3n+1)/2, interpolatory n-1 plus one by symmetry for odd n); "
                "monotonicity, case coverage, the routing of integrate(), the quadrature scale of the domain transform and the basis integrals of the local rules. Exactness of the computed nodes and weights for all configurations is numerical and not decided." % LMAX)
    return ("Static rule discharge: declared interpolation exactness never exceeds n-1 for n nodes (the space listed by getGlobalPolynomialSpace(true) is built from this table), "
            "monotonicity and case coverage. Exact reproduction at arbitrary x by the Lagrange/Newton/DFT/DAG machinery is numerical and not decided.")
