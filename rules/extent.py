"""R-EXTENT (API class): a correction applied in place to an output buffer covers the whole buffer.

Raw-pointer methods of TasmanianSparseGrid hand the buffer to the grid class and then post-process it in a loop (quadrature
scale of the linear transform, conformal weights ...).  How many entries the buffer has is stated by the code itself: the
vector overload of the same method sizes its vector with an expression E and forwards v.data().  The rule pairs both: every
loop `for(i = 0; i < B; i++) buf[i] op= ...` of the raw method must run over B == E (symbolic comparison after inlining
local definitions and the forwarding accessors getNumPoints()/getNumOutputs()/... of the API class)."""
import re
import sympy

from tsg.facts import strip, txt, callee, call_args, call_object, walk, short

TSG = "TasGrid::TasmanianSparseGrid"
FILES = ["SparseGrids/TasmanianSparseGrid.cpp", "SparseGrids/TasmanianSparseGrid.hpp"]


def _norm(f, e, depth=0):
    """sympy expression of a count: accessor calls become symbols, local variables are replaced by their initialisers"""
    e = strip(e)
    if e is None:
        return None
    k = e.get("k")
    if k == "IntegerLiteral":
        return sympy.Integer(int(e.get("val")))
    if k in ("CXXMemberCallExpr", "CallExpr"):
        nm = short(callee(e) or "")
        if nm.startswith("getNum") and not call_args(e):
            return sympy.Symbol(nm, integer=True, nonnegative=True)
        return None
    if k == "DeclRefExpr":
        d = f.locals().get(e.get("did"))
        if d is not None and depth < 4:
            ini = [c for c in d.get("c", []) if isinstance(c, dict)]
            if ini:
                return _norm(f, ini[0], depth + 1)
        return sympy.Symbol("v_" + (e.get("var") or "?"), integer=True)
    if k == "BinaryOperator" and e.get("op") in ("*", "+", "-"):
        a, b = _norm(f, e["c"][0], depth), _norm(f, e["c"][1], depth)
        if a is None or b is None:
            return None
        return {"*": a * b, "+": a + b, "-": a - b}[e["op"]]
    if k in ("CXXFunctionalCastExpr", "CStyleCastExpr", "CXXStaticCastExpr", "ParenExpr") and e.get("c"):
        return _norm(f, [c for c in e["c"] if isinstance(c, dict)][-1], depth)
    return None


def extent_rule(chk, db, rule_id):
    fns = [f for f in db.all_functions(FILES) if f.cls == TSG and not f.d.get("islambda")]
    byname = {}
    for f in fns:
        byname.setdefault(f.name, []).append(f)
    n = 0
    for name, group in sorted(byname.items()):
        for raw in group:
            ptrs = {p["did"]: p["name"] for p in raw.params() if p["t"].replace(" ", "") in ("double*", "double[]", "float*") and p.get("name")}
            if not ptrs:
                continue
            loops = []
            for q in raw.walk():
                if q.get("k") != "ForStmt" or q.get("cond") is None:
                    continue
                cond = strip(q["cond"])
                if cond is None or cond.get("k") != "BinaryOperator" or cond.get("op") != "<":
                    continue
                iv = strip(cond["c"][0])
                body = q.get("body")
                if iv is None or iv.get("k") != "DeclRefExpr" or body is None:
                    continue
                for w in [body] + list(walk(body)):
                    if w.get("k") == "CompoundAssignOperator":
                        lhs = strip(w["c"][0])
                        if lhs is not None and lhs.get("k") == "ArraySubscriptExpr":
                            b_, i_ = strip(lhs["c"][0]), strip(lhs["c"][1])
                            if b_ is not None and b_.get("did") in ptrs and i_ is not None and i_.get("k") == "DeclRefExpr" and i_.get("did") == iv.get("did"):
                                loops.append((q, cond["c"][1], ptrs[b_["did"]], b_["did"]))
                                break
            if not loops:
                continue
            # the extent the vector overloads give to the same buffer
            ext = []
            for sib in group:
                if sib is raw:
                    continue
                for c in sib.calls():
                    if (callee(c) or "") != raw.name or db.resolve(c) is not raw:
                        continue
                    for pos, a in enumerate(call_args(c)):
                        a0 = strip(a)
                        if a0 is None or a0.get("k") != "CXXMemberCallExpr" or short(callee(a0) or "") != "data":
                            continue
                        if pos >= len(raw.params()) or raw.params()[pos]["did"] not in [l[3] for l in loops]:
                            continue
                        vec = strip(call_object(a0))
                        vd = vec.get("did") if vec is not None else None
                        for r in sib.walk():
                            if r.get("k") == "CXXMemberCallExpr" and short(callee(r) or "") in ("resize", "assign") and (strip(call_object(r)) or {}).get("did") == vd and call_args(r):
                                ext.append((sib, raw.params()[pos]["did"], _norm(sib, call_args(r)[0])))
                        d = sib.locals().get(vd)
                        if d is not None:
                            for r in walk(d):
                                if r.get("k") == "CXXConstructExpr" and [x for x in r.get("c", []) if isinstance(x, dict)]:
                                    ext.append((sib, raw.params()[pos]["did"], _norm(sib, [x for x in r["c"] if isinstance(x, dict)][0])))
            for loop, bound, pname, pdid in loops:
                es = [e for s_, d_, e in ext if d_ == pdid and e is not None]
                if not es:
                    continue
                B = _norm(raw, bound)
                n += 1
                chk.saw(raw)
                ok = B is not None and all(sympy.simplify(B - e) == 0 for e in es)
                chk.ob(rule_id, raw.key + raw.sig, "in-place correction of %s[] @%d runs over %s" % (pname, loop.get("l", 0), B if B is not None else txt(bound)), ok, raw.loc(loop),
                       "the vector overload gives the buffer %s entries" % sorted(set(str(e) for e in es)), "the extent of the buffer")
    return n
