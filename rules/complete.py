"""The hierarchy-completeness flag that selects the Kronecker algorithm (shared by C01 / C03 / C04).

computeDAGup(mset, is_complete) looks up the parent of every point; when the parent is missing it climbs to the nearest ancestor that
exists (so that the DAG is usable) and reports the set as incomplete.  The sparse Kronecker algorithm in recomputeSurpluses() is
only valid on complete sets, so the flag has to be decided by the *direct* lookup: the test of a looked-up slot against -1 that raises
the failure flag must come before the fallback loop that overwrites that slot.
"""
from tsg.facts import strip, txt, walk, callee, short
from tsg.flow import is_reachable
from tsg.typestate import must_pass_before
from tsg.build import AnalysisBroken


def _neg1_tests(cond):
    """texts L of the comparisons `L == -1` inside cond"""
    out = []
    for q in [cond] + list(walk(cond)):
        if q.get("k") == "BinaryOperator" and q.get("op") == "==":
            a, b = strip(q["c"][0]), strip(q["c"][1])
            if b is not None and txt(b).replace(" ", "") in ("-1",):
                out.append(txt(a).replace(" ", ""))
    return out


def complete_rule(chk, db, rule_id):
    chk.rule(rule_id, "in computeDAGup(points, is_complete) every slot that a fallback loop re-assigns while it is -1 (climbing to the nearest existing ancestor) is tested against -1, "
                      "raising the failure flag, before that loop is entered on every path: `is_complete` is decided by the direct parent, a set with a missing parent never reaches the "
                      "Kronecker algorithm")
    n = 0
    for f in db.fns("TasGrid::HierarchyManipulations::computeDAGup", required=False):
        if not any("bool &" in p_.get("t", "") for p_ in f.params()):
            continue
        for w in f.walk():
            if w.get("k") != "WhileStmt" or w.get("cond") is None or not is_reachable(f, w.get("cond")):
                continue
            slots = _neg1_tests(w["cond"])
            if not slots:
                continue
            # the loop re-assigns the slot
            body_assigns = {txt(strip(q["c"][0])).replace(" ", "") for q in walk(w.get("body") or {}) if q.get("k") == "BinaryOperator" and q.get("op") == "="}
            for s in slots:
                if s not in body_assigns:
                    continue
                n += 1
                chk.saw(f)
                tests = []
                for a in f.walk():
                    if a.get("k") == "IfStmt" and a.get("cond") is not None and a.get("then") is not None and s in _neg1_tests(a["cond"]) and \
                            any(q.get("k") == "BinaryOperator" and q.get("op") == "=" and strip(q["c"][0]) is not None and strip(q["c"][0]).get("k") == "DeclRefExpr"
                                for q in [a["then"]] + list(walk(a["then"]))):
                        tests.append(a)
                hit_nodes = [x for a in tests for x in [a["cond"]] + list(walk(a["cond"]))]
                ok = bool(tests) and bool(must_pass_before(f, w["cond"], lambda nn: any(x is nn for x in hit_nodes)))
                chk.ob(rule_id, f.key, "slot `%s` tested before the fallback loop at line %d" % (s, w.get("l", 0)), ok, f.loc(w),
                       "" if ok else "the loop can replace a missing direct parent by an ancestor before the failure flag has seen it: an incomplete set is reported complete",
                       "`if (%s == -1) fail = 1;` on every path into the loop" % s)
    return n
