"""R-SIBLING: the work set of a grid is `points` when values are loaded and `needed` otherwise.

Every conditional expression in a grid class that selects between the members `points` and `needed` under a condition
over `points.empty()` / `needed.empty()` is evaluated for the four emptiness assignments and must select the loaded
points whenever there are any (this is what getNumPoints()/getPoints() and evaluate() use)."""
import itertools

from tsg.facts import strip, txt, callee, call_object, walk, short

CLASSES = ("TasGrid::GridGlobal", "TasGrid::GridSequence", "TasGrid::GridLocalPolynomial", "TasGrid::GridWavelet", "TasGrid::GridFourier", "TasGrid::BaseCanonicalGrid")


def _members(n):
    out = set()
    for q in walk(n):
        if q.get("k") == "MemberExpr" and q.get("field"):
            f = short(q["field"])
            if f in ("points", "needed"):
                out.add(f)
    return out


def _truth(cond, env):
    """evaluate a condition over the atoms points.empty()/needed.empty(); None if it contains anything else"""
    c = strip(cond)
    if c is None:
        return None
    k = c.get("k")
    if k == "UnaryOperator" and c.get("op") == "!":
        v = _truth(c["c"][0], env)
        return None if v is None else (not v)
    if k == "BinaryOperator" and c.get("op") in ("&&", "||"):
        a, b = _truth(c["c"][0], env), _truth(c["c"][1], env)
        if a is None or b is None:
            return None
        return (a and b) if c["op"] == "&&" else (a or b)
    if k == "CXXMemberCallExpr" and (callee(c) or "").endswith("::empty"):
        o = strip(call_object(c))
        if o is not None and o.get("k") == "MemberExpr" and short(o.get("field") or "") in env:
            return env[short(o["field"])]
    if k == "BinaryOperator" and c.get("op") in ("==", "!=", ">", "<=") and (callee(strip(c["c"][0])) or "").endswith("::getNumIndexes"):
        o = strip(call_object(strip(c["c"][0])))
        z = txt(strip(c["c"][1]))
        if o is not None and short(o.get("field") or "") in env and z == "0":
            e = env[short(o["field"])]
            return {"==": e, "<=": e, "!=": not e, ">": not e}[c["op"]]
    return None


def workset_rule(chk, db, rule_id, classes=CLASSES):
    n = 0
    for fns in db.load_all().values():
        for f in fns:
            if f.cls not in classes:
                continue
            for q in f.walk():
                if q.get("k") != "ConditionalOperator":
                    continue
                c = [x for x in q.get("c", []) if isinstance(x, dict)]
                if len(c) != 3:
                    continue
                a, b = _members(c[1]), _members(c[2])
                if not (len(a) == 1 and len(b) == 1 and a != b):
                    continue
                bad = []
                undecided = False
                for pe, ne in itertools.product((True, False), repeat=2):
                    t = _truth(c[0], {"points": pe, "needed": ne})
                    if t is None:
                        undecided = True
                        break
                    chosen = next(iter(a if t else b))
                    want = "needed" if pe else "points"
                    if chosen != want and not (pe and ne):
                        bad.append("points %s, needed %s: selects %s" % ("empty" if pe else "loaded", "empty" if ne else "pending", chosen))
                if undecided:
                    continue        # explicit mode switch (template parameter), not an emptiness-driven selection
                n += 1
                chk.saw(f)
                chk.ob(rule_id, f.key + f.sig, "work-set selection @%d `%s`" % (q.get("l", 0), txt(q)[:60]), not bad, f.loc(q), "; ".join(bad),
                       "the loaded points whenever there are any, the needed points otherwise")
    return n
