"""C06  write() then read() restores the complete observable state of a grid."""
from tsg.facts import DB, strip, txt, callee, call_args, call_object, walk, const_val, short, callee_node
from tsg.iotokens import Tokenizer, normalize, compare, render, field_in
from tsg.typestate import member_writes, member_of, must_pass_after
from tsg.flow import emptiness, is_reachable, cond_edges_dominating
from tsg.typestate import must_pass_before
from tsg.build import AnalysisBroken

GRIDS = ["Global", "Sequence", "LocalPolynomial", "Wavelet", "Fourier"]

# writer -> reader pairs (both i/o modes each).  reader spec: ("fn", qualified name) | ("ctor", class)
PAIRS = [("TasGrid::Grid%s::write" % g, ("fn", "TasGrid::GridReaderVersion5<TasGrid::Grid%s>::read" % g)) for g in GRIDS] + [
    ("TasGrid::MultiIndexSet::write", ("ctor", "TasGrid::MultiIndexSet")),
    ("TasGrid::StorageSet::write", ("ctor", "TasGrid::StorageSet")),
    ("TasGrid::CustomTabulated::write", ("fn", "TasGrid::CustomTabulated::read")),
    ("TasGrid::DynamicConstructorDataGlobal::write", ("ctor", "TasGrid::DynamicConstructorDataGlobal")),
    ("TasGrid::SimpleConstructData::write", ("ctor", "TasGrid::SimpleConstructData")),
    ("TasGrid::CompleteStorage::write", ("fn", "TasGrid::CompleteStorage::read")),
]
FIXED_MODE = {"TasGrid::CompleteStorage::write": "binary", "TasGrid::CompleteStorage::read": "binary"}

# members that are not stored but rebuilt by the reader from restored data (frozen, one reason each)
DERIVED = {
    "TasGrid::GridGlobal": {"wrapper": "rebuilt from rule/alpha/beta/custom and the largest level", "tensor_refs": "recomputeTensorRefs(points)",
                            "max_levels": None, "dynamic_values": "construction data section (separate pair)", "custom": None},
    "TasGrid::GridSequence": {"nodes": "prepareSequence()", "coeff": "prepareSequence()", "max_levels": "prepareSequence()", "dynamic_values": "construction data section"},
    "TasGrid::GridLocalPolynomial": {"dynamic_values": "construction data section", "sparse_affinity": "runtime tuning knob, reset to default"},
    "TasGrid::GridWavelet": {"rule1D": "updateOrder(order)", "inter_matrix": "cache rebuilt on demand", "dynamic_values": "construction data section"},
    "TasGrid::GridFourier": {"wrapper": "rebuilt from the largest level", "max_power": "getMaxIndexes(points)", "max_levels": None, "dynamic_values": "construction data section"},
    "TasGrid::BaseCanonicalGrid": {"acceleration": "not part of the file: supplied by the reading object"},
}


ASCII_BOOL = {}


def mode_of(fn):
    if fn.name in FIXED_MODE:
        return FIXED_MODE[fn.name]
    k = fn.key + fn.sig
    ta = fn.d.get("targs", "") + fn.d.get("cargs", "")
    if "mode_ascii_type" in k:
        return "ascii"
    if "mode_binary_type" in k:
        return "binary"
    if ta.split(",")[0] in ("true", "false") and ASCII_BOOL:
        return "ascii" if ta.split(",")[0] == ASCII_BOOL["ascii"] else "binary"
    return None


def run(chk):
    db = DB("serial")
    db.load_all()
    chk.rule("C06-D1.sequence", "writer and reader of every serialised class emit / consume the same nested sequence of (element type, data member) items, sections guarded by the same flag or value test, in both i/o modes")
    chk.rule("C06-D1.flag", "a section flag is written from the same condition that guards writing the section (after unifying non-emptiness tests)")
    chk.rule("C06-D2.coverage", "every non-mutable data member of a serialised class is written and restored, or is on the frozen list of state rebuilt by the reader (and then is assigned in the reader)")
    chk.rule("C06-D3.codec", "the rule <-> string and rule <-> int maps contain every TypeOneDRule enumerator exactly once, with distinct keys")
    chk.rule("C06-D4.tags", "every section tag written by writeAscii/writeBinary is one the reader tests for, and the members written under a tag are the members restored under it")
    chk.rule("C06-D5.rebuild", "readConstructionData of the tensor-based grids rebuilds the per-tensor point sets (reloadPoints) on every path; sibling readers agree on their unconditional call skeleton")
    chk.rule("C06-D6.precision", "every ascii writer of a class holding floating point data sets 17 significant digits before writing")

    # the value of the constexpr bool mode_ascii is read from the facts, not assumed
    for f in db.fns("TasGrid::GridGlobal::write"):
        for n in f.walk():
            if n.get("k") == "DeclRefExpr" and n.get("global") == "TasGrid::mode_ascii" and "cv" in n:
                ASCII_BOOL["ascii"] = "true" if n["cv"] != "0" else "false"
    if not ASCII_BOOL:
        raise AnalysisBroken("cannot determine the value of TasGrid::mode_ascii")

    # ------------------------------------------------------------------ D1
    npairs = 0
    written_members = {}
    read_members = {}
    for wname, (kind, rname) in PAIRS:
        wfns = [f for f in db.fns(wname, required=False) if mode_of(f) and any("ostream" in p["t"] for p in f.params())]
        if kind == "fn":
            rfns = [f for f in db.fns(rname, required=False) if mode_of(f)]
        else:
            rfns = [f for f in db.fns(rname + "::" + short(rname), required=False) if mode_of(f) and f.params() and "istream" in f.params()[0]["t"]]
        if not wfns or not rfns:
            raise AnalysisBroken("serialisation pair %s / %s: writer instantiations %d, reader instantiations %d" % (wname, rname, len(wfns), len(rfns)))
        for mode in ("ascii", "binary"):
            ws = [f for f in wfns if mode_of(f) == mode]
            rs = [f for f in rfns if mode_of(f) == mode]
            if not ws or not rs:
                chk.note("C06-D1.sequence", wname, "no %s instantiation of writer or reader in the analysed units" % mode)
                continue
            w, r = ws[0], rs[0]
            chk.saw(w)
            chk.saw(r)
            wt, wp = normalize(Tokenizer(db, "w").tokens_of_fn(w), "w")
            rt, rp = normalize(Tokenizer(db, "r").tokens_of_fn(r), "r")
            for kindp, where, msg in wp + rp:
                if kindp == "note":
                    chk.note("C06-D1.sequence", where, msg)
            wp = [x for x in wp if x[0] != "note"]
            for kindp, where, msg in wp:
                chk.ob("C06-D1.flag", w.key, "%s [%s]" % (msg[:80], mode), False, where, msg)
            diffs = compare(wt, rt)
            npairs += 1
            cls = w.cls or wname
            for t in _flat(wt):
                if t[0] in ("io", "obj") and t[2]:
                    written_members.setdefault(cls, set()).add(t[2])
            for t in _flat(rt):
                if t[0] in ("io", "obj") and t[2]:
                    read_members.setdefault(cls, set()).add(t[2])
            if not wt or not rt:
                raise AnalysisBroken("empty token sequence for %s (%s)" % (wname, mode))
            chk.ob("C06-D1.sequence", short(cls) + " [" + mode + "]", "%d writer items vs %d reader items" % (len(_flat(wt)), len(_flat(rt))) if False else "field sequence", not diffs,
                   w.where, "; ".join("%s (writer %s, reader %s)" % (m, a, b) for a, b, m in diffs[:3]) if diffs else "%d items agree" % len(_flat(wt)))
            if not wp:
                chk.ob("C06-D1.flag", w.key, "flags match their sections [%s]" % mode, True, w.where)
    chk.floor("C06-D1.sequence", npairs, 20, "writer/reader pairs x modes")

    # ------------------------------------------------------------------ D2
    ncov = 0
    for g in GRIDS:
        cls = "TasGrid::Grid" + g
        rec = db.record(cls)
        base = db.record("TasGrid::BaseCanonicalGrid")
        reader = [f for f in db.fns("TasGrid::GridReaderVersion5<%s>::read" % cls) if mode_of(f)]
        assigned = set()
        for f in reader:
            for n in f.walk():
                if n.get("k") in ("CXXOperatorCallExpr", "BinaryOperator") and n.get("op") == "=":
                    lhs = n["c"][1] if n.get("k") == "CXXOperatorCallExpr" else n["c"][0]
                    fl = field_in(lhs, f)
                    if fl:
                        assigned.add(fl)
                if n.get("k") == "CXXMemberCallExpr":
                    o = call_object(n)
                    h = callee_node(n)
                    if o is not None and h is not None and not h.get("cm"):
                        fo = field_in(o, f)
                        if fo and strip(o).get("k") == "MemberExpr":
                            assigned.add(fo)      # non-const method on the member itself (rule1D.updateOrder(...))
                        t = db.resolve(n)
                        if t is not None and t.cls == cls:
                            for _, fld, _k in member_writes(t):
                                assigned.add(short(fld))
        for fld in rec["fields"] + base["fields"]:
            if fld["mutable"]:
                continue
            name = fld["name"]
            owner = cls if fld in rec["fields"] else "TasGrid::BaseCanonicalGrid"
            ncov += 1
            w_ok = name in written_members.get(cls, set())
            r_ok = name in read_members.get(cls, set())
            der = DERIVED.get(owner, {}).get(name, "absent") if name in DERIVED.get(owner, {}) else DERIVED.get(cls, {}).get(name, "absent")
            if w_ok and r_ok:
                chk.ob("C06-D2.coverage", short(cls), name, True, "%s:%d" % (rec["file"], fld["l"]), "written and read")
            elif der != "absent" and der is not None:
                ok = name in assigned or name == "acceleration" or "construction data" in der
                chk.ob("C06-D2.coverage", short(cls), name, ok, "%s:%d" % (rec["file"], fld["l"]), "derived: %s%s" % (der, "" if ok else " - but never assigned in the reader"))
            else:
                chk.ob("C06-D2.coverage", short(cls), name, False, "%s:%d" % (rec["file"], fld["l"]),
                       "member is %s and %s, and is not on the derived list" % ("written" if w_ok else "NOT written", "read" if r_ok else "NOT read"))
    chk.floor("C06-D2.coverage", ncov, 50, "data members of the grid classes")
    # plain classes: all members written+read
    for cls in ("TasGrid::MultiIndexSet", "TasGrid::StorageSet", "TasGrid::CustomTabulated", "TasGrid::SimpleConstructData"):
        rec = db.record(cls)
        for fld in rec["fields"]:
            if fld["mutable"]:
                continue
            name = fld["name"]
            ok = name in written_members.get(cls, set()) and name in read_members.get(cls, set())
            chk.ob("C06-D2.coverage", short(cls), name, ok, "%s:%d" % (rec["file"], fld["l"]),
                   "written: %s, read: %s" % (name in written_members.get(cls, set()), name in read_members.get(cls, set())))

    # ------------------------------------------------------------------ D3 codecs
    en = [v["name"] for v in db.enum("TasGrid::TypeOneDRule")["values"]]
    for mapfn in ("TasGrid::IO::getStringRuleMap", "TasGrid::IO::getIntRuleMap"):
        fns = db.fns(mapfn)
        fn = fns[0]
        chk.saw(fn)
        pairs = []
        for n in fn.walk():
            if n.get("k") == "CXXConstructExpr" and "pair" in n.get("ctor", "") and len(n.get("c", [])) == 2:
                key = [x.get("val") for x in walk(n["c"][0]) if x.get("k") == "StringLiteral"]
                en_c = [x for x in walk(n["c"][1]) if x.get("k") == "DeclRefExpr" and "enumc" in x]
                if key and en_c:
                    pairs.append((key[0], short(en_c[0]["enumc"])))
            if n.get("k") == "InitListExpr" and mapfn.endswith("IntRuleMap"):
                ens = [strip(c) for c in n.get("c", [])]
                if ens and all(e is not None and "enumc" in e for e in ens) and len(ens) > 5:
                    pairs = [(str(i), short(e["enumc"])) for i, e in enumerate(ens)]
        pairs = list(dict.fromkeys(pairs))
        keys = [p[0] for p in pairs]
        vals = [p[1] for p in pairs]
        chk.floor("C06-D3.codec", len(pairs), 30, "entries of " + mapfn)
        missing = [e for e in en if e not in vals]
        dupk = sorted({k for k in keys if keys.count(k) > 1})
        dupv = sorted({v for v in vals if vals.count(v) > 1})
        chk.ob("C06-D3.codec", mapfn, "every enumerator has a code", not missing, fn.where, "missing: %s" % missing if missing else "%d enumerators" % len(en))
        chk.ob("C06-D3.codec", mapfn, "codes are unique", not dupk and not dupv, fn.where, "duplicate keys %s duplicate rules %s" % (dupk, dupv))

    # ------------------------------------------------------------------ D4 top-level tags
    TSG = "TasGrid::TasmanianSparseGrid"
    for wn, rn in (("writeAscii", "readAscii"), ("writeBinary", "readBinary")):
        w = db.fn(TSG + "::" + wn)
        r = db.fn(TSG + "::" + rn)
        chk.saw(w)
        chk.saw(r)
        lit = "StringLiteral" if wn == "writeAscii" else "CharacterLiteral"

        def lits(fn, only_written=False):
            out = []
            for n in fn.walk():
                if n.get("k") == lit:
                    v = n.get("val")
                    if lit == "CharacterLiteral":
                        v = chr(int(v))
                    out.append((v.strip() if isinstance(v, str) else v, n))
            return out
        wl = [(v, n) for v, n in lits(w) if v and not v.startswith(("TASMANIAN", "WARNING", "TSG")) and v not in (" ",)]
        rl = {v for v, n in lits(r)}
        nt = 0
        for v, n in wl:
            if lit == "StringLiteral" and (len(v) < 4 or " " in v):
                continue
            nt += 1
            chk.ob("C06-D4.tags", wn, "tag %r is recognised by %s" % (v, rn), v in rl, w.loc(n))
        chk.floor("C06-D4.tags", nt, 10, "section tags in " + wn)
        # members per tagged section: writer side member set under each if-branch == reader side
        # which local of the reader is committed into which member (member = local / std::move(local)): the locals are recognised by this role, not by a naming convention
        commit_of = {}
        for n in r.walk():
            if n.get("k") in ("CXXOperatorCallExpr", "BinaryOperator") and n.get("op") == "=":
                lhs = n["c"][1] if n.get("k") == "CXXOperatorCallExpr" else n["c"][0]
                rhs = n["c"][2] if n.get("k") == "CXXOperatorCallExpr" else n["c"][1]
                fld = field_in(lhs, None)
                if fld and strip(lhs).get("k") == "MemberExpr":
                    for x in [rhs] + list(walk(rhs)):
                        if x.get("k") == "DeclRefExpr" and x.get("did") in r.locals():
                            commit_of.setdefault(x["var"], fld)
                            break

        def sections(fn, side):
            res = {}
            for iff in walk(fn.body, into_lambda=True):
                if iff.get("k") != "IfStmt":
                    continue
                for br in ("then", "else"):
                    b = iff.get(br)
                    if b is None or b.get("k") == "IfStmt":
                        continue
                    tags = []
                    for n in walk(b):
                        if n.get("k") == lit and side == "w":
                            v = n.get("val")
                            tags.append(chr(int(v)) if lit == "CharacterLiteral" else v.strip())
                    if side == "r":
                        for n in walk(iff.get("cond")):
                            if n.get("k") == lit:
                                v = n.get("val")
                                tags.append(chr(int(v)) if lit == "CharacterLiteral" else v.strip())
                        if br == "else":
                            continue
                    mem = set()
                    for n in walk(b):
                        if side == "w":
                            if n.get("k") == "MemberExpr" and "field" in n and n["field"].startswith(TSG + "::"):
                                mem.add(short(n["field"]))
                        else:
                            if n.get("k") == "DeclRefExpr" and n.get("var") in commit_of:
                                mem.add(commit_of[n["var"]])
                    mem -= {"base", "acceleration"}
                    for t in tags[:1]:
                        if mem:
                            res.setdefault(t, set()).update(mem)
            return res
        ws, rs = sections(w, "w"), sections(r, "r")
        for tag, mem in sorted(ws.items()):
            if tag in rs:
                rm = rs[tag] - {"base"}
                chk.ob("C06-D4.tags", wn, "members under tag %r" % tag, mem <= rm | {"base"} and (rm <= mem or not rm), w.where, "writer %s, reader %s" % (sorted(mem), sorted(rm)))
        # the reader commits every restored local into its member
        commits = {}
        for n in r.walk():
            if n.get("k") in ("CXXOperatorCallExpr", "BinaryOperator") and n.get("op") == "=":
                lhs = n["c"][1] if n.get("k") == "CXXOperatorCallExpr" else n["c"][0]
                rhs = n["c"][2] if n.get("k") == "CXXOperatorCallExpr" else n["c"][1]
                f = field_in(lhs, None)
                if f and strip(lhs).get("k") == "MemberExpr":
                    vs = [x.get("var") for x in [rhs] + list(walk(rhs)) if x.get("k") == "DeclRefExpr" and x.get("did") in r.locals()]
                    if vs:
                        commits[f] = vs[0]
        for f in ("base", "domain_transform_a", "domain_transform_b", "conformal_asin_power", "llimits", "using_dynamic_construction"):
            # the member takes a local of the reader, and no other member takes the same local
            src_ = commits.get(f)
            chk.ob("C06-D4.tags", rn, "restored %s committed to the member" % f, src_ is not None and [m for m, v in commits.items() if v == src_] == [f], r.where, "commits: %s" % src_)

    # ------------------------------------------------------------------ D5 rebuild of derived construction data
    skel = {}
    for g in ("Global", "Fourier"):
        fn = db.fn("TasGrid::Grid%s::readConstructionData" % g)
        chk.saw(fn)
        reloads = [c for c in fn.calls("TasGrid::DynamicConstructorDataGlobal::reloadPoints")]
        ok = len(reloads) == 1
        detail = "%d reloadPoints call(s)" % len(reloads)
        if ok:
            edges = [(txt(strip(c)), t) for c, t in cond_edges_dominating(fn, reloads[0])]
            edges = [e for e in edges if "iomode" not in e[0]]
            ok = not edges
            detail = "unconditional" if ok else "only executed under %s: restored tensors keep empty point sets otherwise" % edges
        chk.ob("C06-D5.rebuild", fn.key, "reloadPoints runs on every path", ok, fn.loc(reloads[0]) if reloads else fn.where, detail)
        sk = []
        for c in fn.calls():
            cal = callee(c) or ""
            if cal.startswith("std::") or "operator" in cal:
                continue
            e = [x for x in cond_edges_dominating(fn, c) if "iomode" not in txt(x[0])]
            sk.append((short(cal), "conditional" if e else "always"))
        skel[g] = sk
    a = [x for x in skel["Global"] if x[0] in ("reloadPoints", "getMaxTensor", "getNumLevels")]
    b = [x for x in skel["Fourier"] if x[0] in ("reloadPoints", "getMaxTensor", "getNumLevels")]
    chk.ob("C06-D5.rebuild", "GridGlobal/GridFourier::readConstructionData", "sibling call skeletons agree", a == b, "", "Global %s vs Fourier %s" % (a, b))
    # derived state in the grid readers must be rebuilt unconditionally: the frozen rebuild calls
    REBUILD = {"Global": ["recomputeTensorRefs"], "Sequence": ["prepareSequence"], "Wavelet": ["updateOrder"], "Fourier": ["getMaxIndexes"], "LocalPolynomial": []}
    for g, calls in REBUILD.items():
        for f in [x for x in db.fns("TasGrid::GridReaderVersion5<TasGrid::Grid%s>::read" % g) if mode_of(x)]:
            for cn in calls:
                cs = [c for c in f.calls() if (callee(c) or "").endswith("::" + cn)]
                ok = bool(cs) and any(not cond_edges_dominating(f, c) for c in cs)
                chk.ob("C06-D5.rebuild", f.key, "%s rebuilds derived state unconditionally" % cn, ok, f.where, "%d call(s)" % len(cs))

    # ------------------------------------------------------------------ D7 lost updates in restore paths
    chk.rule("C06-D7.lostwrite", "no range-for loop iterates by value over a container of class objects and then writes to the loop variable (the update would be lost on a copy); "
                                 "this is how restored construction data rebuild their per-tensor state")
    from tsg.flow import element_writes
    nloops = 0
    for fns in db.load_all().values():
        for fn in fns:
            if fn.file.startswith("@verif") or "/test" in fn.file or fn.file.startswith("Addons/test"):
                continue
            for st in fn.walk():
                if st.get("k") == "CXXForRangeStmt" and st.get("lv"):
                    nloops += 1
                    lv = st["lv"]
                    t = lv.get("t", "")
                    if "&" in t or "*" in t or "iterator" in t:
                        continue
                    ws = [x for x in walk(st.get("body")) for d, kd, _ in element_writes(x) if d == lv["did"] and kd in ("partial", "update")]
                    if ws:
                        chk.saw(fn)
                    for wn in ws[:1]:
                        chk.ob("C06-D7.lostwrite", fn.key, "for(%s %s : %s)" % (t, lv.get("name"), txt(st.get("range"))[:40]), False, fn.loc(st),
                               "`%s` modifies a copy of the element; the container keeps its old state" % txt(wn)[:60], "bind the loop variable by reference")
    chk.floor("C06-D7.lostwrite", nloops, 200, "range-for loops examined")
    chk.ob("C06-D7.lostwrite", "(library)", "%d range-for loops: none writes to a by-value loop variable" % nloops, True, "")

    # ------------------------------------------------------------------ D8 order of serialised lists
    chk.rule("C06-D8.listorder", "a std::forward_list restored with emplace_front / push_front comes back reversed, so its writer must emit the elements in reverse (through makeReverseReferenceVector); "
                                 "per element type the writer's direction equals the reader's (the list order decides ties in the candidate ordering and the bytes of a second write)")
    import re
    readers_dir, writers_dir = {}, {}
    for fn in db.all_functions(["SparseGrids/tsgDConstructGridGlobal.hpp", "SparseGrids/tsgDConstructGridGlobal.cpp"]):
        ios = [c for c in fn.calls() if (callee(c) or "").startswith("TasGrid::IO::")]
        if not ios:
            continue
        is_reader = any(short(callee(c) or "").startswith("read") for c in ios)
        is_writer = any(short(callee(c) or "").startswith("write") for c in ios)
        if is_reader:
            for c in fn.calls():
                cal = callee(c) or ""
                m = re.match(r"std::forward_list<(.*)>::(emplace_front|push_front|emplace_after|insert_after)$", cal)
                if m and any(a.get("k") in ("ForStmt", "WhileStmt", "CXXForRangeStmt") for a in fn.ancestors(c)):
                    readers_dir.setdefault(short(m.group(1)), []).append((fn, c, "reversing" if m.group(2).endswith("front") else "keeping"))
        if is_writer:
            for st in fn.walk():
                if st.get("k") != "CXXForRangeStmt" or st.get("range") is None:
                    continue
                if not any((callee(x) or "").startswith("TasGrid::IO::write") for x in walk(st.get("body"))):
                    continue
                rng = strip(st["range"])
                rt = rng.get("t", "") or ""
                lvt = (st.get("lv") or {}).get("t", "")
                me = re.search(r"(TensorData|NodeData)", lvt)
                elem, direction = (me.group(1) if me else None), "unknown"
                m = re.search(r"forward_list<([^<>]*(?:<[^<>]*>)?[^<>]*)>", rt)
                if m:
                    elem, direction = short(m.group(1).strip()), "forward"
                else:
                    # a vector of references produced by makeReverseReferenceVector(list)
                    src = None
                    if rng.get("k") == "DeclRefExpr" and rng.get("did") is not None:
                        d = next((v for v in fn.locals().values() if v.get("did") == rng["did"]), None)
                        ini = [c for c in (d or {}).get("c", []) if isinstance(c, dict)]
                        src = strip(ini[0]) if ini else None
                    elif rng.get("k") == "CallExpr":
                        src = rng
                    if src is not None and src.get("k") == "CallExpr" and (callee(src) or "").endswith("makeReverseReferenceVector"):
                        at = (strip(call_args(src)[0]) or {}).get("t", "")
                        m2 = re.search(r"forward_list<([^<>]*(?:<[^<>]*>)?[^<>]*)>", at)
                        if m2:
                            elem, direction = short(m2.group(1).strip()), "reversed"
                if elem:
                    writers_dir.setdefault(elem, []).append((fn, st, direction))
    nlist = 0
    for elem in sorted(set(readers_dir) | set(writers_dir)):
        rs, wsd = readers_dir.get(elem, []), writers_dir.get(elem, [])
        if not rs or not wsd:
            continue
        for fn, st, direction in wsd:
            nlist += 1
            chk.saw(fn)
            rdir = {d for _, _, d in rs}
            ok = direction != "unknown" and (direction == "reversed") == (rdir == {"reversing"}) and len(rdir) == 1
            chk.ob("C06-D8.listorder", fn.key, "list of %s written %s, restored by %s" % (elem, direction, "/".join(sorted(rdir))), ok, fn.loc(st),
                   "" if ok else "the order in which the writer walks the list cannot be established" if direction == "unknown" else "after write + read the list is in the opposite order: ties between equally weighted tensors are broken differently and a second write differs",
                   "reverse on exactly one side")
    chk.floor("C06-D8.listorder", nlist, 2, "serialised forward_list element types (both modes)")

    # ------------------------------------------------------------------ D5b order of configuration and rebuild
    chk.rule("C06-D5.order", "a reader configures the one dimensional rule of the restored grid (updateOrder with the restored order) before it rebuilds anything that is computed from that "
                             "rule (interpolation matrix, coefficients): a cache built with the default rule survives until the next load because its size still matches")
    nord = 0
    for rd in [f for fs_ in db.load_all().values() for f in fs_ if "GridReaderVersion5" in f.key and short(f.name) == "read"]:
        cfgs = [c for c in rd.calls() if (callee(c) or "").endswith("::updateOrder")]
        builds = [c for c in rd.calls() if (callee(c) or "").endswith(("::buildInterpolationMatrix", "::recomputeCoefficients"))]
        if not cfgs and not builds:
            continue
        for b in builds:
            nord += 1
            chk.saw(rd)
            ok = bool(cfgs) and bool(must_pass_before(rd, b, lambda x: any(x is c for c in cfgs)))
            chk.ob("C06-D5.order", rd.key, "%s runs after the rule is configured" % short(callee(b)), ok, rd.loc(b),
                   "" if ok else "the rebuild uses the rule of the default order: weight queries on the restored grid use a matrix of another basis until values are loaded again")
    chk.floor("C06-D5.order", nord, 2, "rebuild calls in readers that also configure the rule")

    # ------------------------------------------------------------------ D9 counts the reader assumes
    chk.rule("C06-D9.counts", "a 2-D member that the reader restores with a strip count taken from the restored points is written only when it holds exactly that many strips: "
                              "coefficient arrays are kept at one strip per loaded point by the recompute discipline (C01-D1); any other member (a lazily invalidated cache) "
                              "must be written under a guard that compares its strip count with the number of points; the I/O primitives never touch element 0 of an empty vector")
    COEFF = {"surpluses": "one strip per loaded point (C01-D1: every change of the point set is followed by a recompute / assignment)",
             "coefficients": "one strip per loaded point (C01-D1)", "fourier_coefs": "two blocks of one strip per loaded point (C01-D1)"}
    ncount = 0
    for rd in [f for fs_ in db.load_all().values() for f in fs_ if "GridReaderVersion5" in f.key and short(f.name) == "read"]:
        for q in rd.walk():
            if q.get("k") not in ("BinaryOperator", "CXXOperatorCallExpr") or q.get("op") != "=":
                continue
            ch = [c for c in q.get("c", []) if isinstance(c, dict)]
            call = next((x for x in walk(ch[-1]) if (callee(x) or "").endswith("IO::readData2D")), None)
            if call is None:
                continue
            lhs = strip(ch[-2])
            mem = short(lhs.get("field") or "") if lhs is not None and lhs.get("k") == "MemberExpr" else None
            cnt = call_args(call)[2]
            if mem is None or not any((callee(x) or "").endswith("::getNumIndexes") for x in walk(cnt)):
                continue
            ncount += 1
            chk.saw(rd)
            if mem in COEFF:
                chk.ob("C06-D9.counts", rd.key, "%s restored with %s strips" % (mem, txt(strip(cnt))), True, rd.loc(q), "invariant: " + COEFF[mem])
                continue
            # the writer of the same class
            cls = rd.key.split("GridReaderVersion5<")[1].split(">")[0]
            ok, detail = False, "no writer found"
            for w in [f for f in db.fns(cls + "::write", required=False)]:
                for c in w.calls():
                    if (callee(c) or "").endswith("::writeVector") and short((strip(call_object(c)) or {}).get("field") or "") == mem:
                        conds = [strip(e) for e, tr in cond_edges_dominating(w, c) if tr]
                        exprs = list(conds)
                        for e in conds:
                            if e is not None and e.get("k") == "DeclRefExpr":
                                d = next((v for v in w.locals().values() if v.get("did") == e.get("did")), None)
                                exprs += [x for x in (d or {}).get("c", []) if isinstance(x, dict)]
                        eq = [x for e in exprs for x in walk(e) if x.get("k") == "BinaryOperator" and x.get("op") == "==" and
                              any((callee(y) or "").endswith("::getNumStrips") and short((strip(call_object(y)) or {}).get("field") or "") == mem for y in walk(x)) and
                              any((callee(y) or "").endswith("::getNumIndexes") for y in walk(x))]
                        ok = bool(eq)
                        detail = "written under `%s`" % (txt(eq[0]) if eq else " && ".join(txt(e) for e in conds)[:100])
            chk.ob("C06-D9.counts", rd.key, "%s restored with %s strips" % (mem, txt(strip(cnt))), ok, rd.loc(q), detail, "writer guard: %s.getNumStrips() == number of points" % mem)
    chk.floor("C06-D9.counts", ncount, 6, "2-D members restored with a count taken from the points")
    for f in db.all_functions(["SparseGrids/tsgIOHelpers.hpp"]):
        if not short(f.name).startswith("write"):
            continue
        for q in f.walk():
            el = None
            if q.get("k") == "CXXOperatorCallExpr" and q.get("op") == "[]":
                ch = [c for c in q.get("c", []) if isinstance(c, dict)]
                if const_val(strip(ch[-1])) == 0 and "std::vector" in ((strip(ch[-2]) or {}).get("t") or ""):
                    el = (q, strip(ch[-2]))
            if el is None or not is_reachable(f, q):
                continue
            chk.saw(f)
            nm = txt(el[1])
            guards = [(txt(strip(e)).replace(" ", ""), tr) for e, tr in cond_edges_dominating(f, q)]
            ok = False
            for e_, tr_ in cond_edges_dominating(f, q):
                em_ = emptiness(e_)
                # on this edge the vector is known not to be empty
                if em_ is not None and em_[0] == nm and em_[1] == (not tr_):
                    ok = True
            chk.ob("C06-D9.counts", f.key, "element 0 of `%s` read only when the vector is not empty" % nm, ok, f.loc(q), "guards %s" % guards[:3])

    # ------------------------------------------------------------------ D6 precision
    nprec = 0
    for wname, _ in PAIRS:
        for f in db.fns(wname, required=False):
            if mode_of(f) != "ascii" or f.cls in ("TasGrid::StorageSet", "TasGrid::MultiIndexSet"):
                continue        # nested containers inherit the stream state set by the enclosing writer
            toks, _p = normalize(Tokenizer(db, "w").tokens_of_fn(f), "w")
            has_double = any(t[0] == "io" and t[1] and "double" in t[1] for t in _flat(toks)) or wname.endswith("CustomTabulated::write")
            if not has_double:
                continue
            nprec += 1
            chk.saw(f)
            prec = [c for c in f.calls() if (callee(c) or "") == "std::ios_base::precision" and const_val(call_args(c)[0]) == 17]
            if not prec:
                # helpers inlined by the tokenizer may set it
                for c in f.calls():
                    t = db.resolve(c)
                    if t is not None and any((callee(x) or "") == "std::ios_base::precision" and const_val(call_args(x)[0]) == 17 for x in t.calls()):
                        prec.append(c)
            chk.ob("C06-D6.precision", f.key, "precision(17) before doubles are written", bool(prec), f.where)
            # ... and before the FIRST floating point number: every call of the writer that takes a double (or a container of doubles, or writes a member that holds them)
            # is preceded by the precision call on every path
            if prec:
                from tsg.typestate import must_pass_before as _mpb
                dbl = []
                for c in f.calls(into_lambda=False):
                    cal = callee(c) or ""
                    if not (short(cal).startswith(("writeNumbers", "writeVector", "write")) or (c.get("k") == "CXXOperatorCallExpr" and c.get("op") == "<<")):
                        continue
                    if any(x is c for pc in prec for x in walk(pc)) or c in prec:
                        continue
                    ts = [(a.get("t") or "") for a in call_args(c)] + ([(call_object(c) or {}).get("t") or ""] if c.get("k") == "CXXMemberCallExpr" and call_object(c) is not None else [])
                    if any(("double" in t_ and "ostream" not in t_) or "StorageSet" in t_ for t_ in ts):
                        dbl.append(c)
                late = [c for c in dbl if is_reachable(f, c) and not _mpb(f, c, lambda n_: any(x is n_ for x in prec))]
                chk.ob("C06-D6.precision", f.key, "no floating point field is written before precision(17) is set", not late, f.loc(late[0]) if late else f.where,
                       "" if not late else "`%s` is written with the default 6 digits of the stream" % txt(late[0])[:60])
    chk.floor("C06-D6.precision", nprec, 6, "ascii writers with floating point fields")

    # ------------------------------------------------------------------ D10 members stored under one emptiness test are set together
    chk.rule("C06-D10.group", "the writer of the Global and Fourier grids stores the updated tensors, their active tensors and weights under the emptiness test of one member: every method that sets "
                              "that member returns with the other two set as well, otherwise the grid writes a section that its reader rejects (the return obligations of C14-D12)")
    from tsg.report import Check
    from rules import c14
    sub = Check("C14", chk.tier, chk.seed)
    c14.run(sub)
    chk.absorb(sub)
    ng = 0
    for o in sub.obls:
        if o["rule"] == "C14-D12.group" and "stored together" in o["construct"]:
            ng += 1
            chk.ob("C06-D10.group", o["function"], o["construct"], o["ok"], o["where"], o["detail"], o["expected"])
    chk.floor("C06-D10.group", ng, 4, "methods that set the member tested by the writer")

    # ------------------------------------------------------------------ D13 per-dimension members rebuilt from a point set that may be empty
    chk.rule("C06-D13.perdim", "a reader that rebuilds a per-dimension member with getMaxIndexes(loaded-or-needed points) does so only where one of the two sets is known to be non-empty: "
                               "for a grid written in the middle of a construction both can be empty, getMaxIndexes() of an empty set has no entries and every later `member[j]` "
                               "with j < num_dimensions reads past the end")
    npd = 0
    for rd in [f for fs_ in db.load_all().values() for f in fs_ if "GridReaderVersion5" in f.key and short(f.name) == "read"]:
        for c in rd.calls():
            if short(callee(c) or "") != "getMaxIndexes" or not is_reachable(rd, c) or not call_args(c):
                continue
            a = strip(call_args(c)[0])
            while a is not None and a.get("k") == "ParenExpr":
                a = strip(a["c"][0])
            if a is None or a.get("k") != "ConditionalOperator":
                continue
            npd += 1
            chk.saw(rd)
            branches = [txt(strip(x)).split("->")[-1] for x in a.get("c", [])[1:3]] if len(a.get("c", [])) >= 3 else []
            sel = txt(strip(a.get("cond") or a["c"][0]))
            other = [b for b in branches if b and (b + ".empty()") not in sel.replace("grid->", "")]
            ok = False
            for cn, tr in cond_edges_dominating(rd, c):
                t = txt(strip(cn)).replace("grid->", "")
                if any((o + ".empty()") in t for o in other):
                    ok = True
            # the false edge of `P.empty() and N.empty()` cannot be split into edge facts: look at the enclosing if statements as a whole
            prev = c
            for anc in rd.ancestors(c):
                if anc.get("k") == "IfStmt" and anc.get("cond") is not None:
                    t = txt(strip(anc["cond"])).replace("grid->", "")
                    in_else = anc.get("else") is not None and any(x is c for x in walk(anc["else"]))
                    if in_else and all((o + ".empty()") in t for o in other) and "||" not in t and " or " not in t:
                        ok = True
                prev = anc
            chk.ob("C06-D13.perdim", rd.key, "getMaxIndexes(%s) only where the selected set cannot be empty" % txt(a)[:50], ok, rd.loc(c),
                   "" if ok else "no test of `%s.empty()` dominates this call: when both sets are empty the member gets zero entries" % (other[0] if other else "?"))
    chk.floor("C06-D13.perdim", npd, 1, "per-dimension members rebuilt by a reader from a selected point set")

    from rules import seqnodes
    nsq = seqnodes.seqnodes_rule(chk, db, "C06-D12.nodes")
    chk.floor("C06-D12.nodes", nsq, 2, "index sets converted to coordinates in GridSequence")

    from rules import header
    nh = header.header_rule(chk, db, "C06-D11.header")
    chk.floor("C06-D11.header", nh, 2, "header numbers that size a vector in the reader")
    nac = header.accepts_rule(chk, db, "C06-D15.accepts")
    chk.floor("C06-D15.accepts", nac, 10, "rejections in the top-level readers")
    nsr = header.sequenced_reads_rule(chk, db, "C06-D14.sequenced", [f_ for f_ in db.files() if f_.startswith(("SparseGrids/", "Addons/")) and "test" not in f_.lower()])
    chk.floor("C06-D14.sequenced", nsr, 5, "calls with a stream read among their arguments")

    return ("Static rule discharge: every writer/reader pair (5 grid classes, index/storage sets, custom tabulated rule, both kinds of construction data, the addon sample storage) "
            "is linearised into a nested token sequence of (element type, data member) per i/o mode, template-constant branches folded, and the two sequences compared item by item; "
            "member coverage, enum codecs, top-level section tags and the unconditional rebuild of derived state are checked on the AST. Byte equality of a second write and the "
            "17-digit round trip of doubles follow from these only under the assumption that the stream primitives are mutual inverses; that numerical part is not decided.")


def _flat(toks):
    out = []
    for t in toks:
        if t[0] == "if":
            out += _flat(t[2]) + _flat(t[3])
        elif t[0] == "loop":
            out += _flat(t[1])
        else:
            out.append(t)
    return out
