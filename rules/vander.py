"""Parallel-array agreement of the sparse 1-D Vandermonde pattern (RuleLocal::van_matrix).

The Kronecker surplus algorithm solves with a CSR matrix whose column indexes (indx) and values (vals) are appended by
separate statements.  The entry in column J of the row of node r must be basis J at node r.  The rule pairs the appends
to the two arrays statement by statement inside every reachable block of every instantiation and requires
  * the same number of entries from both sides (symbolic count),
  * value evalRaw<rule>(max_order, J', x) paired with column J == J', x = getNode<rule>(row),
  * literal 1.0 only on the diagonal, on tabulated rows, or where basis J is identically one,
  * range insertions of (ancestors, ancestors_vals) traversed in the same direction, and the two helper arrays filled
    in lock-step with the same basis index.
Shared by C01 (surpluses are what makes the interpolant reproduce the values) and C03."""
import sympy

from tsg.facts import strip, txt, callee, call_args, call_object, walk, const_val, short
from tsg.flow import is_reachable
from tsg.peval import PEval
from tsg.sym import NotClosedForm
from tsg.build import AnalysisBroken

RL = "TasGrid::RuleLocal::"
HPP = "SparseGrids/tsgRuleLocalPolynomial.hpp"
X = sympy.Symbol("x", real=True)


def _flatten(stmts):
    out = []
    for s in stmts:
        if not isinstance(s, dict):
            continue
        if s.get("k") in ("CaseStmt", "DefaultStmt"):
            out.append({"k": "_label"})
            if isinstance(s.get("sub"), dict):
                out.extend(_flatten([s["sub"]]))
        elif s.get("k") == "BreakStmt":
            out.append({"k": "_label"})
        else:
            out.append(s)
    return out


def _append_of(fn, s):
    """(array, kind, payload, count) if statement s appends to a vector, else None"""
    s0 = strip(s)
    if s0 is None:
        return None
    k = s0.get("k")
    if k == "CXXMemberCallExpr":
        cal = callee(s0) or ""
        obj = txt(strip(call_object(s0)) or {})
        args = call_args(s0)
        if cal.endswith("::push_back") or cal.endswith("::emplace_back"):
            return (obj, "push", strip(args[0]), sympy.Integer(1))
        if cal.endswith("::insert") and len(args) == 3:
            b, e = strip(args[1]), strip(args[2])
            cb, ce = short(callee(b) or ""), short(callee(e) or "")
            src = txt(strip(call_object(b)) or {})
            if (cb, ce) in (("rbegin", "rend"), ("begin", "end"), ("crbegin", "crend"), ("cbegin", "cend")) and src == txt(strip(call_object(e)) or {}):
                return (obj, "range", (src, "reverse" if cb.endswith("rbegin") else "forward"), sympy.Symbol("len_" + src.replace("_vals", ""), integer=True, nonnegative=True))
            return (obj, "opaque", txt(s0), None)
        return None
    if k == "CXXOperatorCallExpr" and s0.get("op") == "=":
        ch = [c for c in s0.get("c", []) if isinstance(c, dict)]
        lhs = txt(strip(ch[1])) if len(ch) > 2 else txt(strip(ch[0]))
        rhs = ch[-1]
        items = None
        for q in walk(rhs):
            if q.get("k") == "InitListExpr":
                items = [c for c in q.get("c", []) if isinstance(c, dict)]
                break
        if items is not None:
            return (lhs, "table", items, sympy.Integer(len(items)))
        return None
    if k == "ForStmt":
        body = s0.get("body")
        inner = _flatten([c for c in body.get("c", []) if isinstance(c, dict)]) if body and body.get("k") == "CompoundStmt" else ([body] if body else [])
        if len(inner) == 1:
            a = _append_of(fn, inner[0])
            if a and a[1] == "push":
                # trip count: for (T i = 0; i < N; i++)
                cond = strip(s0.get("cond")) if s0.get("cond") else None
                n = None
                if cond and cond.get("k") == "BinaryOperator" and cond.get("op") == "<":
                    t = txt(strip(cond["c"][1])).replace(" ", "")
                    try:
                        n = sympy.sympify(t.replace("ancestors.size()", "len_ancestors").replace("(size_t)", ""), locals={"len_ancestors": sympy.Symbol("len_ancestors", integer=True, nonnegative=True)})
                    except Exception:
                        n = None
                return (a[0], "loop", a[2], n)
        return None
    if k == "CXXForRangeStmt":
        body = s0.get("body")
        inner = _flatten([c for c in body.get("c", []) if isinstance(c, dict)]) if body and body.get("k") == "CompoundStmt" else ([body] if body else [])
        if len(inner) == 1:
            a = _append_of(fn, inner[0])
            if a and a[1] == "push":
                n = None
                for q in walk(s0):
                    if q.get("k") == "InitListExpr":
                        m = len([c for c in q.get("c", []) if isinstance(c, dict)])
                        n = sympy.Integer(m) if n is None or m > n else n
                return (a[0], "loop", a[2], n)
    return None


def _literal(n):
    n = strip(n)
    if n and n.get("k") in ("FloatingLiteral", "IntegerLiteral"):
        try:
            return float(n.get("val"))
        except (TypeError, ValueError):
            return None
    return None


def _evalraw(n):
    """(index text, abscissa text) if n is evalRaw<rule>(max_order, J, x)"""
    n = strip(n)
    if n and n.get("k") == "CallExpr" and (callee(n) or "").endswith("::evalRaw"):
        a = call_args(n)
        if len(a) == 3:
            return txt(strip(a[1])), txt(strip(a[2])), txt(strip(a[0]))
    return None


def van_rule(chk, db, rule_id):
    pe = PEval(db)
    fns = [f for f in db.fns(RL + "van_matrix", [HPP]) if f.d.get("targs")]
    ER = {f.d.get("targs", "").rsplit("::", 1)[-1]: f for f in db.fns(RL + "evalRaw", [HPP]) if f.d.get("targs")}
    npairs = 0
    for f in fns:
        r = f.d["targs"].rsplit("::", 1)[-1]
        chk.saw(f)
        problems = []
        blocks = 0
        checked = 0
        # abscissa variables: double x = getNode<rule>(row)
        absc = {}
        for d in f.locals().values():
            ini = [c for c in d.get("c", []) if isinstance(c, dict)]
            if ini:
                i0 = strip(ini[0])
                if i0 and i0.get("k") == "CallExpr" and (callee(i0) or "").endswith("::getNode"):
                    absc[d.get("name")] = txt(strip(call_args(i0)[0]))
        for n in f.walk():
            if n.get("k") != "CompoundStmt":
                continue
            kids = _flatten([c for c in n.get("c", []) if isinstance(c, dict)])
            if not kids or not any(is_reachable(f, c) for c in kids if c.get("k") != "_label" and c.get("id") is not None):
                continue
            # split into label-delimited segments
            segs, cur = [], []
            for s in kids:
                if s.get("k") == "_label":
                    if cur:
                        segs.append(cur)
                    cur = []
                else:
                    cur.append(s)
            if cur:
                segs.append(cur)
            for seg in segs:
                if not any(is_reachable(f, s) for s in seg if s.get("id") is not None):
                    continue
                app = [(s, _append_of(f, s)) for s in seg]
                app = [(s, a) for s, a in app if a]
                for A, B in (("indx", "vals"), ("ancestors", "ancestors_vals")):
                    ia = [(s, a) for s, a in app if a[0] == A]
                    va = [(s, a) for s, a in app if a[0] == B]
                    if not ia and not va:
                        continue
                    blocks += 1
                    where = "block @%d" % (ia or va)[0][0].get("l", 0)
                    if any(a[3] is None for s, a in ia + va):
                        problems.append("%s: an append to %s/%s has no countable extent: %s" % (where, A, B, [txt(s)[:50] for s, a in ia + va if a[3] is None][:1]))
                        continue
                    ci, cv = sum(a[3] for s, a in ia), sum(a[3] for s, a in va)
                    if sympy.simplify(ci - cv) != 0:
                        problems.append("%s: %s receives %s entries but %s receives %s" % (where, A, ci, B, cv))
                        continue
                    if len(ia) != len(va) or any(x[1][1] != y[1][1] for x, y in zip(ia, va)):
                        checked += 1       # counts agree; shapes differ (e.g. a loop of ones): nothing more to pair
                        if any(_evalraw(a[2]) for s, a in va if a[1] in ("push", "loop")):
                            problems.append("%s: basis values are appended to %s in a different statement shape than the columns of %s: cannot be paired" % (where, B, A))
                        continue
                    diag = None
                    for (si, a), (sv, b) in zip(ia, va):
                        checked += 1
                        if a[1] == "range":
                            if (a[2][0], b[2][0]) != ("ancestors", "ancestors_vals"):
                                problems.append("%s: range insert pairs %s with %s" % (where, a[2][0], b[2][0]))
                            elif a[2][1] != b[2][1]:
                                problems.append("%s @%d: columns are inserted from %s in %s order but the values from %s in %s order" % (where, sv.get("l", 0), a[2][0], a[2][1], b[2][0], b[2][1]))
                        elif a[1] == "push":
                            J = txt(a[2])
                            er = _evalraw(b[2])
                            if er:
                                if er[0] != J:
                                    problems.append("%s @%d: column %s is paired with the value of basis %s" % (where, sv.get("l", 0), J, er[0]))
                                if er[1] not in absc:
                                    problems.append("%s @%d: abscissa %s is not getNode<rule>(row)" % (where, sv.get("l", 0), er[1]))
                                if er[2] != "max_order":
                                    problems.append("%s @%d: order argument is %s" % (where, sv.get("l", 0), er[2]))
                            else:
                                v = _literal(b[2])
                                if v is None or v != 1.0:
                                    problems.append("%s @%d: value `%s` for column %s is neither evalRaw nor the literal 1.0" % (where, sv.get("l", 0), txt(b[2])[:40], J))
                                    continue
                                # literal one: diagonal (J is the row whose node is the abscissa), a row outside the row loop, or a basis that is identically one
                                in_loop = any(x.get("k") == "ForStmt" for x in f.ancestors(si))
                                if A == "ancestors" or not in_loop or J in absc.values():
                                    continue
                                ident = False
                                try:
                                    ident = all(sympy.simplify(pe.call(ER[r], [sympy.Integer(o), sympy.Integer(int(J)), X]) - 1) == 0 for o in (1, 2, 3))
                                except (NotClosedForm, ValueError, KeyError):
                                    ident = False
                                if not ident:
                                    problems.append("%s @%d: column %s gets the literal 1.0 but evalRaw<%s>(order, %s, x) is not identically one" % (where, sv.get("l", 0), J, r, J))
                        elif a[1] == "table":
                            pass
        npairs += checked
        chk.ob(rule_id, "van_matrix<%s>" % r, "columns and values of the sparse Vandermonde pattern are appended in lock-step with matching basis index", not problems and blocks > 0, f.where,
               "; ".join(problems[:3]) if problems else "%d append blocks, %d paired appends" % (blocks, checked),
               "indx[k] = J  <=>  vals[k] = evalRaw<rule>(max_order, J, getNode(row))")
    return npairs


def walk_rule(chk, db, rule_id, npts=None):
    """the inline ancestor walk of van_matrix takes the same steps as getParent<rule>, and the columns pushed explicitly are
    exactly the ancestors at which the walk stops"""
    from tsg.tier import pick
    npts = npts or pick(40, 160)
    pe = PEval(db)
    GP = {f.d.get("targs", "").rsplit("::", 1)[-1]: f for f in db.fns(RL + "getParent", [HPP]) if f.d.get("targs")}
    GSP = {f.d.get("targs", "").rsplit("::", 1)[-1]: f for f in db.fns(RL + "getStepParent", [HPP]) if f.d.get("targs")}
    n_ok = 0
    for f in [g for g in db.fns(RL + "van_matrix", [HPP]) if g.d.get("targs")]:
        r = f.d["targs"].rsplit("::", 1)[-1]
        loops = [n for n in f.walk() if n.get("k") == "WhileStmt" and is_reachable(f, strip(n.get("cond")) or n)]
        if not loops or r not in GP:
            continue
        chk.saw(f)
        for w in loops:
            problems = []
            par = None
            for a in f.ancestors(w):
                if a.get("k") == "CompoundStmt":
                    par = a
                    break
            rowloop = next((a for a in f.ancestors(w) if a.get("k") == "ForStmt"), None)
            sib = [c for c in par.get("c", []) if isinstance(c, dict)]
            pre = []
            for s0 in sib[:sib.index(w)]:
                if s0.get("k") == "DeclStmt" and all("int" == d.get("t") for d in s0.get("c", [])):
                    pre.append(s0)
                elif s0.get("k") == "IfStmt" and pre:
                    pre.append(s0)
            body = w.get("body")
            bk = [c for c in body.get("c", []) if isinstance(c, dict)] if body.get("k") == "CompoundStmt" else [body]
            last_call = -1
            for i, s0 in enumerate(bk):
                if any(q.get("k") == "CXXMemberCallExpr" for q in walk(s0)):
                    last_call = i
            tail = bk[last_call + 1:]
            # the walk variable: the one tested by the loop condition
            cv = [q for q in walk(w.get("cond")) if q.get("k") == "DeclRefExpr" and "did" in q]
            if not cv or not tail or not pre or rowloop is None:
                problems.append("ancestor walk not in the expected shape (condition variable, pre-header, tail)")
            else:
                dad = cv[0]
                ret = {"k": "ReturnStmt", "c": [dad]}
                rowvar = [d for d in walk(rowloop.get("init") or {}) if d.get("k") == "VarDecl"]
                first_row = None
                if rowvar and rowvar[0].get("c"):
                    first_row = const_val(strip(rowvar[0]["c"][0]))
                if first_row is None:
                    problems.append("row loop does not start at a constant row")
                else:
                    stop = set()

                    def stops(v):
                        return not pe.cond(w.get("cond"), {dad["did"]: sympy.Integer(v)}, f, 0)[0]
                    for K in range(first_row, npts):
                        try:
                            want = int(pe.call(GP[r], [sympy.Integer(K)]))
                            got0 = int(pe.stmts(pre + [ret], {rowvar[0]["did"]: sympy.Integer(K)}, f, 0))
                            if got0 != want and not (stops(got0) and stops(want)):       # inside the stop set the explicit columns cover every ancestor
                                problems.append("row %d: first ancestor computed inline is %d but getParent<%s>(%d) = %d" % (K, got0, r, K, want))
                            truth, _ = pe.cond(w.get("cond"), {dad["did"]: sympy.Integer(K)}, f, 0)
                            if truth:
                                env = {d["did"]: sympy.Integer(K) for s0 in pre if s0.get("k") == "DeclStmt" for d in s0.get("c", [])}
                                env[dad["did"]] = sympy.Integer(K)
                                got = int(pe.stmts(tail + [ret], env, f, 0))
                                if got != want and not (stops(got) and stops(want)):
                                    problems.append("ancestor %d: next ancestor computed inline is %d but getParent<%s>(%d) = %d" % (K, got, r, K, want))
                            else:
                                stop.add(K)
                        except NotClosedForm as e:
                            problems.append("walk not a closed form at %d: %s" % (K, e))
                            break
                    # columns pushed explicitly in the row block (constants) == points at which the walk stops (that are ancestors: below the first row)
                    explicit = set()
                    for s0 in sib:
                        a = _append_of(f, s0)
                        if a and a[0] == "indx" and a[1] == "push":
                            v = const_val(a[2])
                            if v is not None:
                                explicit.add(int(v))
                    # every index that is an ancestor of some row (closure of getParent / getStepParent) and at which the walk stops
                    closure = set()
                    try:
                        for K in range(first_row, npts):
                            for G in (GP, GSP):
                                if r in G:
                                    q = int(pe.call(G[r], [sympy.Integer(K)]))
                                    if q >= 0:
                                        closure.add(q)
                        grew = True
                        while grew:
                            grew = False
                            for K in list(closure):
                                for G in (GP, GSP):
                                    if r in G:
                                        q = int(pe.call(G[r], [sympy.Integer(K)]))
                                        if q >= 0 and q not in closure:
                                            closure.add(q)
                                            grew = True
                        stop_anc = {k for k in closure if stops(k)}
                    except NotClosedForm as e:
                        problems.append("ancestor closure not a closed form: %s" % e)
                        stop_anc = explicit
                    if r != "pwc" and explicit != stop_anc:
                        problems.append("columns pushed explicitly %s differ from the ancestors at which the walk stops %s" % (sorted(explicit), sorted(stop_anc)))
            n_ok += 1
            chk.ob(rule_id, "van_matrix<%s>" % r, "inline ancestor walk @%d == getParent<%s>, explicit columns == stop set" % (w.get("l", 0), r), not problems, f.loc(w),
                   "; ".join(problems[:3]) if problems else "rows/ancestors up to %d agree" % (npts - 1), "the same hierarchy that computeDAGup uses")
    return n_ok


def cell_rule(chk, db, rule_id, npts=None):
    """piecewise-constant rule: row by row, the ancestors the inline walk of van_matrix<pwc> collects are exactly the ancestors
    (closure of getParent<pwc>, the root excluded: it is pushed explicitly) whose basis function is non-zero at the node of the row.
    The walk (a while or a for loop) is executed concretely for the rows below `npts`; the oracle is evalRaw<pwc> at getNode<pwc>(row)."""
    from tsg.tier import pick
    npts = npts or pick(122, 365)
    pe = PEval(db)

    def one(name):
        return {f.d.get("targs", "").rsplit("::", 1)[-1]: f for f in db.fns(RL + name, [HPP]) if f.d.get("targs")}.get("pwc")
    f, ER, GN, GP = one("van_matrix"), one("evalRaw"), one("getNode"), one("getParent")
    if f is None or ER is None or GN is None or GP is None:
        raise AnalysisBroken("%s: van_matrix / evalRaw / getNode / getParent of the piecewise-constant rule not found" % rule_id)

    def is_push(n):
        return n.get("k") == "CXXMemberCallExpr" and (callee(n) or "").endswith("::push_back") and txt(call_object(n) or {}).strip() == "ancestors"
    loops = [n for n in f.walk() if n.get("k") in ("WhileStmt", "ForStmt") and is_reachable(f, strip(n.get("cond")) or n)
             and any(is_push(q) for q in walk(n.get("body") or {}))]
    # the walk is the innermost loop with a push, the row loop the loop around it
    walks = [w for w in loops if not any(q is not w and q in loops for q in walk(w.get("body") or {}))]
    n = 0
    cell_rule.other_shape = 0
    for w in walks:
        rowloop = next((a for a in f.ancestors(w) if a.get("k") == "ForStmt"), None)
        rowvar = [d for d in walk((rowloop or {}).get("init") or {}) if d.get("k") == "VarDecl"]
        if rowloop is None or not rowvar or not rowvar[0].get("c") or const_val(strip(rowvar[0]["c"][0])) is None:
            raise AnalysisBroken("%s: the ancestor walk @%s is not inside a row loop that starts at a constant row" % (rule_id, w.get("l")))
        first_row = int(const_val(strip(rowvar[0]["c"][0])))
        body = rowloop.get("body")
        seq = [c for c in body.get("c", []) if isinstance(c, dict)] if body.get("k") == "CompoundStmt" else [body]
        upto = next(i for i, s0 in enumerate(seq) if s0 is w or any(q is w for q in walk(s0)))
        problems = []
        fuel = [0]

        def run(st, env, out):
            k = st.get("k")
            if k == "CompoundStmt":
                for s0 in st.get("c", []):
                    if isinstance(s0, dict):
                        run(s0, env, out)
            elif k == "DeclStmt":
                for d in st.get("c", []):
                    if d.get("c") and d.get("t", "").replace("const", "").strip() == "int":
                        env[d["did"]] = pe.expr(d["c"][0], env, f, 0)
            elif k in ("BinaryOperator", "CompoundAssignOperator") and st.get("op") in ("=", "/=", "+=", "-=", "*="):
                l = strip(st["c"][0])
                if l.get("k") == "DeclRefExpr" and l.get("did") in env:
                    v = pe.expr(st["c"][1], env, f, 0)
                    cur = env[l["did"]]
                    env[l["did"]] = v if st["op"] == "=" else sympy.floor(cur / v) if st["op"] == "/=" else cur + v if st["op"] == "+=" else cur - v if st["op"] == "-=" else cur * v
                # writes to the output arrays (pntr[r] = ...) do not take part in the walk
            elif k == "IfStmt":
                t, _ = pe.cond(st["cond"], env, f, 0)
                if t is None:
                    raise NotClosedForm("undecided test " + txt(st["cond"])[:40])
                br = st.get("then") if t else st.get("else")
                if br is not None:
                    run(br, env, out)
            elif k in ("WhileStmt", "ForStmt"):
                if k == "ForStmt" and st.get("init") is not None:
                    run(st["init"], env, out)
                while True:
                    fuel[0] += 1
                    if fuel[0] > 200000:
                        raise NotClosedForm("walk does not terminate")
                    t, _ = pe.cond(st["cond"], env, f, 0)
                    if t is None:
                        raise NotClosedForm("undecided loop test")
                    if not t:
                        break
                    run(st["body"], env, out)
                    if k == "ForStmt" and st.get("inc") is not None:
                        run(st["inc"], env, out)
            elif k == "UnaryOperator" and st.get("op") in ("++", "--"):
                l = strip(st["c"][0])
                env[l["did"]] = env[l["did"]] + (1 if st["op"] == "++" else -1)
            elif is_push(st) or (k == "ExprWithCleanups" and any(is_push(q) for q in walk(st))):
                c = st if is_push(st) else next(q for q in walk(st) if is_push(q))
                out.append(int(pe.expr(call_args(c)[0], env, f, 0)))
            elif k in ("CXXMemberCallExpr", "ExprWithCleanups", "NullStmt", "CXXOperatorCallExpr"):
                pass        # clear() and appends to the output arrays
            else:
                raise NotClosedForm("statement %s in the walk: %s" % (k, txt(st)[:40]))

        try:
            for K in range(first_row, npts):
                env = {rowvar[0]["did"]: sympy.Integer(K)}
                out = []
                for s0 in seq[:upto + 1]:
                    run(s0, env, out)
                x = pe.call(GN, [sympy.Integer(K)])
                want = []
                a = int(pe.call(GP, [sympy.Integer(K)]))
                while a > 0:
                    if sympy.simplify(pe.call(ER, [sympy.Integer(0), sympy.Integer(a), x])) != 0:
                        want.append(a)
                    a = int(pe.call(GP, [sympy.Integer(a)]))
                if sorted(out) != sorted(want):
                    problems.append("row %d: the walk collects the ancestors %s, the basis functions that are non-zero at its node are %s" % (K, sorted(out), sorted(want)))
                    if len(problems) >= 3:
                        break
        except NotClosedForm as e:
            raise AnalysisBroken("%s: the ancestor walk of van_matrix<pwc> @%s cannot be executed: %s" % (rule_id, w.get("l"), e))
        n += 1
        if w.get("k") != "WhileStmt":
            cell_rule.other_shape += 1     # a walk walk_rule() does not recognise; executed here against the same hierarchy
        chk.saw(f)
        chk.ob(rule_id, "van_matrix<pwc>", "ancestors collected by the walk @%d == ancestors whose cell contains the node of the row" % w.get("l", 0), not problems, f.loc(w),
               "; ".join(problems[:3]) if problems else "rows %d..%d agree" % (first_row, npts - 1), "entry 1.0 <=> evalRaw<pwc>(0, ancestor, getNode(row)) != 0")
    return n
