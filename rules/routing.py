"""Every route from the API class into a grid class crosses the transforms (shared by C10 / C04 / C02).

The grid classes work in canonical coordinates.  TasmanianSparseGrid forwards to them through `base->method(...)` or
`get<GridX>()->method(...)`; three families of forwarded methods need the domain transforms:

  x-in      methods whose first parameter is a point / an array of points given by the user (evaluate, evaluateBatch, weights at x,
            differentiate, hierarchical functions at x, a constructed sample): the argument must be the result of formCanonicalPoints;
  x-out     methods that write points of the grid into a user array (getPoints, getLoadedPoints, getNeededPoints): every path after
            the call applies formTransformedPoints;
  integral  methods that return integrals of the surrogate or of basis functions (integrate, getQuadratureWeights,
            integrateHierarchicalFunctions): the forwarding method applies the linear quadrature scale *and* the conformal weights.

The families are read off the virtual interface BaseCanonicalGrid (parameter types), not listed by hand, except the integral family
which is recognised by what the methods return (integrals / weights: names containing `ntegrate` or `QuadratureWeights`).
"""
from tsg.facts import strip, txt, walk, callee, call_args, call_object, short
from tsg.flow import is_reachable
from tsg.typestate import must_pass_after, member_of
from tsg.build import AnalysisBroken

TSG = "TasGrid::TasmanianSparseGrid"
BASE = "TasGrid::BaseCanonicalGrid"


def families(db):
    rec = db.record(BASE)
    xin, xout, integ = set(), set(), set()
    for m in rec["methods"]:
        last = m["name"].rsplit("::", 1)[-1]
        sig = m["sig"]
        if "GPU" in last or not m.get("virtual"):
            continue
        if "ntegrate" in last or "QuadratureWeights" in last:
            integ.add(last)
        elif sig.startswith("(const double *"):
            if last not in ("loadNeededValues", "setHierarchicalCoefficients"):      # arrays of model values / coefficients, not points
                xin.add(last)
        elif sig == "(double *)const" and "Points" in last:
            xout.add(last)
    return xin, xout, integ


def _through_grid(c):
    """call made on the grid object: base->m(), get<Grid>()->m()"""
    o = call_object(c)
    if o is None:
        return False
    for q in [o] + list(walk(o)):
        if q.get("k") == "MemberExpr" and short(q.get("field") or "") == "base":
            return True
        if q.get("k") in ("CXXMemberCallExpr", "CallExpr") and short(callee(q) or "").startswith("get<"):
            return True
        if q.get("k") in ("CXXMemberCallExpr", "CallExpr") and short(callee(q) or "") == "get":
            return True
    return False


def routing_rule(chk, db, rule_id, only=None):
    chk.rule(rule_id, "every call from TasmanianSparseGrid into a grid class crosses the domain transforms: user points go in through formCanonicalPoints, grid points come out through "
                      "formTransformedPoints, and the methods that return integrals (integrate, getQuadratureWeights, integrateHierarchicalFunctions) apply both the linear quadrature "
                      "scale and the conformal weights - the families are taken from the virtual interface of BaseCanonicalGrid")
    xin, xout, integ = families(db)
    if len(xin) < 6 or len(xout) < 3 or len(integ) < 3:
        raise AnalysisBroken("%s: families not recognised (x-in %d, x-out %d, integral %d)" % (rule_id, len(xin), len(xout), len(integ)))
    n = 0
    for f in db.all_functions(["SparseGrids/TasmanianSparseGrid.cpp", "SparseGrids/TasmanianSparseGrid.hpp"]):
        if f.cls != TSG or f.d.get("islambda"):
            continue
        for c in f.calls(into_lambda=False):
            if c.get("k") != "CXXMemberCallExpr" or not is_reachable(f, c) or not _through_grid(c):
                continue
            last = short(callee(c) or "")
            if "GPU" in last or "Gpu" in short(f.name) or "GPU" in short(f.name):
                continue
            fam = "x-in" if last in xin else "x-out" if last in xout else "integral" if last in integ else None
            if fam is None or (only is not None and fam not in only):
                continue
            n += 1
            chk.saw(f)
            if fam == "x-in":
                a = strip(call_args(c)[0]) if call_args(c) else None
                src = a
                if a is not None and a.get("k") == "DeclRefExpr" and "did" in a:
                    d = next((v for v in f.locals().values() if v.get("did") == a["did"]), None)
                    if d is not None and d.get("c"):
                        src = d["c"][0]
                ok = src is not None and any(short(callee(q) or "") == "formCanonicalPoints" for q in [src] + list(walk(src)) if q.get("k") in ("CallExpr", "CXXMemberCallExpr"))
                chk.ob(rule_id, f.key + f.sig, "%s receives canonical points" % last, ok, f.loc(c),
                       "" if ok else "the points handed to the grid class are `%s`, not the result of formCanonicalPoints" % txt(a or {})[:50], "formCanonicalPoints(x, ...)")
            elif fam == "x-out":
                from tsg.taint import carrier
                ca = carrier(call_args(c)[0]) if call_args(c) else None
                if not (ca and ca[0] == "var" and ca[1] in {p_["did"] for p_ in f.params()}):
                    n -= 1
                    continue        # points fetched into a local work array (canonical points are what the conformal weights need)
                ok = bool(must_pass_after(f, c, lambda q: q.get("k") in ("CallExpr", "CXXMemberCallExpr") and short(callee(q) or "") == "formTransformedPoints"))
                chk.ob(rule_id, f.key + f.sig, "%s followed by formTransformedPoints" % last, ok, f.loc(c),
                       "" if ok else "canonical points are returned to the user on some path", "formTransformedPoints on every path")
            else:
                cs = [short(callee(q) or "") for q in f.calls(into_lambda=False) if is_reachable(f, q)]
                miss = [k for k, nm in (("linear quadrature scale", "getQuadratureScale"), ("conformal weights", "mapConformalWeights")) if nm not in cs]
                chk.ob(rule_id, f.key + f.sig, "%s applies the linear scale and the conformal weights" % last, not miss, f.loc(c),
                       "" if not miss else "the %s %s never applied: with that transform set the result disagrees with the sibling routes" % (" and the ".join(miss), "is" if len(miss) == 1 else "are"),
                       "getQuadratureScale and mapConformalWeights")
    return n
