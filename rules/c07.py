"""C07  Refinement never loses or mis-associates data and selects what it documents."""
import re
from tsg.facts import DB, strip, txt, callee, call_args, call_object, walk, const_val, callee_node, short
from tsg.flow import var_of, base_var, cond_edges_dominating, is_reachable
from tsg.typestate import member_writes, member_of, must_pass_after, must_pass_before
from tsg.effects import Effects, is_this_call
from tsg.symeval import ev, value_of_var_at, lattice, Unknown
from tsg.build import AnalysisBroken
from tsg.taint import carrier

GRIDS = ["Global", "Sequence", "LocalPolynomial", "Wavelet", "Fourier"]
GRID_FILES = ["SparseGrids/tsgGrid%s.cpp" % g for g in GRIDS] + ["SparseGrids/tsgGrid%s.hpp" % g for g in GRIDS] + \
             ["SparseGrids/tsgGridCore.hpp", "SparseGrids/tsgDConstructGridGlobal.cpp", "SparseGrids/tsgDConstructGridGlobal.hpp"]
ADDVALUES = "TasGrid::StorageSet::addValues"
COEFF_FIELDS = ("surpluses", "coefficients", "fourier_coefs")


def is_merge_of(n, a_txt, b_txt=None, b_vars=()):
    """element n merges an index set into the set rendered a_txt"""
    k = n.get("k")
    if k == "CXXOperatorCallExpr" and n.get("op") == "+=" and txt(strip(n["c"][1])) == a_txt:
        return b_txt is None or txt(strip(n["c"][2])) == b_txt
    if k == "CXXMemberCallExpr" and (callee(n) or "").endswith(("::addSortedIndexes", "::addMultiIndexSet", "::addUnsortedIndexes")):
        o = call_object(n)
        if o is not None and txt(strip(o)) == a_txt:
            if b_txt is None:
                return True
            arg = txt(strip(call_args(n)[0]))
            return arg == b_txt or arg in b_vars
    return False


def run(chk):
    db = DB("serial")
    db.load_all()
    eff = Effects(db)
    fns = [f for f in db.all_functions(GRID_FILES)]
    gridfns = [f for f in fns if f.cls and (f.cls.startswith("TasGrid::Grid") or f.cls in ("TasGrid::BaseCanonicalGrid", "TasGrid::DynamicConstructorDataGlobal"))]

    chk.rule("C07-D1.merge-after", "after S.addValues(A, B, v) every path merges B into A (A += B / A.addSortedIndexes / a method on this that does) before the function returns")
    chk.rule("C07-D1.values-first", "every merge into the loaded set `points` is preceded on all paths by the matching value write (addValues(points,B,.) with the same B, setValues, resize or assignment of values) - in the function or in every caller")
    chk.rule("C07-D1.overwrite", "loadNeededValues-style sites: addValues(points, needed, vals) runs only on the false edges of points.empty() and needed.empty(); "
                                 "with nothing needed the supplied values overwrite the loaded ones (setValues)")
    chk.rule("C07-D3.disjoint", "every write to `needed` is empty, or `X - points`, or happens where points is known empty / reset, or comes from the candidate collector")
    chk.rule("C07-D3.collector", "candidate collectors append an index only on the true edge of <loaded set>.missing(index) for that same index; their exclusion set argument is `points`; the result passes the sorting/uniquing MultiIndexSet(Data2D) constructor")
    chk.rule("C07-D4.effects", "clearRefinement writes exactly needed and the updated_* members; setSurplusRefinement / setAnisotropicRefinement (and their helpers getRefinementCanidates / buildUpdateMap) never (transitively) write points, values or coefficients when points are loaded")
    chk.rule("C07-D5.extent", "the size validated for scale_correction by the container overload equals the extent the local-polynomial refinement indexes (strips x stride), as closed forms over (loaded, needed, outputs, output)")
    chk.rule("C07-D6.tolerance", "sibling buildUpdateMap implementations: tolerance == 0 returns an all-ones map before any normalisation; comparisons against the tolerance treat equality as 'small'")

    # ------------------------------------------------------------------ D1
    sites = []
    for fn in fns:
        for call in fn.calls(ADDVALUES):
            sites.append((fn, call))
    chk.floor("C07-D1.merge-after", len(sites), 14, "StorageSet::addValues call sites")
    for fn, call in sites:
        chk.saw(fn)
        A, B = call_args(call)[0], call_args(call)[1]
        a_txt, b_txt = txt(strip(A)), txt(strip(B))
        b_vars = {x.get("var") for x in walk(B) if x.get("k") == "DeclRefExpr" and "var" in x}
        bv = var_of(B)
        if bv is not None:
            for d in fn.walk():
                if d.get("k") == "VarDecl" and d.get("did") == bv:
                    b_vars |= {x.get("var") for x in walk(d) if x.get("k") == "DeclRefExpr" and "var" in x}
        helper_merges = set()
        for c2, t in eff.this_calls(fn):
            if any(is_merge_of(x, a_txt, b_txt, b_vars) for x in t.walk()):
                helper_merges.add(c2["id"])

        def pred(n, a_txt=a_txt, b_txt=b_txt, b_vars=b_vars, hm=helper_merges):
            return is_merge_of(n, a_txt, b_txt, b_vars) or n.get("id") in hm
        ok = must_pass_after(fn, call, pred)
        chk.ob("C07-D1.merge-after", fn.key, "addValues(%s, %s)" % (a_txt, b_txt[:50]), bool(ok), fn.loc(call),
               "" if ok else "a path leaves the function with the values merged but the index set %s not merged with %s" % (a_txt, b_txt[:50]))
        if b_txt == "needed" and a_txt == "points":
            edges = [(txt(strip(c)), t) for c, t in cond_edges_dominating(fn, call)]
            ok1 = ("needed.empty()", False) in edges or ("!needed.empty()", True) in edges
            ok2 = ("points.empty()", False) in edges or ("!points.empty()", True) in edges
            chk.ob("C07-D1.overwrite", fn.key, "addValues(points, needed) only when needed is non-empty", ok1, fn.loc(call), "dominating edges: %s" % edges)
            chk.ob("C07-D1.overwrite", fn.key, "addValues(points, needed) only when points is non-empty", ok2, fn.loc(call), "dominating edges: %s" % edges)
            # the complementary overwrite
            sv = [c for c in fn.calls("TasGrid::StorageSet::setValues") if is_reachable(fn, c)]
            okv = False
            for c in sv:
                e2 = [(txt(strip(x)), t) for x, t in cond_edges_dominating(fn, c)]
                # reached when needed.empty() is true: either directly on that edge, or not excluded by it
                if ("needed.empty()", False) not in e2 and ("!needed.empty()", True) not in e2:
                    okv = True
            chk.ob("C07-D1.overwrite", fn.key, "setValues(vals) reachable when nothing is needed", okv, fn.loc(call))

    # values-first
    nmerge = 0
    for fn in gridfns:
        if not fn.cls.startswith("TasGrid::Grid"):
            continue
        for n, f, kind in member_writes(fn):
            if not f.endswith("::points") or not is_merge_of(n, "points"):
                continue
            nmerge += 1
            chk.saw(fn)
            if n.get("k") == "CXXOperatorCallExpr":
                b_txt = txt(strip(n["c"][2]))
            else:
                b_txt = txt(strip(call_args(n)[0]))

            def vpred(x, b_txt=b_txt):
                cal = callee(x) or ""
                if cal == ADDVALUES:
                    a = call_args(x)
                    bt = txt(strip(a[1]))
                    if txt(strip(a[0])) != "points":
                        return False
                    if bt == b_txt or b_txt in bt:
                        return True
                    bvv = var_of(a[1])
                    if bvv is not None:      # B is a local built from the merged index
                        for dd in fn.walk():
                            if dd.get("k") == "VarDecl" and dd.get("did") == bvv and b_txt in txt(dd):
                                return True
                    return False
                if cal in ("TasGrid::StorageSet::setValues", "TasGrid::StorageSet::resize"):
                    return True
                if x.get("k") == "CXXOperatorCallExpr" and x.get("op") == "=" and txt(strip(x["c"][1])) == "values":
                    return True
                return False
            ok = must_pass_before(fn, n, vpred)
            where = "in the function"
            if not ok:
                # every caller on the same object must have written the values before the call
                callers = []
                for g in gridfns:
                    for c2, t in eff.this_calls(g):
                        if t.key == fn.key and t.sig == fn.sig:
                            callers.append((g, c2))
                ok = bool(callers) and all(must_pass_before(g, c2, lambda x: (callee(x) or "") in (ADDVALUES, "TasGrid::StorageSet::setValues")) for g, c2 in callers)
                where = "in all %d caller(s): %s" % (len(callers), sorted({g.name.rsplit('::', 1)[-1] for g, _ in callers}))
            chk.ob("C07-D1.values-first", fn.key, "points merge with %s" % b_txt[:40], bool(ok), fn.loc(n),
                   ("value write found " + where) if ok else "index merge not preceded by the value merge on every path")
    chk.floor("C07-D1.values-first", nmerge, 10, "merges into the loaded point set")

    # ------------------------------------------------------------------ D3
    nneed = 0
    collectors = {}
    for fn in gridfns:
        if not fn.cls.startswith("TasGrid::Grid"):
            continue
        for n, f, kind in member_writes(fn):
            if not f.endswith("::needed") or kind != "assign":
                continue
            rhs = strip(n["c"][2]) if n.get("k") == "CXXOperatorCallExpr" else strip(n["c"][1])
            nneed += 1
            chk.saw(fn)
            verdict, why = False, ""

            def minus_points(e):
                e = strip(e)
                if e is None:
                    return False
                if e.get("k") == "CXXOperatorCallExpr" and e.get("op") == "-":
                    return txt(strip(e["c"][2])) == "points"
                if e.get("k") == "ConditionalOperator":
                    return minus_points(e["c"][1]) and minus_points(e["c"][2])
                if e.get("k") in ("CXXConstructExpr",) and len(e.get("c", [])) == 1:
                    return minus_points(e["c"][0])
                return False
            t = txt(rhs)
            if t in ("MultiIndexSet()",) or (rhs.get("k") in ("CXXTemporaryObjectExpr", "CXXConstructExpr") and not rhs.get("c")):
                verdict, why = True, "cleared"
            elif minus_points(rhs):
                verdict, why = True, "X - points"
            else:
                # points known empty here: guarded by points.empty(), or points reset earlier on every path, or constructor/initialiser
                edges = [(txt(strip(c)), tr) for c, tr in cond_edges_dominating(fn, n)]
                reset = must_pass_before(fn, n, lambda x: x.get("k") == "CXXOperatorCallExpr" and x.get("op") == "=" and txt(strip(x["c"][1])) == "points"
                                         and txt(strip(x["c"][2])) == "MultiIndexSet()")
                cal = callee(rhs) or ""
                if ("points.empty()", True) in edges or reset:
                    verdict, why = True, "points empty on this path"
                elif fn.d.get("isctor"):
                    verdict, why = True, "constructor: points is default-constructed empty"
                elif cal.endswith("::getRefinementCanidates"):
                    verdict, why = True, "candidate collector (checked by C07-D3.collector)"
                    collectors[cal] = True
                else:
                    # initialiser: every caller on this object is a constructor or has reset points
                    callers = []
                    for g in gridfns:
                        for c2, tt in eff.this_calls(g):
                            if tt.key == fn.key and tt.sig == fn.sig:
                                callers.append((g, c2))
                    okc = bool(callers)
                    for g, c2 in callers:
                        if g.d.get("isctor"):
                            continue
                        e2 = [(txt(strip(c)), tr) for c, tr in cond_edges_dominating(g, c2)]
                        r2 = must_pass_before(g, c2, lambda x: x.get("k") == "CXXOperatorCallExpr" and x.get("op") == "=" and txt(strip(x["c"][1])) == "points"
                                              and txt(strip(x["c"][2])) == "MultiIndexSet()")
                        # makeGrid-style re-initialisers are themselves only called under points.empty() / from ctors: one more level
                        if not (("points.empty()", True) in e2 or r2):
                            up = []
                            for h in gridfns:
                                for c3, t3 in eff.this_calls(h):
                                    if t3.key == g.key and t3.sig == g.sig:
                                        up.append((h, c3))
                            def empty_guard(h, c3):
                                for a in h.ancestors(c3):
                                    if a.get("k") == "IfStmt" and "points.empty()" in txt(a.get("cond")) and any(y is c3 for y in walk(a.get("then"))):
                                        return True
                                return h.d.get("isctor", False)
                            if not up or not all(empty_guard(h, c3) for h, c3 in up):
                                okc = False
                    verdict, why = okc, "initialiser reached only from constructors / reset or empty points" if okc else "needed assigned from %s while loaded points may exist" % t[:60]
            chk.ob("C07-D3.disjoint", fn.key, "needed = %s" % t[:60], verdict, fn.loc(n), why)
    chk.floor("C07-D3.disjoint", nneed, 30, "assignments to needed")

    ncol = 0
    for fn in gridfns:
        if fn.cls not in ("TasGrid::GridLocalPolynomial", "TasGrid::GridWavelet"):
            continue
        dests = {p["did"]: p["name"] for p in fn.params() if p["t"].replace("TasGrid::", "") in ("Data2D<int> &",)}
        if not dests or "add" not in fn.name.rsplit("::", 1)[-1]:
            continue
        chk.saw(fn)
        excl = [p for p in fn.params() if "MultiIndexSet" in p["t"]]
        for call in fn.calls():
            if (callee(call) or "").endswith("::appendStrip") and var_of(call_object(call)) in dests:
                ncol += 1
                idx = txt(strip(call_args(call)[0]))
                edges = [(txt(strip(c)), tr) for c, tr in cond_edges_dominating(fn, call)]
                want = ["%s.missing(%s)" % (e["name"], idx) for e in excl] + ["points.missing(%s)" % idx]
                ok = any((w, True) in edges for w in want)
                chk.ob("C07-D3.collector", fn.key, "appendStrip(%s)" % idx, ok, fn.loc(call), "guards: %s" % [e for e in edges if "missing" in e[0]], " or ".join(want))
        # callers pass `points` as the exclusion set
        if excl:
            ei = [i for i, p in enumerate(fn.params()) if p is excl[0]][0]
            for g in gridfns:
                for c2, t in eff.this_calls(g):
                    if t.key == fn.key and t.sig == fn.sig and "RefinementCanidates" in g.name:
                        a = call_args(c2)
                        chk.ob("C07-D3.collector", g.key, "%s exclusion set" % fn.name.rsplit("::", 1)[-1], txt(strip(a[ei])) == "points", g.loc(c2), "passes %s" % txt(a[ei]))
    chk.floor("C07-D3.collector", ncol, 12, "guarded candidate appends")
    for fn in gridfns:
        if fn.name.endswith("::getRefinementCanidates"):
            chk.saw(fn)
            rets = [n for n in walk(fn.body, into_lambda=False) if n.get("k") == "ReturnStmt"]
            for r in rets:
                cr = carrier(r["c"][0]) if r.get("c") else None
                v = cr[1] if cr and cr[0] == "var" else None
                decl = None
                for n in walk(fn.body, into_lambda=False):
                    if n.get("k") == "VarDecl" and n.get("did") == v:
                        decl = n
                ok = False
                if decl is not None and decl.get("c"):
                    conv = [q for q in walk(decl["c"][0]) if q.get("k") in ("CXXConstructExpr", "CXXTemporaryObjectExpr") and q.get("ctor") == "TasGrid::MultiIndexSet" and q.get("c")]
                    ok = any("Data2D<int>" in (strip(q["c"][0]) or {}).get("t", "") for q in conv)
                chk.ob("C07-D3.collector", fn.key, "result is MultiIndexSet(Data2D<int>) (sorted, duplicate free)", bool(ok), fn.loc(r), txt(decl) if decl else "")

    # sibling appends: within one function, appends of the same index expression to the same destination are filtered by the same membership tests
    chk.rule("C07-D3.siblings", "within one function every append of the same index expression to the same candidate container is guarded by the same set of `<set>.missing(index)` tests "
                                "(a test kept on the parent path and dropped on the step-parent path lets loaded points back into `needed`)")
    nsib = 0
    libfns = [f for fs_ in db.load_all().values() for f in fs_ if not f.file.startswith("@verif") and "test" not in f.file.lower() and "Example" not in f.file]
    for fn in libfns:
        groups = {}
        for call in fn.calls(into_lambda=False):
            if (callee(call) or "").endswith("::appendStrip") and is_reachable(fn, call) and call_args(call):
                dest = txt(strip(call_object(call)) or {})
                idx = txt(strip(call_args(call)[0]))
                groups.setdefault((dest, idx), []).append(call)
        for (dest, idx), calls in groups.items():
            if len(calls) < 2:
                continue
            gs = []
            for c in calls:
                edges = [(txt(strip(e)), tr) for e, tr in cond_edges_dominating(fn, c)]
                gs.append(frozenset(t for t, tr in edges if tr and t.endswith(".missing(%s)" % idx) and re.match(r"^[A-Za-z_][\w>.\-]*\.missing\(", t) and "&&" not in t and "||" not in t))
            if not any(gs):
                continue
            nsib += 1
            chk.saw(fn)
            union = frozenset().union(*gs)
            bad = [(c, union - g) for c, g in zip(calls, gs) if g != union]
            chk.ob("C07-D3.siblings", fn.key, "%d appends of `%s` to `%s`" % (len(calls), idx, dest), not bad, fn.loc(calls[0]),
                   "; ".join("append @%d lacks %s" % (c.get("l", 0), sorted(m)) for c, m in bad[:2]) if bad else "all guarded by %s" % sorted(union), "identical membership guards")
    chk.floor("C07-D3.siblings", nsib, 4, "functions with sibling candidate appends")

    # ------------------------------------------------------------------ D4
    def skip_reinit(f, call):
        return False

    def skip_when_empty(f, call):
        # calls that only happen when no points are loaded: inside `if (... points.empty() ...)` then-branch
        for a in f.ancestors(call):
            if a.get("k") == "IfStmt" and "points.empty()" in txt(a.get("cond")) and "!" not in txt(a.get("cond")).split("points.empty()")[0][-2:]:
                if any(y is call for y in walk(a.get("then"))):
                    return True
        return False
    neff = 0
    for g in GRIDS:
        cls = "TasGrid::Grid" + g
        rec = db.record(cls)
        upd = {f["q"] for f in rec["fields"] if f["name"].startswith("updated_")}
        for fn in db.fns(cls + "::clearRefinement"):
            chk.saw(fn)
            # what is written only when no points are loaded (derived structure of the needed points that are being dropped) cannot change loaded data
            ws = set(eff.closure(fn, skip_node=skip_when_empty))
            want = {cls + "::needed"} | upd
            neff += 1
            ws = {x.rsplit("::", 1)[-1] for x in ws}
            want = {x.rsplit("::", 1)[-1] for x in want}
            chk.ob("C07-D4.effects", fn.key, "clearRefinement write set", ws == want, fn.where,
                   "writes %s, expected exactly %s" % (sorted(x.rsplit('::', 1)[-1] for x in ws), sorted(x.rsplit('::', 1)[-1] for x in want)))
        prot = {"points", "values"} | set(COEFF_FIELDS)
        # getCandidateConstructionPoints is not in this list: the property speaks of set*Refinement / updateGrid / clearRefinement, and the construction call of the
        # Global and Fourier grids has to load tensors that are complete when they are registered (C09, no delivered sample is dropped)
        for name in ("setSurplusRefinement", "setAnisotropicRefinement", "getRefinementCanidates", "buildUpdateMap"):
            for fn in db.fns(cls + "::" + name, required=False):
                chk.saw(fn)
                cl = eff.closure(fn, skip_node=skip_when_empty)
                bad = {f: w for f, w in cl.items() if f.rsplit("::", 1)[-1] in prot}
                neff += 1
                chk.ob("C07-D4.effects", fn.key + fn.sig, "%s leaves loaded data untouched" % name, not bad, fn.where,
                       "; ".join("%s via %s" % (f.rsplit("::", 1)[-1], " -> ".join(w)) for f, w in bad.items())[:400])
    chk.floor("C07-D4.effects", neff, 20, "effect policies")

    # ------------------------------------------------------------------ D5 extent of scale_correction
    TSG = "TasGrid::TasmanianSparseGrid"

    def res_api(n):
        t = txt(n)
        m = {"base->getNumNeeded()": "N", "base->getNumLoaded()": "L", "base->getNumOutputs()": "O", "getNumNeeded()": "N", "getNumLoaded()": "L",
             "getNumOutputs()": "O", "output": "s", "outs": "O"}
        return m.get(t)

    def res_grid(n):
        t = txt(n)
        m = {"points.getNumIndexes()": "L", "needed.getNumIndexes()": "N", "num_outputs": "O", "output": "s"}
        return m.get(t)
    # callee side
    consumed = None
    callee_where = ""
    for fn in db.fns("TasGrid::GridLocalPolynomial::buildUpdateMap"):
        chk.saw(fn)
        sc = [p for p in fn.params() if p["name"] == "scale_correction"]
        if not sc:
            continue
        wrap = None
        for n in fn.walk():
            if n.get("k") == "VarDecl" and n.get("c"):
                i = strip(n["c"][0])
                if i.get("k") == "CXXConstructExpr" and "Wrapper2D" in i.get("ctor", "") and len(i.get("c", [])) >= 2 and var_of(i["c"][1]) == sc[0]["did"]:
                    wrap = (n, i)
        if wrap is None:
            raise AnalysisBroken("Wrapper2D over scale_correction not found in buildUpdateMap")
        stride_e = wrap[1]["c"][0]
        # strips: scale.getStrip(i) with i the variable of a for loop  i < bound
        bounds = []
        for c in fn.calls():
            if (callee(c) or "").endswith("Wrapper2D<const double>::getStrip") and var_of(call_object(c)) == wrap[0]["did"]:
                iv = var_of(call_args(c)[0])
                for a in fn.ancestors(c):
                    if a.get("k") == "ForStmt" and a.get("cond") is not None:
                        cd = strip(a["cond"])
                        if cd.get("k") == "BinaryOperator" and cd.get("op") == "<" and var_of(cd["c"][0]) == iv:
                            bounds.append(cd["c"][1])
                            break
        if not bounds:
            raise AnalysisBroken("no indexed use of the scale wrapper found")

        def local_env_eval(e, env, fn=fn):
            def res(n):
                r = res_grid(n)
                if r:
                    return r
                return None
            e2 = strip(e)
            if e2.get("k") == "DeclRefExpr" and "did" in e2 and res_grid(e2) is None:
                return value_of_var_at(fn, e2["did"], None, env, res)
            return ev(e2, env, res)
        consumed = (fn, stride_e, bounds[0], local_env_eval)
        callee_where = fn.loc(wrap[0])
        break
    if consumed is None:
        raise AnalysisBroken("scale_correction consumer not found")
    nd5 = 0
    for fn in db.all_functions(["SparseGrids/TasmanianSparseGrid.cpp"]):
        if fn.cls != TSG:
            continue
        sc = [p for p in fn.params() if p["name"] == "scale_correction" and "vector" in p["t"]]
        if not sc:
            continue
        chk.saw(fn)
        nd5 += 1
        # the validating guard: a throw dominated by a condition mentioning scale_correction.size()
        guard = None
        for n in fn.walk():
            if n.get("k") == "IfStmt" and "scale_correction.size()" in txt(n.get("cond")) and any(x.get("k") == "CXXThrowExpr" for x in walk(n.get("then"))):
                guard = n
        if guard is None:
            chk.ob("C07-D5.extent", fn.key + fn.sig, "size of scale_correction validated before forwarding .data()", False, fn.where,
                   "no size check at all: a vector of the wrong size is read out of bounds by the refinement", "a guard comparing scale_correction.size() with loaded x active outputs")
            continue
        # find the comparison  scale_correction.size() != X
        X = None
        for x in walk(guard["cond"]):
            if x.get("k") == "BinaryOperator" and x.get("op") in ("!=", "==") and "scale_correction.size()" in txt(x["c"][0]):
                X = x["c"][1]
        mism = []
        try:
            for env in lattice({"L", "N", "O", "s"}, {"s": (-1, 0, 1), "N": (0, 4, 7), "L": (2, 3, 5), "O": (1, 3)}):
                if env["s"] >= env["O"]:
                    continue
                xs = strip(X)
                if xs.get("k") == "DeclRefExpr" and "did" in xs:
                    w = value_of_var_at(fn, xs["did"], guard, env, res_api)
                else:
                    w = ev(xs, env, res_api)
                cfn, stride_e, bound_e, le = consumed
                c = le(stride_e, env) * le(bound_e, env)
                if w != c:
                    mism.append((dict(env), w, c))
        except Unknown as u:
            raise AnalysisBroken("cannot evaluate extents: %s" % u)
        chk.ob("C07-D5.extent", fn.key + fn.sig, "validated size == consumed extent", not mism, fn.loc(guard),
               ("e.g. loaded=%(L)d needed=%(N)d outputs=%(O)d output=%(s)d" % mism[0][0] + ": validates %d, refinement (%s) indexes %d" % (mism[0][1], callee_where, mism[0][2])) if mism else "equal on the whole lattice",
               "getNumLoaded() * (output == -1 ? outputs : 1)")
    chk.floor("C07-D5.extent", nd5, 2, "container overloads taking scale_correction")

    # ------------------------------------------------------------------ D6 tolerance == 0
    summ = {}
    for cls in ("TasGrid::GridLocalPolynomial", "TasGrid::GridWavelet"):
        for fn in db.fns(cls + "::buildUpdateMap"):
            chk.saw(fn)
            tol = [p for p in fn.params() if p["name"] == "tolerance"]
            if not tol:
                raise AnalysisBroken("buildUpdateMap without a tolerance parameter")
            tdid = tol[0]["did"]
            early = False
            fill1 = False
            for r in walk(fn.body, into_lambda=False):
                if r.get("k") == "ReturnStmt":
                    for c, tr in cond_edges_dominating(fn, r):
                        cs = strip(c)
                        if cs.get("k") == "BinaryOperator" and cs.get("op") == "==" and var_of(cs["c"][0]) == tdid and txt(strip(cs["c"][1])) in ("0", "0.0") and tr:
                            # nothing but the map construction precedes it
                            pre = [x for x in walk(fn.body, into_lambda=False) if x.get("l", 0) < r.get("l", 0) and callee(x) and "getNormalization" in callee(x)]
                            early = not pre
                            cr = carrier(r["c"][0]) if r.get("c") else None
                            v = cr[1] if cr and cr[0] == "var" else None
                            for d in walk(fn.body, into_lambda=False):
                                if d.get("k") == "VarDecl" and d.get("did") == v:
                                    for q in walk(d):
                                        if q.get("k") == "ConditionalOperator":
                                            qc = strip(q["c"][0])
                                            if qc.get("k") == "BinaryOperator" and qc.get("op") == "==" and var_of(qc["c"][0]) == tdid and const_val(strip(q["c"][1])) == 1:
                                                fill1 = True
            ops = set()
            for x in walk(fn.body):
                if x.get("k") == "BinaryOperator" and x.get("op") in ("<", "<=", ">", ">=") and var_of(x["c"][1]) == tdid:
                    ops.add(x["op"])
            summ[fn.key] = (early, fill1, tuple(sorted(ops)), fn)
    chk.floor("C07-D6.tolerance", len(summ), 6, "buildUpdateMap implementations/instantiations")
    for k, (early, fill1, ops, fn) in summ.items():
        chk.ob("C07-D6.tolerance", k, "tolerance == 0 returns the all-ones map first", early and fill1, fn.where,
               "early return under tolerance == 0: %s, map filled with 1: %s" % (early, fill1))
        okops = set(ops) <= {"<=", ">"} and bool(ops)
        chk.ob("C07-D6.tolerance", k, "equality with the tolerance counts as small", okops, fn.where, "comparison operators against tolerance: %s" % (ops,), "only `x <= tolerance` / `x > tolerance`")

    # ------------------------------------------------------------------ D9 normalisation that can be zero
    chk.rule("C07-D9.norm", "surplus tests divide by the per-output maximum returned by getNormalization(); where a quotient is tested with `<= tolerance` (a NaN from 0/0 fails the test and "
                            "flags the point) the class's getNormalization() replaces a zero maximum, otherwise an identically zero output forces refinement of every point at any tolerance")
    nnorm = 0
    for cls in ("TasGrid::GridLocalPolynomial", "TasGrid::GridWavelet"):
        gn = [f for f in gridfns if f.cls == cls and short(f.name) == "getNormalization"]
        if not gn:
            continue
        replaces_zero = False
        for q in gn[0].walk():
            if q.get("k") == "IfStmt":
                ct = txt(strip(q.get("cond"))).replace(" ", "")
                if ("==0" in ct or "==0.0" in ct or "<=0" in ct) and any(x.get("k") == "BinaryOperator" and x.get("op") == "=" for x in walk(q.get("then"))):
                    replaces_zero = True
        for f in gridfns:
            if f.cls != cls:
                continue
            nv = {v["did"] for v in f.locals().values() if "did" in v and any((callee(x) or "").endswith("::getNormalization") for c in v.get("c", []) if isinstance(c, dict) for x in walk(c))}
            if not nv:
                continue
            for q in f.walk():
                if q.get("k") != "BinaryOperator" or q.get("op") not in ("<=", "<"):
                    continue
                lhs = q["c"][0]
                divs = [x for x in walk(lhs) if x.get("k") == "BinaryOperator" and x.get("op") == "/" and any(y.get("k") == "DeclRefExpr" and y.get("did") in nv for y in walk(x["c"][1]))]
                if not divs:
                    continue
                nnorm += 1
                chk.saw(f)
                chk.ob("C07-D9.norm", f.key, "`%s` @%d" % (txt(q)[:60], q.get("l", 0)), replaces_zero, f.loc(q),
                       "" if replaces_zero else "0/0 = NaN fails this test: with an identically zero output every point is refined whatever the tolerance",
                       "getNormalization() never returns zero, or the test is written so that NaN counts as small")
    # the Sequence and Global grids build the per-output maxima in a local vector (initialised with zeros) inside the refinement routine itself
    for f in gridfns:
        if f.cls not in ("TasGrid::GridSequence", "TasGrid::GridGlobal") or f.d.get("islambda"):
            continue
        loc = {v["did"]: v for v in f.locals().values() if "did" in v}
        maxima = set()
        for did, v in loc.items():
            if v.get("t", "").startswith("std::vector<double") and v.get("c"):
                ctor = next((q for q in [strip(v["c"][0])] + list(walk(v["c"][0])) if q is not None and q.get("k") in ("CXXConstructExpr", "CXXTemporaryObjectExpr")), None)
                args = [c for c in (ctor or {}).get("c", []) if isinstance(c, dict)]
                if len(args) >= 2 and txt(strip(args[1])) in ("0.0", "0", "0."):
                    maxima.add(did)
        if not maxima:
            continue
        divs = []
        for q in f.walk():
            if q.get("k") == "BinaryOperator" and q.get("op") == "/":
                den = [x for x in [q["c"][1]] + list(walk(q["c"][1])) if x.get("k") == "DeclRefExpr" and x.get("did") in maxima]
                if den:
                    divs.append((q, den[0]["did"]))
        if not divs:
            continue
        from tsg.typestate import must_pass_before as _mpb
        # a statement that replaces zero entries: if (n == 0.0) n = <non-zero>, n an element of the vector or the variable of a range-for over it
        fixers = {}
        for a in f.walk():
            if a.get("k") != "IfStmt" or a.get("cond") is None or a.get("then") is None:
                continue
            ct = txt(strip(a["cond"])).replace(" ", "")
            if not (ct.endswith("==0.0") or ct.endswith("==0") or ct.endswith("<=0.0")):
                continue
            if not any(x.get("k") == "BinaryOperator" and x.get("op") == "=" for x in [a["then"]] + list(walk(a["then"]))):
                continue
            for did in maxima:
                direct = any(x.get("k") == "DeclRefExpr" and x.get("did") == did for x in walk(a["cond"]))
                viaranged = any(r.get("k") == "CXXForRangeStmt" and any(x.get("k") == "DeclRefExpr" and x.get("did") == did for x in walk(r.get("range") or {})) and
                                any(x is a for x in walk(r)) for r in f.walk())
                if direct or viaranged:
                    fixers.setdefault(did, []).append(a)
        def nan_matters(q):
            """the quotient (NaN for 0/0) decides something: it seeds a running maximum (`m = q; ... if (m < v) m = v;` never replaces a NaN m),
            or it is the operand of a `<=` / `<` test, which a NaN fails.  A NaN that is only ever the right operand of `m < v` is skipped by the maximum."""
            par = f.parent.get(q.get("id"))
            while par is not None and par.get("k") in ("ParenExpr", "ImplicitCastExpr", "CStyleCastExpr"):
                par = f.parent.get(par.get("id"))
            if par is None:
                return False
            tgt = None
            if par.get("k") == "VarDecl":
                tgt = par.get("did")
            elif par.get("k") == "BinaryOperator" and par.get("op") == "=":
                l = strip(par["c"][0])
                tgt = l.get("did") if l is not None and l.get("k") == "DeclRefExpr" else None
            elif par.get("k") == "BinaryOperator" and par.get("op") in ("<=", "<") and any(x is q for x in [strip(par["c"][0])] + list(walk(par["c"][0]))):
                return True
            if tgt is None:
                return False
            for a in f.walk():
                if a.get("k") == "IfStmt" and a.get("cond") is not None:
                    c_ = strip(a["cond"])
                    if c_ is not None and c_.get("k") == "BinaryOperator" and c_.get("op") in ("<", "<=") and (strip(c_["c"][0]) or {}).get("did") == tgt and \
                            any(x.get("k") == "BinaryOperator" and x.get("op") == "=" and (strip(x["c"][0]) or {}).get("did") == tgt for x in walk(a.get("then") or {})):
                        return True
            return False
        for q, did in divs:
            if not nan_matters(q):
                continue
            nnorm += 1
            chk.saw(f)
            hs = [x for a in fixers.get(did, []) for x in [a["cond"]] + list(walk(a["cond"]))]
            # the fixer sits in a loop over the vector: its loop header stands for it (an empty vector has nothing to divide by)
            for a in fixers.get(did, []):
                for anc in f.ancestors(a):
                    hdr = anc.get("cond") if anc.get("k") == "ForStmt" else anc.get("range") if anc.get("k") == "CXXForRangeStmt" else None
                    if hdr is not None:
                        hs += [hdr] + list(walk(hdr))
            ok = bool(hs) and bool(_mpb(f, q, lambda n_, hs=hs: any(x is n_ for x in hs)))
            chk.ob("C07-D9.norm", f.key, "`%s` @%d" % (txt(q)[:60], q.get("l", 0)), ok, f.loc(q),
                   "" if ok else "the per-output maximum `%s` starts at zero and stays zero for an identically zero output: 0/0 = NaN enters the comparison or the running maximum "
                   "over the outputs and decides the refinement" % loc[did].get("name"), "zero maxima replaced before the division")
    chk.floor("C07-D9.norm", nnorm, 2, "NaN-failing surplus tests")

    # ------------------------------------------------------------------ D11 refinement "within the level limits": the limits in effect are the stored ones
    chk.rule("C07-D11.limits", "a refinement call without limits uses the limits in effect: every API method stores a limits argument only when one is given (obligations of C08-D1.store), "
                               "so that the children proposed by the classic criterion stay within the limits set earlier")
    from tsg.report import Check as _Check
    from rules import c08 as _c08
    sub8 = _Check("C08", chk.tier, chk.seed)
    _c08.run(sub8)
    chk.absorb(sub8)
    nl11 = 0
    for o in sub8.obls:
        if o["rule"] == "C08-D1.store" and "Refinement" in o["function"]:
            nl11 += 1
            chk.ob("C07-D11.limits", o["function"], o["construct"], o["ok"], o["where"], o["detail"], o["expected"])
    chk.floor("C07-D11.limits", nl11, 4, "limit stores of the refinement methods (shared with C08)")
    chk.rule("C07-D12.child", "the classic criterion proposes children within the level limits: every child index appended by addChildLimited (Local Polynomial, Wavelet) is guarded by a "
                              "comparison of the level of that same index with the limit (obligations of C08-D7.child)")
    nl12 = 0
    for o in sub8.obls:
        if o["rule"] == "C08-D7.child":
            nl12 += 1
            chk.ob("C07-D12.child", o["function"], o["construct"], o["ok"], o["where"], o["detail"], o["expected"])
    chk.floor("C07-D12.child", nl12, 7, "appends of a child index under level limits (shared with C08)")

    # ------------------------------------------------------------------ D10 "all outputs" is an accumulation over the outputs
    chk.rule("C07-D10.alloutputs", "where the decision for one point is taken over all outputs (a boolean local that is set before a loop over the outputs and assigned inside it), the "
                                   "assignments inside the loop are monotone: the literal that ends the search, or an expression that contains the flag itself. `flag = test(k)` would "
                                   "let the last output alone decide")
    nacc = 0
    for f in gridfns:
        if f.d.get("islambda"):
            continue
        loc = {v["did"]: v for v in f.locals().values() if "did" in v and v.get("t") == "bool"}
        if not loc:
            continue
        for lp in [a for a in f.walk() if a.get("k") == "ForStmt" and a.get("cond") is not None]:
            ct = txt(lp["cond"])
            if not ("num_outputs" in ct or "active_outputs" in ct):
                continue
            for q in walk(lp.get("body") or {}):
                if q.get("k") != "BinaryOperator" or q.get("op") != "=":
                    continue
                l = strip(q["c"][0])
                if l is None or l.get("k") != "DeclRefExpr" or l.get("did") not in loc:
                    continue
                d = loc[l["did"]]
                # declared outside this loop
                if any(x is d for x in walk(lp)):
                    continue
                nacc += 1
                chk.saw(f)
                r = strip(q["c"][1])
                mono = (r is not None and r.get("k") == "CXXBoolLiteralExpr") or any(x.get("k") == "DeclRefExpr" and x.get("did") == l["did"] for x in walk(q["c"][1]))
                chk.ob("C07-D10.alloutputs", f.key, "`%s` inside the loop over the outputs @%d" % (txt(q)[:60], q.get("l", 0)), mono, f.loc(q),
                       "" if mono else "the flag is overwritten for every output: only the last output decides whether the point is refined")
    chk.floor("C07-D10.alloutputs", nacc, 4, "flag assignments inside loops over the outputs")

    # ------------------------------------------------------------------ D8 a validated selection parameter is consumed on every branch
    chk.rule("C07-D8.consumed", "the scale correction that the API validates and documents for surplus refinement / surplus-driven construction is handed to the grid class on every "
                                "dispatch branch that performs the selection (a branch that drops it selects the uncorrected set)")
    ncons = 0
    for f in db.all_functions(["SparseGrids/TasmanianSparseGrid.cpp"]):
        if f.cls != "TasGrid::TasmanianSparseGrid":
            continue
        sp = next((p_ for p_ in f.params() if p_["name"] == "scale_correction"), None)
        if sp is None:
            continue
        for c in f.calls(into_lambda=False):
            cal = callee(c) or ""
            if not cal.startswith("TasGrid::Grid") or short(cal) not in ("setSurplusRefinement", "getCandidateConstructionPoints", "getRefinementCanidates", "removePointsByHierarchicalCoefficient"):
                continue
            ncons += 1
            chk.saw(f)
            passed = any(x.get("k") == "DeclRefExpr" and x.get("did") == sp["did"] for a in call_args(c) for x in walk(a))
            chk.ob("C07-D8.consumed", short(f.name) + f.sig, "scale_correction handed to %s" % cal.replace("TasGrid::", ""), passed, f.loc(c),
                   "" if passed else "the correction is validated by the API and then ignored for this grid family: the selected points are those of the uncorrected rule")
    chk.floor("C07-D8.consumed", ncons, 3, "dispatch branches of entry points that take a scale correction")

    # ------------------------------------------------------------------ D7 strips whose width depends on the selected output
    chk.rule("C07-D7.strip", "a strip of a 2-D view whose width is `(output == -1) ? num_outputs : 1` is subscripted only inside that width: on the single-output edge only entry 0, "
                             "otherwise a loop variable bounded by the width (the scale correction and the per-direction values of the selected output are addressed this way)")
    nstrip = 0
    by_key = {}
    for fn in fns:
        by_key.setdefault(fn.key, fn)
    for fn in fns:
        loc = {v["did"]: v for v in fn.locals().values() if "did" in v}
        if fn.d.get("islambda") and "::lambda@" in fn.key:
            # captured locals of the enclosing function (the lambda has its own CFG, the views live outside)
            outer = by_key.get(fn.key.rsplit("::lambda@", 1)[0])
            if outer is not None:
                for v in outer.locals().values():
                    if "did" in v:
                        loc.setdefault(v["did"], v)

        def width_of(recv):
            """(stride variable name, cond text, A, B) for a local 2-D view constructed with a stride that is a conditional"""
            recv = strip(recv)
            if recv is None or recv.get("k") != "DeclRefExpr" or recv.get("did") not in loc:
                return None
            d = loc[recv["did"]]
            if "Wrapper2D" not in d.get("t", "") and "Data2D" not in d.get("t", ""):
                return None
            ini = [c for c in d.get("c", []) if isinstance(c, dict)]
            ctor = next((q for q in walk(ini[0]) if q.get("k") in ("CXXConstructExpr", "CXXTemporaryObjectExpr")), None) if ini else None
            args = [c for c in (ctor or {}).get("c", []) if isinstance(c, dict)]
            if not args:
                return None
            s0 = strip(args[0])
            if s0 is None or s0.get("k") != "DeclRefExpr" or s0.get("did") not in loc:
                return None
            sd = loc[s0["did"]]
            sini = [c for c in sd.get("c", []) if isinstance(c, dict)]
            co = strip(sini[0]) if sini else None
            if co is None or co.get("k") != "ConditionalOperator":
                return None
            return sd.get("name"), txt(strip(co["c"][0])), strip(co["c"][1]), strip(co["c"][2])

        strips = {}
        for did, v in loc.items():
            ini = [c for c in v.get("c", []) if isinstance(c, dict)]
            if not ini or "*" not in v.get("t", ""):
                continue
            i0 = strip(ini[0])
            if i0 is not None and i0.get("k") == "CXXMemberCallExpr" and (callee(i0) or "").endswith(("::getStrip", "::getIStrip", "::getCStrip")):
                w = width_of(call_object(i0))
                if w:
                    strips[did] = w
        for q in fn.walk(into_lambda=False):
            if q.get("k") != "ArraySubscriptExpr" or not is_reachable(fn, q):
                continue
            b = strip(q["c"][0])
            w = None
            if b is not None and b.get("k") == "DeclRefExpr" and b.get("did") in strips:
                w = strips[b["did"]]
            elif b is not None and b.get("k") == "CXXMemberCallExpr" and (callee(b) or "").endswith(("::getStrip", "::getIStrip", "::getCStrip")):
                w = width_of(call_object(b))
            if not w:
                continue
            svar, ctext, A, B = w
            nstrip += 1
            chk.saw(fn)
            eff_w, how = None, "width %s" % svar
            for cnd, tr in cond_edges_dominating(fn, q):
                if txt(strip(cnd)) == ctext:
                    eff_w = A if tr else B
                    how = "on the %s edge of `%s` the width is %s" % ("true" if tr else "false", ctext, txt(eff_w))
            idx = strip(q["c"][1])
            ok, why = False, ""
            cw = const_val(eff_w) if eff_w is not None else None
            if idx.get("k") == "IntegerLiteral":
                v = int(idx["val"])
                ok = v == 0 or (cw is not None and v < cw)
                why = "constant %d" % v
            elif idx.get("k") == "DeclRefExpr":
                lp = next((a for a in fn.ancestors(q) if a.get("k") == "ForStmt" and a.get("cond") is not None and
                           strip(a["cond"]).get("k") == "BinaryOperator" and strip(a["cond"]).get("op") == "<" and var_of(strip(a["cond"])["c"][0]) == idx.get("did")), None)
                if lp is not None:
                    bnd = strip(strip(lp["cond"])["c"][1])
                    bt = txt(bnd)
                    ok = bt == svar or (eff_w is not None and bt == txt(eff_w)) or (cw is not None and const_val(bnd) is not None and const_val(bnd) <= cw)
                    why = "loop variable %s < %s" % (idx.get("var"), bt)
                else:
                    why = "`%s` is not a loop variable bounded by the width" % txt(idx)
            else:
                why = "index `%s` is not of a decidable form" % txt(idx)
            chk.ob("C07-D7.strip", fn.key, "`%s` @%d" % (txt(q)[:40], q.get("l", 0)), ok, fn.loc(q), "%s; %s" % (how, why), "index inside the strip")
    chk.floor("C07-D7.strip", nstrip, 12, "subscripts of output-dependent strips")

    return ("Static rule discharge over the five grid classes (every instantiation), the construction data classes and the API layer. D1: path rules on the CFG tying every "
            "value merge to its index merge and to its emptiness guards; D3: classification of every assignment to `needed` and guard-dominance for candidate appends; "
            "D4: transitive member write sets over calls on the same object; D5: closed-form comparison of the validated and the consumed extent of scale_correction; "
            "D6: sibling agreement of the zero-tolerance abstract. Not decided: which points a tolerance selects numerically.")
