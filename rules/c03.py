"""C03  Interpolation is exact on the function space spanned by the grid's basis (declared-space table and routing)."""
from tsg.facts import DB, callee, short
from rules import c02


def run(chk):
    expl = c02.run(chk, prop="C03")
    db = DB("serial")
    chk.rule("C03-D2.route", "value route and weight route share their basis: GridGlobal::evaluate obtains its weights from getInterpolationWeights; "
                             "GridSequence::evaluate and getInterpolationWeights both read cacheBasisValues")
    ge = db.fn("TasGrid::GridGlobal::evaluate")
    chk.saw(ge)
    chk.ob("C03-D2.route", ge.name, "evaluate uses getInterpolationWeights", any((callee(c) or "").endswith("GridGlobal::getInterpolationWeights") for c in ge.calls()), ge.where)
    se = db.fn("TasGrid::GridSequence::evaluate")
    sw = db.fn("TasGrid::GridSequence::getInterpolationWeights")
    a = {short(callee(c)) for c in se.calls() if callee(c)}
    b = {short(callee(c)) for c in sw.calls() if callee(c)}
    chk.saw(se)
    chk.ob("C03-D2.route", se.name, "evaluate and getInterpolationWeights share cacheBasisValues", "cacheBasisValues" in a and "cacheBasisValues" in b, se.where, "evaluate: %s" % sorted(x for x in a if "cache" in x))
    return expl
