"""C03  Interpolation is exact on the function space spanned by the grid's basis (declared-space table and routing)."""
from tsg.facts import DB, callee, short
from rules import c02
from tsg.build import AnalysisBroken


def run(chk):
    expl = c02.run(chk, prop="C03")
    db = DB("serial")
    chk.rule("C03-D2.route", "value route and weight route share their basis: GridGlobal::evaluate obtains its weights from getInterpolationWeights; "
                             "GridSequence::evaluate and getInterpolationWeights both read cacheBasisValues")
    ge = db.fn("TasGrid::GridGlobal::evaluate")
    chk.saw(ge)
    chk.ob("C03-D2.route", ge.name, "evaluate uses getInterpolationWeights", any((callee(c) or "").endswith("GridGlobal::getInterpolationWeights") for c in ge.calls()), ge.where)
    se = db.fn("TasGrid::GridSequence::evaluate")
    sw = db.fn("TasGrid::GridSequence::getInterpolationWeights")
    a = {short(callee(c)) for c in se.calls() if callee(c)}
    b = {short(callee(c)) for c in sw.calls() if callee(c)}
    chk.saw(se)
    chk.ob("C03-D2.route", se.name, "evaluate and getInterpolationWeights share cacheBasisValues", "cacheBasisValues" in a and "cacheBasisValues" in b, se.where, "evaluate: %s" % sorted(x for x in a if "cache" in x))
    from rules import vander, workset
    db.load_all()
    chk.rule("C03-D3.vandermonde", "local polynomial surpluses by the Kronecker algorithm: columns and basis values of the sparse 1-D Vandermonde pattern agree (obligations of C01-D5)")
    nv = vander.van_rule(chk, db, "C03-D3.vandermonde")
    nw = vander.walk_rule(chk, db, "C03-D3.vandermonde")
    chk.floor("C03-D3.vandermonde", nv, 30, "paired appends in van_matrix")
    ncell = vander.cell_rule(chk, db, "C03-D3.vandermonde")
    chk.floor("C03-D3.vandermonde", nw + vander.cell_rule.other_shape, 5, "ancestor walks in van_matrix (while-loop walks compared with getParent step by step, other shapes executed row by row)")
    chk.floor("C03-D3.vandermonde", ncell, 1, "ancestor walk of the piecewise-constant rule executed row by row")
    chk.rule("C03-D4.workset", "every selection between the loaded and the needed point set (the set whose space getGlobalPolynomialSpace lists, evaluate() uses and getInterpolationWeights spans) "
                               "takes the loaded points whenever there are any")
    ns = workset.workset_rule(chk, db, "C03-D4.workset")
    chk.floor("C03-D4.workset", ns, 35, "work-set selections in the grid classes")
    from rules import product
    chk.rule("C03-D5.tensor", "every basis function is the tensor product of its one-dimensional factors: the value routines are folded for num_dimensions = 1..4 with the factors as symbols tagged "
                              "by the indexes that address them, the result must be prod_k V_k(point[k], x[k]) (wavelet integrals: prod_k W_k)")
    nt = 0
    for name, kind in (("TasGrid::GridLocalPolynomial::evalBasisSupported", "V"), ("TasGrid::GridLocalPolynomial::evalBasisRaw", "V"), ("TasGrid::GridWavelet::evalBasis", "V"),
                       ("TasGrid::GridWavelet::evalIntegral", "W"), ("TasGrid::GridSequence::evaluate", "V"), ("TasGrid::GridGlobal::getInterpolationWeights", "V")):
        fs = db.fns(name, required=False)
        got = sum(product.value_rule(chk, db, "C03-D5.tensor", f, kind) for f in fs)
        if not got:
            raise AnalysisBroken("C03-D5: %s is no longer in a foldable form" % name)
        nt += got
    chk.floor("C03-D5.tensor", nt, 40, "folded tensor-product value routines (function x dimension)")
    from rules import c09
    chk.rule("C03-D6.relations", "single-sample construction keeps the interpolant exact only if the incremental surplus update reaches every dependent point: getKid is the inverse of "
                                 "getParent / getStepParent (obligations of C09-D4)")
    nr6 = c09.hierarchy_relations(chk, db, "C03-D6.relations")
    chk.floor("C03-D6.relations", nr6, 4, "local polynomial rules with closed-form hierarchy relations")
    from rules import cache
    cache.size_cache_rule(chk, db, "C03-D7.cache")
    chk.rule("C03-D8.params", "every rebuild of the one dimensional node cache inside a Global grid uses the grid's own rule, alpha and beta: nodes rebuilt with other parameters move under values "
                              "that stay where they were, and the interpolant stops reproducing its space (obligations of C02-D5)")
    c02.params_rule(chk, db, "C03-D8.params")
    return expl + (" Added: column/value agreement of the Kronecker Vandermonde pattern and the work-set selection of every grid method (the listed space, the evaluated surrogate and the weights "
                   "refer to the same point set); tensor-product structure of the basis value routines; coherence of the size-validated parent-DAG cache behind the weights.")
