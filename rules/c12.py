"""C12  Const operations on one grid are safe to call concurrently (acceleration mode none)."""
from tsg.facts import DB, strip, txt, callee, call_args, call_object, walk, short, callee_node
from tsg.flow import cond_edges_dominating
from tsg.effects import Purity, direct_impurities
from tsg.build import AnalysisBroken

TSG = "TasGrid::TasmanianSparseGrid"


def gpu_only_call(fn, call):
    """calls that cannot execute in acceleration mode none: device entry points (suffix GPU / Gpu, they take
    device pointers) and calls guarded by on_gpu()/useKernels()/a gpu acceleration mode test"""
    cal = callee(call) or ""
    last = cal.rsplit("::", 1)[-1]
    if "GPU" in last or "Gpu" in last or cal.startswith(("TasGrid::TasGpu::", "TasGrid::GpuVector", "TasGrid::GpuEngine", "TasGrid::AccelerationContext::setDevice")):
        return True
    for a in fn.ancestors(call):
        if a.get("k") == "IfStmt":
            c = txt(a.get("cond"))
            if ("on_gpu()" in c or "useKernels()" in c) and any(x is call for x in walk(a.get("then"))):
                return True
        if a.get("k") == "CaseStmt" and "accel_gpu" in txt(a.get("lhs")):
            return True
    return False


def run(chk):
    db = DB("serial")
    db.load_all()
    chk.rule("C12-D1.pure", "over the call-graph closure (virtual calls resolved to all overriders) of every const public method of TasmanianSparseGrid, restricted to acceleration mode none, "
                            "no write reaches a mutable member of the grid object, a namespace-scope or function-local static variable, or goes through const_cast")
    chk.rule("C12-D2.local", "no const method of the helper classes used by const grid operations (index sets, storage, wrappers, rules, caches, linear solvers) writes a mutable member or a static variable")
    chk.rule("C12-D0.control", "positive control: the engine must find the known GPU-cache writers in const code and classify them GPU-only")

    rec = db.record(TSG)
    entries = [m for m in rec["methods"] if m["const"] and m["access"] == "public"]
    P = Purity(db, skip_call=gpu_only_call)
    nentry = 0
    sites = {}
    visited = set()
    for m in entries:
        last = m["name"].rsplit("::", 1)[-1]
        if "GPU" in last or "Gpu" in last:
            continue
        for fn in db.fns(m["name"], required=False):
            if fn.sig != m["sig"]:
                continue
            nentry += 1
            chk.saw(fn)
            found = P.closure(fn)
            visited |= P.visited
            for path, f, n, kind, what in found:
                sites.setdefault((f.name, kind, what), {"entries": set(), "path": path, "f": f, "n": n})["entries"].add(last)
            bad = sorted({"%s %s in %s" % (kind, short(what), short(f.name)) for path, f, n, kind, what in found})
            chk.ob("C12-D1.pure", "entry " + fn.name + fn.sig, "const closure is pure", not bad, fn.where,
                   ("reaches: " + "; ".join(bad)[:300]) if bad else "no shared write reachable")
    chk.floor("C12-D1.pure", nentry, 60, "const public entry points of TasmanianSparseGrid")
    chk.floor("C12-D1.pure", len(visited), 500, "functions in the const call-graph closure")
    # one obligation per offending construct (this is what known_findings.json keys on)
    for (fname, kind, what), info in sorted(sites.items()):
        f, n = info["f"], info["n"]
        chk.ob("C12-D1.pure", fname, "%s %s" % (kind, short(what)), False, f.loc(n),
               "written in a const path reachable from %s via %s" % (sorted(info["entries"])[:6], " | ".join(info["path"][-3:])), "no shared state is modified by const operations")
    # the entry obligations above repeat the same construct: keep only the per-construct ones as failures
    for o in chk.obls:
        if o["rule"] == "C12-D1.pure" and o["function"].startswith("entry ") and not o["ok"]:
            o["ok"] = True
            o["detail"] = "impure, reported once per construct: " + o["detail"]

    # ------------------------------------------------------------------ D3: mutation of a pointee from const code
    chk.rule("C12-D3.pointee", "const code never calls, through a pointer-like data member (unique_ptr / raw pointer: the pointee is not const inside a const method), a non-const method that "
                               "writes its own members: such a call modifies state shared by all concurrent const callers without any mutable / const_cast being visible")
    from tsg.typestate import member_writes as _mw
    from tsg.flow import is_reachable as _reach
    wm = {}

    def writes_own(t, depth=0):
        k = (t.key, t.sig)
        if k in wm:
            return wm[k]
        wm[k] = None
        res = next((txt(w)[:50] for w, fld, kd in _mw(t, into_lambda=False) if _reach(t, w)), None)
        if res is None and depth < 3:
            for c in t.calls(into_lambda=False):
                if (callee(c) or "").startswith((t.cls or "?") + "::"):
                    for t2 in P.targets(t, c):
                        r2 = writes_own(t2, depth + 1)
                        if r2:
                            res = "%s -> %s" % (short(t2.name), r2)
                            break
                if res:
                    break
        wm[k] = res
        return res
    byks = {}
    for fns_ in db.load_all().values():
        for g in fns_:
            byks[(g.key, g.sig)] = g
    npt = 0
    nseen_ptr = 0
    for k in sorted(visited):
        g = byks.get(k) if isinstance(k, tuple) else None
        if g is None or not g.d.get("const") or g.file.startswith("@verif"):
            continue
        for c in g.calls(into_lambda=False):
            if c.get("k") != "CXXMemberCallExpr" or gpu_only_call(g, c) or not _reach(g, c):
                continue
            h = callee_node(c) or {}
            obj = call_object(c)
            viaptr = [x for x in walk(obj) if x.get("k") == "MemberExpr" and x.get("field") and not x.get("mut") and
                      ("unique_ptr" in (x.get("t") or "") or (x.get("t") or "").rstrip().endswith("*"))] if obj is not None else []
            if not viaptr:
                continue
            nseen_ptr += 1          # positive control: the matcher sees calls made through pointer members (const callees included)
            if h.get("cm") or h.get("static"):
                continue            # const or static callee
            if "const " in (viaptr[0].get("t") or "").split("unique_ptr<")[-1][:8]:
                continue
            cal = callee(c) or ""
            if cal.startswith("std::"):
                # a non-const method of a standard container that lives behind the pointer (sort, push_back, clear, ...): it has no body to look at and always changes the container
                from tsg.flow import is_accessor as _acc
                if not _acc(cal):
                    npt += 1
                    chk.ob("C12-D3.pointee", g.key + g.sig, "non-const %s called through %s" % (short(cal), short(viaptr[0]["field"])), False, g.loc(c),
                           "`%s` modifies a container of the pointee inside a const method" % txt(c)[:60], "const callee, or a copy of the container")
                continue
            for t in P.targets(g, c):
                if t.file.startswith("@verif") or (t.name or "").startswith("std::"):
                    continue
                npt += 1
                w = writes_own(t)
                chk.ob("C12-D3.pointee", g.key + g.sig, "non-const %s called through %s" % (short(t.name), short(viaptr[0]["field"])), not w, g.loc(c),
                       "the callee writes `%s`" % w if w else "the callee writes none of its members")
    chk.floor("C12-D3.pointee", nseen_ptr, 10, "calls through pointer-like members in the const closure (matcher control)")
    chk.ob("C12-D3.pointee", "(const closure)", "calls through pointer-like members: every callee is const or writes nothing", True, "", "%d calls seen, %d with a non-const callee" % (nseen_ptr, npt))

    # ------------------------------------------------------------------ D4: C library functions that keep hidden global state
    chk.rule("C12-D4.libc", "no function in the const call-graph closure calls a C library function that is documented as not thread-safe because it writes hidden global state "
                            "(lgamma/gamma write signgam; rand, strtok, localtime, gmtime, asctime, ctime, strerror, setlocale, getenv-modifying calls, tmpnam ...); "
                            "such a call is a data race between two const operations even on different grids")
    MT_UNSAFE = {"lgamma", "lgammaf", "lgammal", "gamma", "gammaf", "rand", "srand", "random", "srandom", "drand48", "lrand48", "mrand48", "srand48", "strtok", "localtime", "gmtime",
                 "asctime", "ctime", "strerror", "setlocale", "tmpnam", "putenv", "setenv", "unsetenv", "getlogin", "ttyname", "readdir", "ecvt", "fcvt", "gcvt", "l64a", "basename", "dirname"}
    nlib = 0
    ncalls = 0
    for k in sorted(visited):
        g = byks.get(k) if isinstance(k, tuple) else None
        if g is None or g.file.startswith("@verif"):
            continue
        for c in g.calls():
            cal = callee(c) or ""
            ncalls += 1
            base = cal[5:] if cal.startswith("std::") else cal.lstrip(":")
            if base in MT_UNSAFE and _reach(g, c) and not gpu_only_call(g, c):
                nlib += 1
                chk.ob("C12-D4.libc", g.key + g.sig, "call of %s" % cal, False, g.loc(c), "%s() writes hidden global state of the C library" % base, "a re-entrant alternative")
    chk.floor("C12-D4.libc", ncalls, 2000, "call sites examined in the const closure")
    chk.ob("C12-D4.libc", "(const closure)", "no call of a C library function with hidden global state", nlib == 0, "", "%d call sites in %d functions examined" % (ncalls, len(visited)))

    # D2 + control
    nconst = 0
    control = 0
    for fns in db.load_all().values():
        for fn in fns:
            if not fn.d.get("const") or not fn.file.startswith(("SparseGrids/", "Addons/", "DREAM/")) or "test" in fn.file.lower():
                continue
            nconst += 1
            imp = [(n, k, w) for n, k, w in direct_impurities(fn) if k != "const_cast"]
            if not imp:
                continue
            last = fn.name.rsplit("::", 1)[-1]
            gpu = "GPU" in last or "Gpu" in last or all("gpu_cache" in w for _, _, w in imp)
            if gpu:
                control += 1
                continue
            if (fn.cls or "").startswith("TasGrid::Grid") or fn.cls == "TasGrid::BaseCanonicalGrid":
                # internal const helpers of the grid classes matter only when reachable from a const
                # public operation: that is exactly what D1 decides (updateAccelerationData, for example,
                # is const but only called from non-const enableAcceleration/setGPUID)
                continue
            for n, k, w in imp:
                if (fn.name, k, w) in sites:
                    continue        # already reported with its path under D1
                chk.ob("C12-D2.local", fn.name, "%s %s" % (k, short(w)), False, fn.loc(n), "const method writes shared state")
    chk.floor("C12-D2.local", nconst, 400, "const methods examined")
    chk.ob("C12-D2.local", "(library)", "%d const methods examined" % nconst, True, "")
    chk.ob("C12-D0.control", "(library)", "GPU cache writers found in const methods and classified device-only", control >= 5, "", "%d such methods" % control)

    # ------------------------------------------------------------------ D5 the lazily built wavelet matrix is rebuilt only when its size is wrong
    chk.rule("C12-D5.warm", "the documented weaker contract of the wavelet weight queries (const calls are safe once one of them has completed on the grid): every call of a routine that writes "
                            "the cached matrix from a const method lies on the true edge of exactly one test, the comparison of the cached number of rows with the number of points - "
                            "no further disjunct under which a warmed-up grid would rebuild the shared matrix again")
    from tsg.flow import cond_edges_dominating
    nwarm = 0
    GW = "TasGrid::GridWavelet"
    builders = {g.key for g in db.fns(GW + "::buildInterpolationMatrix")}
    for f in db.all_functions(["SparseGrids/tsgGridWavelet.cpp", "SparseGrids/tsgGridWavelet.hpp"]):
        if f.cls != GW or not f.d.get("const") or f.key in builders:
            continue
        for c in f.calls():
            t = db.resolve(c)
            if t is None or t.key not in builders:
                continue
            nwarm += 1
            chk.saw(f)
            # an enclosing test whose outcome gives no atom on this edge (true edge of a disjunction) is weaker than the size test
            encl = [a for a in f.ancestors(c) if a.get("k") == "IfStmt"]
            in_if = {q.get("id") for a in encl if a.get("cond") is not None for q in [a["cond"]] + list(walk(a["cond"]))}
            edges = [(txt(strip(e)).replace(" ", ""), tr) for e, tr in cond_edges_dominating(f, c) if e.get("id") in in_if or (strip(e) or {}).get("id") in in_if]
            size_tests = [(e, tr) for e, tr in edges if "inter_matrix.getNumRows()" in e and ("!=" in e or "==" in e)]
            ok = len(encl) == 1 and len(edges) == 1 and len(size_tests) == 1 and (("!=" in size_tests[0][0]) == size_tests[0][1])
            chk.ob("C12-D5.warm", f.key + f.sig, "lazy build of the cached matrix @%d" % c.get("l", 0), ok, f.loc(c),
                   "guards on this path: %s; enclosing tests: %s" % (edges, [txt(strip(a.get("cond")))[:70] for a in encl]),
                   "rebuilt exactly when the cached number of rows differs from the number of points")
    chk.floor("C12-D5.warm", nwarm, 1, "lazy builds of the wavelet matrix in const methods")

    return ("Static rule discharge (R-EFFECT): transitive write sets over the resolved call graph of all const public methods of TasmanianSparseGrid; virtual calls fan out to the five grid classes; "
            "writes to mutable members are followed only along receivers rooted in the entry object (effects on call-local objects cannot be shared), writes to globals/function statics always; "
            "device-only code (suffix GPU, on_gpu()/useKernels() guards) is excluded because the property is stated for acceleration mode none. Absence of races inside std:: and result "
            "equality under concurrency are taken from purity, not decided separately.")
