"""C11  Copies are complete, equal to the source and independent of it (structural clauses)."""
import sympy
from tsg.facts import DB, strip, txt, callee, call_args, call_object, walk, const_val, short, callee_node
from tsg.flow import var_of, cond_edges_dominating
from tsg.iotokens import field_in
from tsg.build import AnalysisBroken
from tsg.typestate import must_pass_before, member_writes

GRIDS = ["Global", "Sequence", "LocalPolynomial", "Wavelet", "Fourier"]
TSG = "TasGrid::TasmanianSparseGrid"
# members that a copy must not take from the source, each with its reason
NOT_COPIED = {"acceleration": "the copy uses the acceleration context of the destination object (constructor parameter)"}
STRIDED_TYPES = ("Data2D<double>", "StorageSet", "TasGrid::Data2D<double>", "TasGrid::StorageSet")


def copy_ctor(db, cls):
    for f in db.fns(cls + "::" + short(cls)):
        ps = f.params()
        if len(ps) == 4 and ps[2]["t"] == "int" and ps[3]["t"] == "int" and ("const " + short(cls)) in ps[1]["t"].replace("TasGrid::", ""):
            return f
    raise AnalysisBroken("copy constructor of %s not found" % cls)


def reach_c11(cfg, a, b):
    """CFG position b is reachable from position a (block, index)"""
    if a[0] == b[0] and a[1] < b[1]:
        return True
    seen, work = set(), list(cfg.succs(a[0]))
    while work:
        x = work.pop()
        if x in seen:
            continue
        seen.add(x)
        if x == b[0]:
            return True
        work.extend(cfg.succs(x))
    return False


def run(chk):
    db = DB("serial")
    db.load_all()
    chk.rule("C11-D1.coverage", "the copy constructor of every grid class (and of the base) initialises every non-mutable data member from the same member of the source, in the initialiser list or the body; "
                                "frozen exception: acceleration comes from the constructor parameter")
    chk.rule("C11-D2.split", "every member whose stride is the number of outputs (StorageSet / Data2D<double>) is copied whole when the output range is complete and through "
                             "splitValues/splitData(ibegin, iend) of the same source member otherwise; num_outputs becomes iend - ibegin; pending construction data are restricted with the same range")
    chk.rule("C11-D3.sharing", "no data member of a copied class is a raw pointer, reference or shared_ptr (except the acceleration context); unique_ptr members are deep-copied with make_unique<T>(*source)")
    chk.rule("C11-D4.kernel", "spltVector2D copies (iend - ibegin) entries starting at offset ibegin of every strip, advancing the source by the old stride and the destination by the new one")
    chk.rule("C11-D5.toplevel", "TasmanianSparseGrid::copyGrid clears the destination, dispatches every grid family to the copy constructor of that family with the same output range, and copies every remaining data member")

    ncov = 0
    for cls in ["TasGrid::BaseCanonicalGrid"] + ["TasGrid::Grid" + g for g in GRIDS]:
        rec = db.record(cls)
        f = copy_ctor(db, cls)
        chk.saw(f)
        src = f.params()[1]
        ib, ie = f.params()[2]["name"], f.params()[3]["name"]
        inits = {short(i["field"]): i for i in f.d.get("inits", []) if i.get("field") and i.get("written")}
        bases = [i for i in f.d.get("inits", []) if i.get("base")]
        if cls != "TasGrid::BaseCanonicalGrid":
            okb = bool(bases) and any(txt(x) in (ib,) for x in walk(bases[0]["init"])) and any(txt(x) == ie for x in walk(bases[0]["init"]))
            chk.ob("C11-D1.coverage", cls, "base sub-object copied with the same output range", okb, f.where)
        # body assignments / make_unique for unique_ptr members
        body_fields = {}
        for n in walk(f.body):
            if n.get("k") in ("CXXOperatorCallExpr", "BinaryOperator") and n.get("op") == "=":
                lhs = n["c"][1] if n.get("k") == "CXXOperatorCallExpr" else n["c"][0]
                rhs = n["c"][2] if n.get("k") == "CXXOperatorCallExpr" else n["c"][1]
                fl = field_in(lhs, None)
                if fl and strip(lhs).get("k") == "MemberExpr":
                    body_fields[fl] = (n, rhs)
        for fld in rec["fields"]:
            name, ty = fld["name"], fld["t"]
            if fld["mutable"]:
                continue
            ncov += 1
            where = "%s:%d" % (rec["file"], fld["l"])
            if name in NOT_COPIED:
                i = inits.get(name)
                ok = i is not None and var_of(i["init"]) == f.params()[0]["did"]
                chk.ob("C11-D1.coverage", cls, name, ok, where, NOT_COPIED[name])
                continue
            src_field = None
            init_node = None
            if name in inits:
                init_node = inits[name]["init"]
            elif name in body_fields:
                init_node = body_fields[name][1]
            if init_node is None:
                chk.ob("C11-D1.coverage", cls, name, False, where, "member is not initialised from the source: the copy starts with a default value")
                continue
            # every reference to a member of the source inside the initialiser
            refs = set()
            for x in walk(init_node):
                if x.get("k") == "MemberExpr" and "field" in x and x.get("c"):
                    b = strip(x["c"][0])
                    if b is not None and (var_of(b) == src["did"] or (b.get("k") == "UnaryOperator" and var_of(b["c"][0]) == src["did"])):
                        refs.add(short(x["field"]))
            own = {name}
            extra_ok = {"num_outputs", "rule"}       # selectors used in conditions
            ok = name in refs and refs <= own | extra_ok
            if name == "num_outputs":
                ok = txt(strip(init_node)).replace(" ", "") == "%s-%s" % (ie, ib)
            chk.ob("C11-D1.coverage", cls, name, ok, where, "initialised from source member(s) %s" % sorted(refs) if refs else "initialiser: %s" % txt(init_node)[:60])
            # D2
            if any(t in ty for t in STRIDED_TYPES) and name != "parents":
                e = strip(init_node)
                okd = False
                detail = "copied without splitting the outputs"
                if e.get("k") == "ConditionalOperator":
                    cond = txt(strip(e["c"][0])).replace(" ", "")
                    whole, part = strip(e["c"][1]), strip(e["c"][2])
                    split = [q for q in walk(e["c"][2]) if (callee(q) or "").endswith(("::splitData", "::splitValues"))]
                    full_cond = cond in ("num_outputs==%s->num_outputs" % src["name"], "%s-%s==%s.num_outputs" % (ie, ib, src["name"]), "num_outputs==%s.num_outputs" % src["name"])
                    okd = full_cond and len(split) == 1 and [txt(strip(a)) for a in call_args(split[0])] == [ib, ie] and field_in(call_object(split[0]), None) == name and field_in(whole, None) == name
                    detail = "cond `%s`, split args %s" % (cond, [txt(strip(a)) for a in call_args(split[0])] if split else None)
                chk.ob("C11-D2.split", cls, name, okd, where, detail)
            # D3
            if "unique_ptr" in ty:
                n, rhs = body_fields.get(name, (None, None))
                mk = [q for q in walk(rhs)] if rhs is not None else []
                okp = any((callee(q) or "") == "TasGrid::Utils::make_unique" and any((x.get("k") == "UnaryOperator" or x.get("k") == "CXXOperatorCallExpr") and x.get("op") == "*" and field_in(x, None) == name for x in walk(q)) for q in mk)
                chk.ob("C11-D3.sharing", cls, "%s deep-copied" % name, okp, where, txt(rhs)[:80] if rhs is not None else "")
                # restricted to the same range when outputs are split
                rs = [c for c in f.calls() if (callee(c) or "").endswith("::restrictData") and field_in(call_object(c), None) == name]
                okr = len(rs) == 1 and [txt(strip(a)) for a in call_args(rs[0])] == [ib, ie]
                if okr:
                    ed = [(txt(strip(c2)).replace(" ", ""), tr) for c2, tr in cond_edges_dominating(f, rs[0])]
                    okr = any(t == "num_outputs!=%s->num_outputs" % src["name"] and tr for t, tr in ed)
                chk.ob("C11-D2.split", cls, "%s restricted to [ibegin, iend)" % name, okr, where)
            elif ("*" in ty or "&" in ty or "shared_ptr" in ty) and name not in NOT_COPIED:
                chk.ob("C11-D3.sharing", cls, "%s: %s" % (name, ty), False, where, "pointer/reference member would be shared between source and copy")
    chk.floor("C11-D1.coverage", ncov, 45, "data members of the copied classes")

    # restrictData of the construction data classes
    nr = 0
    for cls in ("TasGrid::DynamicConstructorDataGlobal", "TasGrid::SimpleConstructData"):
        for f in db.fns(cls + "::restrictData"):
            chk.saw(f)
            nr += 1
            ib, ie = f.params()[0]["name"], f.params()[1]["name"]
            # the stored vector of one sample is followed as a slice [lo, hi) of its old contents through the statements that change it
            IB, IE, N = sympy.Symbol(ib, integer=True, nonnegative=True), sympy.Symbol(ie, integer=True, nonnegative=True), sympy.Symbol("old_size", integer=True, nonnegative=True)

            def offset(e, tgt):
                """E for `tgt.begin() + E` / `tgt.data() + E` / plain begin() (0) / end() (size); None when not an iterator into tgt"""
                e = strip(e)
                if e is None:
                    return None
                if e.get("k") in ("CXXConstructExpr", "CXXFunctionalCastExpr", "CXXBindTemporaryExpr") and len([c for c in e.get("c", []) if isinstance(c, dict)]) == 1:
                    return offset([c for c in e["c"] if isinstance(c, dict)][0], tgt)       # iterator -> const_iterator conversion
                if e.get("k") == "CXXMemberCallExpr" and txt(strip(call_object(e)) or {}) == tgt:
                    nm = (callee(e) or "").rsplit("::", 1)[-1]
                    return 0 if nm in ("begin", "cbegin", "data") else "end" if nm in ("end", "cend") else None
                if e.get("k") in ("CXXOperatorCallExpr", "BinaryOperator") and e.get("op") == "+":
                    ch = [c for c in e.get("c", []) if isinstance(c, dict)]
                    a, b = (ch[1], ch[2]) if e.get("k") == "CXXOperatorCallExpr" else (ch[0], ch[1])
                    base = offset(a, tgt)
                    if base == 0:
                        try:
                            return sympy.sympify(txt(strip(b)).replace("(size_t)", "").replace("static_cast<size_t>", ""), locals={ib: IB, ie: IE})
                        except Exception:
                            return None
                return None
            lo, hi = sympy.Integer(0), N
            nwr, unknown = 0, None
            for n in walk(f.body):
                if n.get("k") == "CXXOperatorCallExpr" and n.get("op") == "=" and txt(strip(n["c"][1])).endswith(".value"):
                    tgt = txt(strip(n["c"][1]))
                    nwr += 1
                    cons = [q for q in [strip(n["c"][2])] + list(walk(n["c"][2])) if q.get("k") in ("CXXTemporaryObjectExpr", "CXXConstructExpr") and len([c for c in q.get("c", []) if isinstance(c, dict)]) >= 2]
                    offs = [offset(a, tgt) for a in [c for c in cons[0].get("c", []) if isinstance(c, dict)][:2]] if cons else [None, None]
                    if offs[0] is None or offs[1] is None:
                        unknown = txt(n)[:80]
                        break
                    a_, b_ = (N if o == "end" else o for o in offs)
                    lo, hi = lo + a_, lo + b_
                elif n.get("k") == "CXXMemberCallExpr" and txt(strip(call_object(n)) or {}).endswith(".value") and not (callee_node(n) or {}).get("cm") and not (callee(n) or "").endswith(("::begin", "::end", "::data")):
                    tgt = txt(strip(call_object(n)))
                    nm = (callee(n) or "").rsplit("::", 1)[-1]
                    args = call_args(n)
                    nwr += 1
                    if nm == "resize" and len(args) == 1:
                        try:
                            hi = lo + sympy.sympify(txt(strip(args[0])).replace("(size_t)", "").replace("static_cast<size_t>", ""), locals={ib: IB, ie: IE})
                        except Exception:
                            unknown = txt(n)[:80]
                            break
                    elif nm == "erase" and len(args) == 2:
                        a_, b_ = offset(args[0], tgt), offset(args[1], tgt)
                        if a_ is None or b_ is None:
                            unknown = txt(n)[:80]
                            break
                        if b_ == "end":
                            hi = lo + a_
                        elif a_ == 0:
                            lo = lo + b_
                        else:
                            unknown = txt(n)[:80]
                            break
                    else:
                        unknown = txt(n)[:80]
                        break
            if unknown is not None:
                raise AnalysisBroken("restrictData of %s changes the sample values in a form the slice model does not know: %s" % (cls, unknown))
            ok = nwr >= 1 and sympy.simplify(lo - IB) == 0 and sympy.simplify(hi - IE) == 0
            detail = "%d write(s); every sample becomes old[%s, %s)" % (nwr, lo, hi)
            chk.ob("C11-D2.split", cls, "restrictData keeps entries [ibegin, iend) of every sample", ok, f.where, detail)
            rec = db.record(cls)
            if any(fl["name"] == "num_outputs" for fl in rec["fields"]):
                wn = [n for n, fld, kd in member_writes(f) if short(fld) == "num_outputs"]
                okn = len(wn) == 1 and txt(strip(wn[0]["c"][1])).replace(" ", "").replace("(size_t)", "").strip("()") == "%s-%s" % (ie, ib)
                chk.ob("C11-D2.split", cls, "restrictData updates the stored number of outputs", okn, f.where,
                       "" if okn else "num_outputs keeps the old value although every sample now has iend - ibegin entries: later copy_n(value, num_outputs) reads past the end")
    chk.floor("C11-D2.split", nr, 2, "restrictData implementations")

    # ------------------------------------------------------------------ D4
    sp = [f for f in db.fns("TasGrid::spltVector2D") if f.d.get("targs") == "double"]
    if not sp:
        raise AnalysisBroken("spltVector2D<double> not found")
    f = sp[0]
    chk.saw(f)
    # roles by position and by dataflow, not by the names of the locals: parameters (x, stride, ibegin, iend); the returned vector; iterators into both
    from tsg.sym import to_sympy, NotClosedForm
    ps = f.params()
    XS, ST, IB, IE = sympy.Symbol("xsize", positive=True, integer=True), sympy.Symbol("stride", positive=True, integer=True), sympy.Symbol("ibegin", integer=True), sympy.Symbol("iend", integer=True)
    IX, IR = sympy.Symbol("it_source"), sympy.Symbol("it_result")
    loc = f.locals()
    rets = [q for r in f.walk() if r.get("k") == "ReturnStmt" and r.get("c") for q in [r["c"][0]] + list(walk(r["c"][0])) if q.get("k") == "DeclRefExpr" and q.get("did") in f.locals()]
    res_did = rets[0].get("did") if rets else None

    def resolve(n, depth=[0]):
        k = n.get("k")
        if k == "CXXMemberCallExpr" and short(callee(n) or "") == "size" and (strip(call_object(n)) or {}).get("did") == ps[0]["did"]:
            return XS
        if k == "CXXMemberCallExpr" and short(callee(n) or "") in ("begin", "cbegin"):
            o = strip(call_object(n)) or {}
            if o.get("did") == ps[0]["did"]:
                return IX
            if o.get("did") == res_did:
                return IR
        if k == "DeclRefExpr":
            d = n.get("did")
            if d == ps[1]["did"]:
                return ST
            if d == ps[2]["did"]:
                return IB
            if d == ps[3]["did"]:
                return IE
            dl = loc.get(d)
            if dl is not None and dl.get("c") and depth[0] < 6:
                depth[0] += 1
                try:
                    ini = dl["c"][0]
                    # size_t sbegin(ibegin): a constructor-style initialiser
                    return to_sympy(ini, resolve)
                finally:
                    depth[0] -= 1
        if k in ("CXXOperatorCallExpr",) and n.get("op") == "+":
            ch = [c for c in n.get("c", []) if isinstance(c, dict)]
            return to_sympy(ch[1], resolve) + to_sympy(ch[2], resolve)
        return None

    def sym(e):
        try:
            return sympy.simplify(to_sympy(e, resolve))
        except NotClosedForm as ex:
            return None
    NS = sympy.floor(XS / ST)
    cp = [c for c in f.calls("std::copy_n")]
    got = [sym(a) for a in call_args(cp[0])] if len(cp) == 1 else []
    okc = len(cp) == 1 and None not in got and sympy.simplify(got[0] - (IX + IB)) == 0 and sympy.simplify(got[1] - (IE - IB)) == 0 and sympy.simplify(got[2] - IR) == 0
    chk.ob("C11-D4.kernel", f.name, "each strip: copy (iend - ibegin) entries from source + ibegin to the destination", okc, f.loc(cp[0]) if cp else f.where, str(got))
    adv = {}
    for c in f.calls("std::advance"):
        a0, a1 = sym(call_args(c)[0]), sym(call_args(c)[1])
        adv[str(a0)] = a1
    okadv = set(adv) == {str(IX), str(IR)} and adv[str(IX)] is not None and adv[str(IR)] is not None and sympy.simplify(adv[str(IX)] - ST) == 0 and sympy.simplify(adv[str(IR)] - (IE - IB)) == 0
    chk.ob("C11-D4.kernel", f.name, "source advances by stride, destination by iend - ibegin", okadv, f.where, str(adv))
    rd = loc.get(res_did)
    rsize = None
    if rd is not None:
        for q in walk(rd):
            if q.get("k") == "CXXConstructExpr":
                a_ = [x for x in q.get("c", []) if isinstance(x, dict)]
                if a_:
                    rsize = sym(a_[0])
                    break
    okr = rsize is not None and sympy.simplify(rsize - NS * (IE - IB)) == 0
    chk.ob("C11-D4.kernel", f.name, "result has (size / stride) * (iend - ibegin) entries", okr, f.where, str(rsize))
    loops = [l for l in f.walk() if l.get("k") == "ForStmt" and l.get("cond") is not None]
    bound = sym(strip(loops[0]["cond"])["c"][1]) if loops and strip(loops[0]["cond"]).get("k") == "BinaryOperator" else None
    chk.ob("C11-D4.kernel", f.name, "one iteration per strip (size / stride)", bound is not None and sympy.simplify(bound - NS) == 0 and strip(loops[0]["cond"]).get("op") == "<", f.where, str(bound))

    # ------------------------------------------------------------------ D6 shape of the split containers
    chk.rule("C11-D6.shape", "the container returned by splitData / splitValues has stride iend - ibegin, the strip count of its source and the data produced by spltVector2D(source data, "
                             "source stride, ibegin, iend): the object is followed through constructor initialiser lists and member assignments to the returned value")
    from tsg.sym import to_sympy, NotClosedForm

    def record_eval(f):
        """field values (as sympy expressions over parameters and this->members, non-numeric values as tagged symbols) of the object returned on the main path"""
        def rs(env):
            def r(n):
                k = n.get("k")
                if k == "DeclRefExpr" and n.get("did") in env:
                    return env[n["did"]]
                if k == "DeclRefExpr" and n.get("var"):
                    return sympy.Symbol(n["var"])
                if k == "MemberExpr" and n.get("field") and not n.get("fn"):
                    return sympy.Symbol("this." + short(n["field"]))
                if k == "CallExpr" and (callee(n) or "") in ("std::move", "std::forward"):
                    a = strip(call_args(n)[0])
                    return r(a) if a is not None else None
                if k in ("CallExpr", "CXXMemberCallExpr"):
                    return sympy.Symbol("call:" + txt(n).replace(" ", ""))
                return None
            return r

        def construct(e, env):
            args = [c for c in e.get("c", []) if isinstance(c, dict)]
            if len(args) == 1:
                a0 = strip(args[0])
                if a0 is not None and a0.get("k") == "CallExpr" and (callee(a0) or "") == "std::move":
                    a0 = strip(call_args(a0)[0])
                if a0 is not None and a0.get("k") == "DeclRefExpr" and a0.get("did") in records:
                    return dict(records[a0["did"]])       # copy / move of a local object
            t = db.resolve(e)
            if t is None:
                return None
            cenv = {}
            for prm, a in zip(t.params(), args):
                try:
                    cenv[prm["did"]] = to_sympy(a, rs(env))
                except NotClosedForm:
                    cenv[prm["did"]] = sympy.Symbol("expr:" + txt(a).replace(" ", ""))
            rec = {}
            for ini in t.d.get("inits", []) or []:
                if not ini.get("field") or ini.get("init") is None:
                    continue
                try:
                    rec[short(ini["field"])] = to_sympy(ini["init"], rs(cenv))
                except NotClosedForm:
                    # move(x) / x of a non-numeric parameter: keep the argument's tag
                    v = None
                    for q in walk(ini["init"]):
                        if q.get("k") == "DeclRefExpr" and q.get("did") in cenv:
                            v = cenv[q["did"]]
                    rec[short(ini["field"])] = v if v is not None else sympy.Symbol("expr:" + txt(ini["init"]).replace(" ", ""))
            return rec
        records = {}
        env = {}
        last = None
        body = f.body
        for st in [c for c in body.get("c", []) if isinstance(c, dict)]:
            k = st.get("k")
            if k == "DeclStmt":
                for d in st.get("c", []):
                    ini = [c for c in d.get("c", []) if isinstance(c, dict)]
                    ce = next((q for q in walk(ini[0]) if q.get("k") in ("CXXConstructExpr", "CXXTemporaryObjectExpr")), None) if ini else None
                    if ce is not None and d.get("t", "").replace("TasGrid::", "") == (f.d.get("ret") or "").replace("TasGrid::", ""):
                        rec = construct(ce, env)
                        if rec is not None:
                            records[d["did"]] = rec
            elif k in ("BinaryOperator", "CXXOperatorCallExpr") and st.get("op") == "=":
                ch = [c for c in st.get("c", []) if isinstance(c, dict)]
                lhs, rhs = (ch[-2], ch[-1])
                l = strip(lhs)
                if l is not None and l.get("k") == "MemberExpr" and l.get("field"):
                    base = strip(l["c"][0]) if l.get("c") else None
                    if base is not None and base.get("k") == "DeclRefExpr" and base.get("did") in records:
                        try:
                            records[base["did"]][short(l["field"])] = to_sympy(rhs, rs(env))
                        except NotClosedForm:
                            records[base["did"]][short(l["field"])] = sympy.Symbol("call:" + txt(strip(rhs)).replace(" ", ""))
            elif k == "ReturnStmt":
                ce = next((q for q in walk(st) if q.get("k") in ("CXXConstructExpr", "CXXTemporaryObjectExpr")), None)
                if ce is not None:
                    last = construct(ce, env)
        return last

    nshape = 0
    for name, fstride, fcount, fdata, src_stride, src_data in (("TasGrid::Data2D<double>::splitData", "stride", "num_strips", "vec", "this.stride", "this.vec"),
                                                               ("TasGrid::Data2D<int>::splitData", "stride", "num_strips", "vec", "this.stride", "this.vec"),
                                                               ("TasGrid::StorageSet::splitValues", "num_outputs", "num_values", "values", "this.num_outputs", "this.values")):
        for f in db.fns(name, required=False):
            chk.saw(f)
            rec = record_eval(f)
            nshape += 1
            ib, ie = sympy.Symbol("ibegin"), sympy.Symbol("iend")
            problems = []
            if rec is None:
                problems.append("returned object could not be followed")
            else:
                if sympy.simplify(rec.get(fstride, sympy.Symbol("?")) - (ie - ib)) != 0:
                    problems.append("%s = %s, expected iend - ibegin" % (fstride, rec.get(fstride)))
                if sympy.simplify(rec.get(fcount, sympy.Symbol("?")) - sympy.Symbol("this." + fcount)) != 0:
                    problems.append("%s = %s, expected the %s of the source" % (fcount, rec.get(fcount), fcount))
                dv = str(rec.get(fdata, ""))
                want = "call:spltVector2D(%s,%s,ibegin,iend)" % (src_data.replace("this.", ""), src_stride.replace("this.", ""))
                if dv.replace("this->", "") != want:
                    problems.append("%s = %s, expected %s" % (fdata, dv, want))
            chk.ob("C11-D6.shape", f.key, "shape of the returned container", not problems, f.where, "; ".join(problems), "(iend - ibegin, source count, spltVector2D(...))")
    chk.floor("C11-D6.shape", nshape, 2, "split kernels returning a container")

    # ------------------------------------------------------------------ D5
    cg = db.fn(TSG + "::copyGrid", sig="TasmanianSparseGrid *,int,int")
    chk.saw(cg)
    clears = [c for c in cg.calls(TSG + "::clear")]
    firstw = [n for n, fld, kd in member_writes(cg) if fld.startswith(TSG + "::")]
    okc = bool(clears) and bool(firstw) and all(must_pass_before(cg, w, lambda x: any(x is c for c in clears)) for w in firstw)
    chk.ob("C11-D5.toplevel", cg.name, "destination cleared on every path before anything is copied", okc, cg.where,
           "" if okc else "a path reaches the member copies without clear(): state of the destination that the source does not have (e.g. a domain transform) survives the copy")
    fam_seen = set()
    for c in cg.calls("TasGrid::Utils::make_unique"):
        cls = (callee_node(c) or {}).get("targs", "").split(",")[0]
        a = [txt(strip(x)) for x in call_args(c)]
        guards = [(txt(strip(g)), tr) for g, tr in cond_edges_dominating(cg, c) if tr]
        fam = short(cls).replace("Grid", "")
        fam_seen.add(fam)
        getc = [q for q in walk(call_args(c)[1]) if (callee(q) or "").endswith("TasmanianSparseGrid::get")]
        got = (callee_node(getc[0]) or {}).get("targs", "") if getc else ""
        okf = ("source->is%s()" % fam, True) in guards and short(got) == "Grid" + fam and txt(strip(call_object(getc[0]))) == "source"
        okr = a[2:4] == ["outputs_begin", "outputs_end"] and a[0] == "acceleration.get()"
        chk.ob("C11-D5.toplevel", cg.name, "%s source copied by the %s constructor with the requested range" % (fam, fam), bool(okf) and okr, cg.loc(c), "guards %s args %s" % (guards, a))
    chk.ob("C11-D5.toplevel", cg.name, "all five families dispatched", fam_seen == set(GRIDS), cg.where, str(sorted(fam_seen)))
    rec = db.record(TSG)
    for fld in rec["fields"]:
        if fld["mutable"] or fld["name"] in ("base", "acceleration"):
            continue
        name = fld["name"]
        copied = False
        for n in walk(cg.body):
            if n.get("k") in ("CXXOperatorCallExpr", "BinaryOperator") and n.get("op") == "=":
                lhs = n["c"][1] if n.get("k") == "CXXOperatorCallExpr" else n["c"][0]
                rhs = n["c"][2] if n.get("k") == "CXXOperatorCallExpr" else n["c"][1]
                nested = [a for a in cg.ancestors(n) if a.get("k") in ("IfStmt", "ForStmt", "WhileStmt", "SwitchStmt")]
                if field_in(lhs, None) == name and txt(strip(rhs)) == "source->" + name and not nested:
                    copied = True      # unconditional copy (an early return for an empty source does not nest it)
            if (callee(n) or "").endswith("::setDomainTransform") and name.startswith("domain_transform"):
                a = [txt(strip(x)) for x in call_args(n)]
                if a == ["source->domain_transform_a", "source->domain_transform_b"]:
                    copied = True
        chk.ob("C11-D5.toplevel", cg.name, "member %s copied" % name, copied, "%s:%d" % (rec["file"], fld["l"]))
    # ------------------------------------------------------------------ D7 a copy onto itself
    chk.rule("C11-D7.alias", "a method of TasmanianSparseGrid that receives another TasmanianSparseGrid by pointer or reference and reads it after it has started to change its own "
                             "object (clear(), member writes) tests `source == this` first: copying a grid onto itself must not read a source that was just cleared")
    from tsg.flow import is_reachable
    from tsg.effects import Effects
    eff7 = Effects(db)
    nal = 0
    for f in db.all_functions(["SparseGrids/TasmanianSparseGrid.cpp", "SparseGrids/TasmanianSparseGrid.hpp"]):
        if f.cls != TSG or f.d.get("isctor") or f.d.get("const") or f.d.get("islambda"):
            continue
        srcs = [p_ for p_ in f.params() if "TasmanianSparseGrid" in p_.get("t", "") and "&&" not in p_.get("t", "")]
        if not srcs:
            continue
        cfg = f.cfg
        changes = [w for w, fld, kd in member_writes(f, into_lambda=False) if is_reachable(f, w)]
        changes += [c for c, t in eff7.this_calls(f) if not t.d.get("const") and is_reachable(f, c) and eff7.closure(t)]
        for p_ in srcs:
            reads = [q for q in f.walk(into_lambda=False) if q.get("k") == "DeclRefExpr" and q.get("did") == p_["did"] and is_reachable(f, q)]
            late = []
            for w in changes:
                bw = cfg.block_of(w)
                for q in reads:
                    if any(x is q for x in walk(w)):
                        continue        # an argument of the changing call itself is read before the callee runs
                    bq = cfg.block_of(q)
                    if bw is not None and bq is not None and (bw[0] != bq[0] or bw[1] < bq[1]) and reach_c11(cfg, bw, bq):
                        late.append((w, q))
            if not late:
                continue
            nal += 1
            chk.saw(f)
            w0 = min((w for w, q in late), key=lambda n: (n.get("l", 0), n.get("id", 0)))
            tested = False
            for cnd, truth in cond_edges_dominating(f, w0):
                c = strip(cnd)
                if c is not None and c.get("k") == "BinaryOperator" and c.get("op") in ("==", "!="):
                    sides = [strip(x) for x in c["c"]]
                    has_this = any(any(z.get("k") == "CXXThisExpr" for z in [x] + list(walk(x))) for x in sides if x is not None)
                    has_src = any(any(z.get("k") == "DeclRefExpr" and z.get("did") == p_["did"] for z in [x] + list(walk(x))) for x in sides if x is not None)
                    if has_this and has_src and ((c["op"] == "==" and not truth) or (c["op"] == "!=" and truth)):
                        tested = True
            chk.ob("C11-D7.alias", f.key + f.sig, "`%s` is read after the object started to change (line %d)" % (p_.get("name"), w0.get("l", 0)), tested, f.loc(w0),
                   "" if tested else "no `%s == this` test dominates the first change: a copy onto itself reads a cleared source" % p_.get("name"), "identity of source and destination tested before the first change")
    chk.floor("C11-D7.alias", nal, 1, "methods that read another grid after changing their own")

    # ------------------------------------------------------------------ D8 the documented meaning of the output range
    chk.rule("C11-D8.range", "copyGrid documents that an end of the output range outside of the outputs selects all remaining outputs: the statements before the destination is cleared are folded "
                             "for 1 and 4 source outputs and ends from -7 to N+9; the end that reaches the copy constructors is the given one when 0 <= end <= N and N otherwise; a first output below 0 or beyond that end is rejected "
                             "by a throw before the destination is touched")
    from tsg.peval import ArrayPEval
    from tsg.sym import NotClosedForm
    prm = {p_.get("name"): p_ for p_ in cg.params()}
    body = cg.body.get("c", [])
    def starts_copy(st):
        return any(q.get("k") in ("CXXMemberCallExpr", "CallExpr") and (short(callee(q) or "") == "clear" or "make_unique" in (callee(q) or "")) for q in [st] + list(walk(st))) and \
            not any(q.get("k") == "CXXThisExpr" and False for q in walk(st))
    # statements before the destination is touched: up to the first statement that clears it or builds a grid object; the self-copy branch recurses and is skipped by the identity hook
    stop = None
    for k_, st in enumerate(body):
        if st.get("k") == "IfStmt" and any(z.get("k") == "CXXThisExpr" for z in walk(st.get("cond") or {})):
            continue
        if starts_copy(st):
            stop = k_
            break
    if stop is None or "outputs_end" not in prm:
        raise AnalysisBroken("copyGrid: no statement that starts the copy / no outputs_end parameter")
    nrange, bad = 0, []
    # the first output: a value below 0 or beyond the effective end must be rejected before the destination is touched (a negative begin otherwise takes the
    # whole-range shortcut or indexes the values with a wrapped offset)
    for N in (1, 4):
        for ob in (-2, -1, 0, 1, N, N + 1):
            for oe in (-1, 1, N):
                def hookb(n, ev, N=N):
                    if n.get("k") in ("CXXMemberCallExpr",) and short(callee(n) or "") == "getNumOutputs":
                        return sympy.Integer(N)
                    if n.get("k") == "BinaryOperator" and n.get("op") in ("==", "!=") and any(z.get("k") == "CXXThisExpr" for z in walk(n)):
                        return sympy.false if n["op"] == "==" else sympy.true
                    return None
                pe = ArrayPEval(db)
                pe.hook = hookb
                env = {prm["outputs_end"]["did"]: sympy.Integer(oe), prm["outputs_begin"]["did"]: sympy.Integer(ob)}
                try:
                    r = pe.inplace(body[:stop], env, cg, 0)
                    got = "throw" if (r is not None and r[0] == "throw") else "begin %s" % env[prm["outputs_begin"]["did"]]
                except NotClosedForm as ex:
                    got = "not folded (%s)" % ex
                eff = oe if 0 <= oe <= N else N
                want = "begin %d" % ob if 0 <= ob <= eff else "throw"
                nrange += 1
                if got != want:
                    bad.append("N=%d begin=%d end=%d -> %s (expected: %s)" % (N, ob, oe, got, want))
    for N in (1, 4):
        for oe in (-7, -2, -1, 0, 1, N - 1, N, N + 1, N + 9):
            def hook(n, ev, N=N):
                if n.get("k") in ("CXXMemberCallExpr",) and short(callee(n) or "") == "getNumOutputs":
                    return sympy.Integer(N)
                if n.get("k") == "BinaryOperator" and n.get("op") in ("==", "!=") and any(z.get("k") == "CXXThisExpr" for z in walk(n)):
                    return sympy.false if n["op"] == "==" else sympy.true
                return None
            pe = ArrayPEval(db)
            pe.hook = hook
            env = {prm["outputs_end"]["did"]: sympy.Integer(oe), prm["outputs_begin"]["did"]: sympy.Integer(0)}
            try:
                pe.inplace(body[:stop], env, cg, 0)
                got = env[prm["outputs_end"]["did"]]
            except NotClosedForm as ex:
                got = "not folded (%s)" % ex
            want = oe if 0 <= oe <= N else N
            nrange += 1
            if got != want:
                bad.append("N=%d end=%d -> %s (documented: %d)" % (N, oe, got, want))
    chk.ob("C11-D8.range", cg.name, "effective end of the output range", not bad, cg.where, "; ".join(bad[:3]) if bad else "%d (N, end) cases agree with the documentation" % nrange)
    chk.floor("C11-D8.range", nrange, 50, "(outputs, begin, end) cases")

    # ------------------------------------------------------------------ D9 a moved-from object is a valid destination
    chk.rule("C11-D9.moved", "an owning pointer member that the class never tests for null (it is set by every constructor and dereferenced or handed on unconditionally - the acceleration "
                             "context) is valid again in the source after a move: the move operations are user-provided and re-seat the member of the source. With defaulted moves the "
                             "member is null afterwards and the next make / copy / read into the moved-from object builds a grid around a null context")
    rec = db.record(TSG)
    tsgfns = [f for f in db.all_functions(["SparseGrids/TasmanianSparseGrid.cpp", "SparseGrids/TasmanianSparseGrid.hpp"]) if f.cls == TSG and not f.d.get("islambda")]
    nmv = 0
    for fld in rec["fields"]:
        if not fld["t"].startswith("std::unique_ptr<") or fld.get("mutable"):
            continue
        m = fld["name"]
        tested = False
        used = False
        for f in tsgfns:
            for q in f.walk():
                if q.get("k") == "MemberExpr" and short(q.get("field") or "") == m and strip(q.get("c", [None])[0] if q.get("c") else None) is not None and \
                        (strip(q["c"][0]) or {}).get("k") == "CXXThisExpr" or (q.get("k") == "MemberExpr" and short(q.get("field") or "") == m and not q.get("c")):
                    par = f.parent.get(q.get("id"))
                    while par is not None and (par.get("k") in ("ImplicitCastExpr", "ParenExpr") or (par.get("k") == "MemberExpr" and par.get("fn"))):
                        par = f.parent.get(par.get("id"))
                    pk = (par or {}).get("k")
                    pt = txt(par or {})
                    if pk in ("UnaryOperator",) and (par or {}).get("op") == "!":
                        tested = True
                    elif pk in ("BinaryOperator", "CXXOperatorCallExpr") and (par or {}).get("op") in ("==", "!=") and "nullptr" in pt:
                        tested = True
                    elif pk in ("IfStmt", "ConditionalOperator") or (pk == "CXXMemberCallExpr" and short(callee(par) or "") == "operator bool"):
                        tested = True
                    elif pk == "CXXMemberCallExpr" and short(callee(par) or "") in ("get", "operator->", "operator*") or (pk == "CXXOperatorCallExpr" and (par or {}).get("op") in ("->", "*")):
                        # base.get() == nullptr, !base.get(), (base.get()) ? a : b  are tests as well
                        gp = f.parent.get(par.get("id"))
                        while gp is not None and gp.get("k") in ("ImplicitCastExpr", "ParenExpr"):
                            gp = f.parent.get(gp.get("id"))
                        gk = (gp or {}).get("k")
                        if (gk == "UnaryOperator" and gp.get("op") == "!") or (gk in ("BinaryOperator", "CXXOperatorCallExpr") and gp.get("op") in ("==", "!=")) or gk in ("IfStmt", "ConditionalOperator"):
                            tested = True
                        else:
                            used = True
        if tested or not used:
            continue
        ctors = [f for f in tsgfns if f.d.get("isctor")]
        movers = [mm for mm in rec["methods"] if "&&" in mm["sig"] and "TasmanianSparseGrid" in mm["sig"] and (mm["name"].endswith("::operator=") or mm["name"].endswith("::TasmanianSparseGrid"))]
        for mm in movers:
            nmv += 1
            body = [f for f in tsgfns if f.name == mm["name"] and f.sig == mm["sig"]]
            if not body:
                chk.ob("C11-D9.moved", mm["name"] + mm["sig"], "`%s` of the source is valid after the move" % m, False, "%s:%d" % (rec["file"], mm["l"]),
                       "the move operation is defaulted: it leaves `%s` null, and no method of the class ever tests it" % m, "a user-provided move that re-seats the member of the source")
                continue
            f = body[0]
            chk.saw(f)
            src = f.params()[0]["did"]
            reseat = False
            for q in f.walk():
                if q.get("k") == "MemberExpr" and short(q.get("field") or "") == m and any(z.get("k") == "DeclRefExpr" and z.get("did") == src for z in walk(q)):
                    par = f.parent.get(q.get("id"))
                    while par is not None and par.get("k") in ("ImplicitCastExpr", "ParenExpr"):
                        par = f.parent.get(par.get("id"))
                    if par is not None and ((par.get("k") in ("CXXOperatorCallExpr", "BinaryOperator") and par.get("op") == "=" and any(x is q for x in walk(par["c"][1 if par.get("k") == "CXXOperatorCallExpr" else 0]))) or
                                            (par.get("k") == "CallExpr" and "swap" in (callee(par) or "")) or
                                            (par.get("k") == "CXXMemberCallExpr" and short(callee(par) or "") in ("swap", "reset") and len(call_args(par)) >= 1)):
                        reseat = True
            # delegation to the move assignment
            if not reseat and f.d.get("isctor"):
                reseat = any(short(callee(c) or "") == "operator=" for c in f.calls()) and any(mm2["name"].endswith("::operator=") for mm2 in movers)
            chk.ob("C11-D9.moved", f.key + f.sig, "`%s` of the source is valid after the move" % m, reseat, f.where,
                   "" if reseat else "the member is moved out of the source and nothing is put back", "source.%s re-seated (swap / assignment)" % m)
    chk.floor("C11-D9.moved", nmv, 2, "move operations x never-null owning members")

    return ("Static rule discharge on the copy constructors of the five grid classes, the base class and TasmanianSparseGrid::copyGrid: member-by-member coverage (each member initialised from the "
            "same member of the source), output-strided containers split with the requested range, deep copy of owning pointers and absence of shared pointers/references, the strip-splitting "
            "kernel, and the top-level dispatch. Observational equality and independence afterwards follow from these structurally and are not decided separately.")
