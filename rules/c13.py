"""C13  Results do not depend on the number of OpenMP threads (analysed in the -fopenmp configuration)."""
from tsg.facts import DB, strip, txt, callee, call_args, call_object, walk, short, callee_node, substituting
from tsg.flow import base_var, var_of, cond_edges_dominating
from tsg.omp import Region, omp_nodes, PARALLEL, WORKSHARE, EXCLUSIVE
from tsg.taint import carrier
from tsg.build import AnalysisBroken

# shared writes through an index that is not the worksharing loop variable itself: each entry individually
# justified by reading the code (function name prefix, rendered write prefix, reason)
JUSTIFIED = [
    ("TasGrid::TasmanianFourierTransform::fast_fourier_transform", "fast_fourier_transform1D(data, maps1d[i])",
     "maps1d partitions the tensor indices into disjoint 1-D lines (each i is pushed into exactly one maps1d[i1d]); iteration i only touches data[maps1d[i][*]]"),
    # subscripts that go through a lookup table: distinct iterations hit distinct elements only because the table is injective over the iteration space
    ("TasGrid::GridGlobal::getQuadratureWeights", "weights[tensor_refs[n][i]] +=",
     "tensor_refs[n] holds the slots (MultiIndexSet::getSlot) of the distinct points of tensor n, filled by recomputeTensorRefs: one slot per tensor point, i -> slot is injective for the fixed n of the enclosing serial loop"),
    ("TasGrid::MultiIndexManipulations::computeTensorWeights", "val -= weights[map[d][j]]",
     "val aliases weights[map[d][i]] with i inside the line [lines1d[d][job], lines1d[d][job+1]) of this job; the lines partition 0..num_tensors and map[d] is a permutation (sorted order of the tensors in direction d)"),
]


def base_of(t):
    """container expression of an element access"""
    t = strip(t)
    while t is not None and (t.get("k") == "ArraySubscriptExpr" or (t.get("k") == "CXXOperatorCallExpr" and t.get("op") == "[]")):
        ch = [x for x in t.get("c", []) if isinstance(x, dict)]
        t = strip(ch[0] if t.get("k") == "ArraySubscriptExpr" else ch[-2])
    return t or {}


def indirect_subscript(*exprs):
    """a subscript whose index is itself read from a table or returned by a call (a[t[i]], a[f(i)]): injectivity over the iterations is a property of the table"""
    def is_sub(q):
        return q.get("k") == "ArraySubscriptExpr" or (q.get("k") == "CXXOperatorCallExpr" and q.get("op") == "[]")
    for e in exprs:
        if e is None:
            continue
        for q in [e] + list(walk(e)):
            if is_sub(q):
                ch = [x for x in q.get("c", []) if isinstance(x, dict)]
                for z in [ch[-1]] + list(walk(ch[-1])):
                    if is_sub(z) or z.get("k") in ("CallExpr", "CXXMemberCallExpr"):
                        return True
    return False
CANONICAL_SINKS = ("TasGrid::MultiIndexSet::MultiIndexSet", "std::sort", "TasGrid::MultiIndexSet::operator+=", "TasGrid::MultiIndexSet::addSortedIndexes")
APPENDERS = ("::append", "::appendStrip", "::push_back", "::insert", "::emplace_back", "::operator+=")


def run(chk):
    db = DB("omp")
    db.load_all()
    sdb = DB("serial")
    sdb.load_all()
    chk.rule("C13-D1.sharing", "every write inside an OpenMP parallel region targets thread-private data, or shared data subscripted through the worksharing loop variable "
                               "(directly or via a private pointer/offset derived from it; a subscript that goes through a lookup table counts only when the table is on the justified list), "
                               "or sits inside critical/atomic, or is a reduction variable, or is on the individually justified list")
    chk.rule("C13-D2.canonical", "a shared container appended to inside a critical section flows into a canonicalising operation (sorting MultiIndexSet constructor, std::sort, set union) before it is used")
    chk.rule("C13-D3.decision", "no floating-point reduction / atomic accumulation feeds a comparison that selects points (accumulation order may only affect values, to rounding)")
    chk.rule("C13-D4.dual", "functions with separate #ifdef _OPENMP and serial bodies perform the same guarded calls in both configurations; the only extra statements of the OpenMP body merge thread-local containers under critical")
    chk.rule("C13-D5.random", "the random stream of ParticleSwarm is only drawn from outside parallel regions (one stream, one order)")
    chk.rule("C13-D0.control", "positive control: the classifier must recognise known critical-section appends and loop-variable subscripts (it is not silent by construction)")

    nreg = 0
    nwrites = 0
    counts = {"private-alias/by-loopvar": 0, "critical": 0, "atomic": 0, "reduction": 0, "justified": 0}
    crit_appends = []
    for fns in db.load_all().values():
        for fn in fns:
            if fn.file.startswith("@verif") or fn.file.startswith("Addons/test") or fn.d.get("islambda"):
                continue
            tops = [p for p in omp_nodes(fn) if p["omp"] in PARALLEL and not any("omp" in a and a["omp"] in PARALLEL for a in fn.ancestors(p))]
            for p in tops:
                nreg += 1
                chk.saw(fn)
                R = Region(fn, p)
                bad = []
                bitpacked = []
                for n, t, (desc, src), kind in R.shared_writes():
                    nwrites += 1
                    full = src if src is not None else t
                    ex = R.in_exclusive(n)
                    if ex is not None:
                        counts[ex["omp"] if ex["omp"] in counts else "critical"] += 1
                        cal = callee(n) or ""
                        if ex["omp"] == "critical" and (cal.endswith(APPENDERS) or (n.get("k") == "CXXOperatorCallExpr" and n.get("op") == "+=")):
                            crit_appends.append((fn, R, n, t))
                        continue
                    if base_var(t) in R.reduction:
                        counts["reduction"] += 1
                        continue
                    if R.mentions_loopvar(full) or R.mentions_loopvar(t):
                        # distinct elements are distinct memory locations - except in bit-packed containers: neighbouring entries of a
                        # std::vector<bool> share a word, element writes from different threads are a data race
                        packed = [x for x in walk(t) if "vector<bool" in (x.get("t") or "") and x.get("k") in ("DeclRefExpr", "MemberExpr") and (x.get("var") or x.get("field")) and not x.get("fn")]
                        if packed and ex is None:
                            bitpacked.append((n, t, packed[0]))
                            continue
                        if indirect_subscript(t, full):
                            just = [j for j in JUSTIFIED if fn.name.startswith(j[0]) and txt(n).startswith(j[1])]
                            if just:
                                counts["justified"] += 1
                                chk.note("C13-D1.sharing", fn.loc(n), "justified table subscript %s: %s" % (txt(n)[:60], just[0][2]))
                                continue
                            bad.append((n, t, "table"))
                            continue
                        counts["private-alias/by-loopvar"] += 1
                        continue
                    # a call whose *other* arguments select the part of the shared object: only on the justified list
                    just = [j for j in JUSTIFIED if fn.name.startswith(j[0]) and txt(n).startswith(j[1])]
                    if just:
                        counts["justified"] += 1
                        chk.note("C13-D1.sharing", fn.loc(n), "justified indirect write %s: %s" % (txt(n)[:60], just[0][2]))
                        continue
                    bad.append((n, t, kind))
                for n, t, pk in bitpacked:
                    chk.ob("C13-D1.sharing", fn.key, "element write %s" % txt(n)[:70], False, fn.loc(n),
                           "`%s` is a std::vector<bool>: entries indexed by different loop iterations share a machine word, concurrent element writes lose flags" % txt(pk)[:40],
                           "a byte-sized element type, or critical/atomic")
                for n, t, kind in bad:
                    what = "container mutation" if kind == "container" else "write"
                    if kind == "table":
                        chk.ob("C13-D1.sharing", fn.key, "write %s" % txt(n)[:70], False, fn.loc(n),
                               "the element of shared `%s` is selected through a lookup table: two iterations write different elements only if the table never repeats an entry "
                               "across the iteration space, which is not on the justified list" % txt(strip(base_of(t)))[:40],
                               "thread-private target, subscript affine in the worksharing loop variable, critical/atomic, or a justified table")
                        continue
                    chk.ob("C13-D1.sharing", fn.key, "%s %s" % (what, txt(n)[:70]), False, fn.loc(n),
                           "shared `%s` is modified by every thread without critical/atomic and the target does not depend on the worksharing loop variable" % txt(strip(t))[:50],
                           "thread-private target, loop-variable subscript, critical/atomic, reduction")
                if not bad and not bitpacked:
                    chk.ob("C13-D1.sharing", fn.key, "region @%d (%s)" % (p.get("l", 0), p["omp"]), True, fn.loc(p), "all shared writes classified")
    chk.floor("C13-D1.sharing", nreg, 140, "outermost parallel regions (all instantiations)")
    chk.floor("C13-D1.sharing", nwrites, 200, "shared writes classified")
    chk.ob("C13-D0.control", "(library)", "critical-section appends recognised", counts["critical"] >= 10 and len(crit_appends) >= 6, "", str(counts))
    chk.ob("C13-D0.control", "(library)", "loop-variable subscripts recognised", counts["private-alias/by-loopvar"] >= 150, "", str(counts))

    # ------------------------------------------------------------------ D7 order-independent combination under atomic/critical
    chk.rule("C13-D7.commutative", "a shared scalar updated under atomic/critical is combined commutatively (+=, |=, ++, guarded max/min merge); a plain overwrite would make the result depend on which thread arrives last")
    natom = 0
    from tsg.facts import const_val
    for fns in db.load_all().values():
        for fn in fns:
            if fn.file.startswith("@verif") or fn.file.startswith("Addons/test") or fn.d.get("islambda"):
                continue
            for p in omp_nodes(fn):
                if p["omp"] == "atomic":
                    natom += 1
                    st = p["c"][0] if p.get("c") else None
                    while st is not None and st.get("k") == "CompoundStmt" and len(st.get("c", [])) == 1:
                        st = st["c"][0]
                    s2 = strip(st) if st is not None else None
                    ok = False
                    why = "unrecognised atomic statement"
                    if s2 is not None:
                        if s2.get("k") == "CompoundAssignOperator" or (s2.get("k") == "UnaryOperator" and s2.get("op") in ("++", "--")):
                            ok, why = True, "accumulation %s" % s2.get("op")
                        elif s2.get("k") == "BinaryOperator" and s2.get("op") == "=":
                            lhs = txt(strip(s2["c"][0]))
                            rhs = s2["c"][1]
                            if const_val(rhs) is not None:
                                ok, why = True, "every thread stores the same constant"
                            elif any(txt(x) == lhs for x in walk(rhs)):
                                ok, why = True, "update expressed through the old value"
                            else:
                                why = "plain overwrite `%s`: the last thread to arrive decides the value" % txt(s2)[:50]
                    chk.saw(fn)
                    chk.ob("C13-D7.commutative", fn.key, "atomic @%s %s" % (fn.file.rsplit("/", 1)[-1], txt(s2)[:40] if s2 else "?"), ok, fn.loc(p), why)
                if p["omp"] == "critical":
                    for x in walk(p):
                        if x.get("k") in ("BinaryOperator", "CXXOperatorCallExpr") and x.get("op") == "=":
                            lhs = x["c"][0] if x.get("k") == "BinaryOperator" else x["c"][1]
                            root = base_var(lhs)
                            tops = [q for q in omp_nodes(fn) if q["omp"] in PARALLEL and any(y is p for y in walk(q))]
                            if not tops or root is None:
                                continue
                            R = Region(fn, tops[0])
                            if root in R.private:
                                continue
                            natom += 1
                            guards = [a for a in fn.ancestors(x) if a.get("k") == "IfStmt" and any(y is a for y in walk(p))]
                            lt = txt(strip(lhs)).split("[")[0].split(".")[0]
                            ok = any(lt in txt(g.get("cond")) and any(op in txt(g.get("cond")) for op in (">", "<")) for g in guards)
                            chk.saw(fn)
                            chk.ob("C13-D7.commutative", fn.key, "critical merge %s" % txt(x)[:40], ok, fn.loc(x),
                                   "guarded max/min merge" if ok else "shared value overwritten in arrival order")
    chk.floor("C13-D7.commutative", natom, 8, "atomic / critical scalar updates")

    # ------------------------------------------------------------------ D2
    for fn, R, n, t in crit_appends:
        root = base_var(t)
        d = fn.locals().get(root) if root is not None else None
        name = (d or {}).get("name") or txt(strip(t))
        ty = (d or {}).get("t", "")
        ok = False
        why = ""
        if n.get("k") == "CXXOperatorCallExpr" and n.get("op") == "+=" and "MultiIndexSet" in (strip(t) or {}).get("t", ""):
            ok, why = True, "set union (commutative, result sorted)"
        elif "MultiIndexSet" in ty:
            ok, why = True, "MultiIndexSet keeps itself sorted"
        else:
            # uses of the container after the region
            for u in walk(fn.body):
                if u.get("l", 0) <= R.node.get("l", 0) or any(x is u for x in walk(R.node)):
                    continue
                cal = callee(u) or ""
                if u.get("k") in ("CXXConstructExpr", "CXXTemporaryObjectExpr") and u.get("ctor") == "TasGrid::MultiIndexSet":
                    if any(x.get("k") == "DeclRefExpr" and x.get("did") == root for x in walk(u)):
                        ok, why = True, "passed to the sorting/uniquing MultiIndexSet(Data2D) constructor at line %d" % u.get("l", 0)
                if cal == "std::sort" and any(x.get("k") == "DeclRefExpr" and x.get("did") == root for x in walk(u)):
                    ok, why = True, "std::sort at line %d" % u.get("l", 0)
                if cal.endswith("unionSets") and any(x.get("k") == "DeclRefExpr" and x.get("did") == root for x in walk(u)):
                    ok, why = True, "unionSets (order-independent union)"
            if not ok and root is not None:
                # max/min style merges of scalars and index vectors (element-wise max) are order independent
                par = [a for a in fn.ancestors(n) if a.get("k") == "IfStmt"]
                why = "appended in arrival order and never canonicalised"
        chk.ob("C13-D2.canonical", fn.key, "critical append to %s" % name, ok, fn.loc(n), why)
    chk.floor("C13-D2.canonical", len(crit_appends), 6, "appends inside critical sections")

    # ------------------------------------------------------------------ D3
    nred = 0
    for fns in db.load_all().values():
        for fn in fns:
            if fn.file.startswith("@verif") or fn.d.get("islambda"):
                continue
            for p in omp_nodes(fn):
                for c in p.get("clauses", []):
                    if c["kind"] == "reduction":
                        for v in c["vars"]:
                            nred += 1
                            d = fn.locals().get(v["did"]) or {}
                            fp = d.get("t", "") in ("double", "float")
                            uses = []
                            if fp:
                                for u in walk(fn.body):
                                    if u.get("k") == "BinaryOperator" and u.get("op") in ("<", ">", "<=", ">=") and any(x.get("did") == v["did"] for x in walk(u) if x.get("k") == "DeclRefExpr") and not any(x is u for x in walk(p)):
                                        uses.append(u)
                            chk.ob("C13-D3.decision", fn.key, "reduction(%s)" % v["var"], not uses, fn.loc(p),
                                   "floating-point reduction result compared at line(s) %s" % [u.get("l") for u in uses] if uses else "%s reduction, not used in a selection" % (d.get("t", "?")))
    if nred == 0:
        chk.ob("C13-D3.decision", "(library)", "no reduction clauses in the library", True, "")

    # ------------------------------------------------------------------ D4 dual implementations
    ndual = 0
    for fns in db.load_all().values():
        for fn in fns:
            if fn.file.startswith("@verif") or fn.d.get("islambda") or not omp_nodes(fn):
                continue
            sfn = sdb._bykey.get((fn.key, fn.sig))
            if sfn is None:
                continue

            def sig_calls(f, rename):
                import re
                res = set()
                # local pointer/reference aliases are rendered as what they point to (map vs p for pmap.getStrip(i));
                # substitution is by declaration, not by name (names may be shadowed later in the function)
                alias = {}
                for d in f.locals().values():
                    t = d.get("t", "")
                    if d.get("c") and (t.endswith("*") or t.endswith("&")) and d.get("name") and "did" in d:
                        alias[d["did"]] = txt(strip(d["c"][0]))
                    if d.get("name") in rename and "did" in d:
                        alias[d["did"]] = rename[d["name"]]

                def norm(text):
                    return text
                for c in f.walk():
                    cal = callee(c)
                    if not cal or not cal.startswith("TasGrid::") or cal.startswith(("TasGrid::Data2D", "TasGrid::MultiIndexSet::getIndex", "TasGrid::Utils")) and not cal.endswith("appendStrip"):
                        continue
                    if cal.endswith(("::append", "::getNumIndexes", "::getNumDimensions", "::getStrip", "::getNumStrips")):
                        continue
                    with substituting(alias):
                        args = [txt(strip(a)) for a in call_args(c)]
                        obj = txt(strip(call_object(c))) if call_object(c) is not None else ""
                    # syntactic guards (enclosing if-conditions with branch), identical in both configurations;
                    # the CFG of an OpenMP directive does not expose the loop structure
                    gl = []
                    prev = c
                    for a in f.ancestors(c):
                        if a.get("k") == "IfStmt":
                            br = "then" if a.get("then") is not None and any(x is prev for x in walk(a["then"])) else "else"
                            with substituting(alias):
                                gl.append((txt(strip(a.get("cond"))), br))
                        prev = a
                    guards = tuple(sorted(set(gl)))
                    res.add((short(cal), obj, tuple(args), guards))
                return res
            # thread-local containers of the OpenMP body stand for the shared destination of the serial body
            ocalls_raw = sig_calls(fn, {})
            scalls = sig_calls(sfn, {})
            if ocalls_raw == scalls:
                continue          # same body in both configurations (pragma only)
            # find the rename: container appended under critical  X.append(L)  =>  L -> X
            rename = {}
            for p in omp_nodes(fn):
                if p["omp"] == "critical":
                    for c in walk(p):
                        if (callee(c) or "").endswith("::append") and call_object(c) is not None:
                            rename[txt(strip(call_args(c)[0]))] = txt(strip(call_object(c)))
            ocalls = sig_calls(fn, rename)
            ndual += 1
            chk.saw(fn)
            only_o = sorted(x for x in ocalls - scalls)
            only_s = sorted(x for x in scalls - ocalls)
            chk.ob("C13-D4.dual", fn.key, "OpenMP body == serial body (modulo thread-local containers %s)" % sorted(rename), not only_o and not only_s, fn.where,
                   ("only in the OpenMP body: %s; only in the serial body: %s" % ([(a, c) for a, b, c, d in only_o][:3], [(a, c) for a, b, c, d in only_s][:3])) if (only_o or only_s) else "%d guarded calls agree" % len(scalls))
            chk.ob("C13-D4.dual", fn.key, "thread-local containers merged under critical", bool(rename), fn.where)
    chk.floor("C13-D4.dual", ndual, 7, "functions with distinct OpenMP and serial bodies (instantiations)")

    # ------------------------------------------------------------------ D5 random stream
    nps = 0
    for fn in db.all_functions(["DREAM/Optimization/tsgParticleSwarm.cpp"]):
        if fn.d.get("islambda"):
            continue
        rnd = [p["did"] for p in fn.params() if "random" in p["name"]]
        if not rnd:
            continue
        chk.saw(fn)
        for c in fn.walk():
            if c.get("k") == "CXXOperatorCallExpr" and c.get("op") == "()" and var_of(c["c"][1]) in rnd:
                nps += 1
                inside = [a for a in fn.ancestors(c) if "omp" in a]
                chk.ob("C13-D5.random", fn.key, "draw @%d outside parallel regions" % c.get("l", 0), not inside, fn.loc(c))
    chk.floor("C13-D5.random", nps, 3, "random draws in ParticleSwarm")

    # ------------------------------------------------------------------ D8 const calls on shared objects inside parallel regions
    chk.rule("C13-D8.purecalls", "a member function called inside a parallel region on an object that all threads share (not declared in the region, not indexed by the worksharing variable) "
                                 "and outside critical/atomic has a pure call-graph closure in the sense of C12-D1 (no write to a mutable member, a static or through const_cast, acceleration "
                                 "mode none): a lazily filled cache behind a const interface makes the first parallel loop over it a race. "
                                 "Accepted: a cache whose refill test reads only the state of the object, after a serial call of the same method on the same object that dominates the region")
    from tsg.effects import Purity
    from rules.c12 import gpu_only_call
    P13 = Purity(db, skip_call=gpu_only_call)
    pmemo = {}

    # call sites of every function (for the lazy-cache test below)
    callers = {}
    for fns_ in db.load_all().values():
        for g_ in fns_:
            if g_.file.startswith("@verif"):
                continue
            for c_ in g_.calls():
                t_ = db.resolve(c_)
                if t_ is not None:
                    callers.setdefault((t_.key, t_.sig), []).append((g_, c_))

    def state_guard(g_, node, member):
        """node is control dependent on a condition that reads `member` of the object and no parameter of g_: the write happens
        only while the cache is stale, whatever the arguments are"""
        prm = {p_["did"] for p_ in g_.params()}
        for cnd, truth in cond_edges_dominating(g_, node):
            ms = [q for q in [cnd] + list(walk(cnd)) if q.get("k") == "MemberExpr" and short(q.get("field") or "") == member]
            ps = [q for q in [cnd] + list(walk(cnd)) if q.get("k") == "DeclRefExpr" and q.get("did") in prm]
            if ms and not ps:
                return True
        return False

    def lazy_cache(f2, n2, what):
        m = short(what)
        if state_guard(f2, n2, m):
            return True
        cs = [(g_, c_) for g_, c_ in callers.get((f2.key, f2.sig), []) if g_.d.get("const")]
        return bool(cs) and all(state_guard(g_, c_, m) for g_, c_ in cs)

    def impure(t):
        """[(description, is a state-guarded lazy cache)]"""
        k = (t.key, t.sig)
        if k not in pmemo:
            found = P13.closure(t)
            res = {}
            for path, f2, n2, kind, what in found:
                d_ = "%s %s in %s" % (kind, short(what), short(f2.name))
                res[d_] = res.get(d_, True) and kind == "mutable-member" and lazy_cache(f2, n2, what)
            pmemo[k] = sorted(res.items())
        return pmemo[k]
    ncall8 = 0
    for fns in db.load_all().values():
        for fn in fns:
            # the property is stated for the library: the command line tool decides itself in which state its grid reaches a loop
            if not fn.file.startswith(("SparseGrids/", "DREAM/", "Addons/")) or "/test" in fn.file.lower() or "Tester" in fn.file or fn.d.get("islambda"):
                continue
            tops = [p for p in omp_nodes(fn) if p["omp"] in PARALLEL and not any("omp" in a and a["omp"] in PARALLEL for a in fn.ancestors(p))]
            for p in tops:
                R = Region(fn, p)
                for c in walk(p):
                    if c.get("k") != "CXXMemberCallExpr" or R.in_exclusive(c) is not None:
                        continue
                    h = callee_node(c) or {}
                    if not h.get("cm"):
                        continue            # non-const calls on shared objects are container mutations, decided by D1
                    o = call_object(c)
                    if o is None:
                        continue
                    root = base_var(o)
                    if (root is not None and root in R.private and not (fn.locals().get(root) or {}).get("t", "").rstrip().endswith(("*", "&"))) or R.mentions_loopvar(o):
                        continue
                    ts = [t for t in P13.targets(fn, c) if not (t.name or "").startswith("std::")]
                    if not ts:
                        continue
                    ncall8 += 1
                    imp = []
                    for t in ts:
                        imp += impure(t)
                    detail = "pure closure"
                    bad = sorted({d_ for d_, lazy in imp})
                    if imp:
                        chk.saw(fn)
                        # a serial call of the same method on the same object that dominates the region fills every cache whose refill test reads only the object's state
                        warm = [w for w in fn.calls(into_lambda=False) if w is not c and not any(x is w for x in walk(p)) and (callee(w) or "") == (callee(c) or "") and
                                txt(strip(call_object(w)) or {}) == txt(strip(o)) and call_object(w) is not None]
                        pb = fn.cfg.block_of(p) or fn.cfg.block_of(c)
                        dom = [w for w in warm if fn.cfg.block_of(w) is not None and pb is not None and fn.cfg.dominates(fn.cfg.block_of(w)[0], pb[0])]
                        # the warm-up may sit under `if (n > 0)` when the loop then runs for n > 1 only: accept a guard whose variable is the loop bound
                        if not dom and warm:
                            lv, loop = None, None
                            from tsg.omp import loop_var_of
                            lv, loop = loop_var_of(p)
                            bound = {q.get("did") for q in walk(loop.get("cond") or {}) if q.get("k") == "DeclRefExpr"} if loop is not None else set()
                            for w in warm:
                                ce = list(cond_edges_dominating(fn, w))
                                if ce and all(any(q.get("k") == "DeclRefExpr" and q.get("did") in bound for q in walk(cn)) for cn, tr in ce):
                                    dom.append(w)
                        if dom and all(lazy for d_, lazy in imp):
                            detail = "lazily filled cache (%s), filled by the serial call at line %d before the region" % ("; ".join(bad)[:120], dom[0].get("l", 0))
                            bad = []
                    chk.ob("C13-D8.purecalls", fn.key, "const call %s on a shared object in the region @%d" % (short(callee(c) or "?"), p.get("l", 0)), not bad, fn.loc(c),
                           ("reaches: " + "; ".join(bad)[:260]) if bad else detail)
    chk.floor("C13-D8.purecalls", ncall8, 40, "const member calls on shared objects inside parallel regions")

    chk.note("C13-D6", "SparseGrids/tsgSequenceOptimizer.cpp", "Optimizer::computeMaximum merges per-thread maxima under critical with a strict '>' and no index tie-break: an *exact* tie "
             "would be resolved by arrival order. A replay (OpenMP build, 1..16 threads, leja / max-lebesgue / min-lebesgue / min-delta greedy nodes) showed identical nodes for all "
             "thread counts, so this is recorded as a note, not as a finding.")

    return ("Static rule discharge on the -fopenmp parse of every library unit (OpenMP directive tree with captured variables; 150+ regions including template instantiations): "
            "classification of every write to non-private data inside a parallel region, canonicalisation of containers appended under critical, reductions, agreement of the "
            "separately written OpenMP and serial bodies (compared across the two configurations), and placement of random draws. Equality of numerical results to rounding is "
            "taken from race freedom plus canonical ordering; floating-point non-associativity of sums is accepted by the property's 'to rounding'.")
