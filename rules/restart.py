"""Restarted GMRES of the wavelet basis matrix (shared by C01 / C04).

WaveletBasisMatrix::solve<transpose, blas>(b, x) runs cycles of at most 30 Krylov steps.  A cycle after the first one is a restart: it
has to start from the residual of the current iterate and add its correction in the space the iterate lives in.  Two structural clauses:

  (1) in the body of the restart loop, what is written into the first Krylov vector before the inner loop starts depends on the iterate x
      (directly, or through a copy of x): a residual built from b alone is right for the zero initial guess only;
  (2) inside the restart loop the iterate is changed by the reconstruction of the Krylov correction only; the map from the preconditioned
      unknown to the solution (applyILU on x) belongs after the loop - the prologue of the next cycle treats x as the preconditioned unknown.

Regular grids converge in the first cycle, which is why neither slip shows in the tests.
"""
from tsg.facts import strip, txt, walk, callee, call_args, call_object, short
from tsg.flow import is_reachable
from tsg.build import AnalysisBroken


def restart_rule(chk, db, rule_id):
    chk.rule(rule_id, "restarted GMRES (WaveletBasisMatrix::solve): in every restart cycle the first Krylov vector is computed from the current iterate, and inside the restart loop the "
                      "iterate is modified by the Krylov reconstruction only (the right-preconditioning map is applied to it after the loop): otherwise grids that need more than one "
                      "cycle - irregular wavelet grids - never converge or converge to the wrong vector")
    n = 0
    for f in db.fns("TasGrid::TasSparse::WaveletBasisMatrix::solve", required=False):
        ps = f.params()
        if len(ps) != 2 or not f.d.get("targs"):
            continue
        xd = ps[1]["did"]
        loops = [a for a in f.walk(into_lambda=False) if a.get("k") == "WhileStmt"]
        outer = [a for a in loops if not any(x is a for l2 in loops if l2 is not a for x in walk(l2))]
        if not outer:
            raise AnalysisBroken("%s: no restart loop in %s" % (rule_id, f.key))
        o = outer[0]
        inner = [a for a in loops if a is not o and any(x is a for x in walk(o))]
        body = o.get("body", {}).get("c", [])
        # statements of the prologue: before the inner loop
        prologue = []
        for st in body:
            if inner and any(x is inner[0] for x in [st] + list(walk(st))):
                break
            prologue.append(st)
        # copies of x made in the prologue
        aliases = {xd}
        for st in prologue:
            for q in [st] + list(walk(st)):
                if q.get("k") in ("BinaryOperator", "CXXOperatorCallExpr") and q.get("op") == "=":
                    ch = [c for c in q.get("c", []) if isinstance(c, dict)]
                    lhs = strip(ch[-2]); rhs = ch[-1]
                    if lhs is not None and lhs.get("k") == "DeclRefExpr" and any(z.get("k") == "DeclRefExpr" and z.get("did") in aliases for z in walk(rhs)):
                        aliases.add(lhs.get("did"))
        # (1) at the end of the prologue the first Krylov vector depends on the iterate: a small dependence analysis over the statements of the prologue
        def mentions(n_, names=None, dids=None):
            for z in [n_] + list(walk(n_)):
                if z.get("k") == "DeclRefExpr" and ((dids is not None and z.get("did") in dids) or (names is not None and z.get("var") in names)):
                    return True
            return False

        def run_block(stmts, dep):
            """dep: does W currently depend on x?  returns the value after the statements (None = a write that ignores the iterate came last)"""
            for st in stmts:
                if st is None:
                    continue
                k = st.get("k")
                if k == "CompoundStmt":
                    dep = run_block(st.get("c", []), dep)
                elif k == "IfStmt":
                    br = []
                    for b_ in (st.get("then"), st.get("else")):
                        if b_ is not None and any(is_reachable(f, q) for q in [b_] + list(walk(b_)) if q.get("id") is not None and f.cfg.block_of(q) is not None):
                            br.append(run_block([b_], dep))
                    if br:
                        dep = all(br)
                elif k in ("ForStmt", "CXXForRangeStmt", "WhileStmt"):
                    dep = run_block([st.get("body")], dep)
                else:
                    for q in [st] + list(walk(st)):
                        if q.get("k") in ("CallExpr", "CXXMemberCallExpr"):
                            args = call_args(q)
                            nm = short(callee(q) or "")
                            outs = [a for i_, a in enumerate(args) if i_ in (q.get("mutargs") or [])]
                            if nm in ("copy_n", "copy", "fill_n") and args:
                                outs = [args[-1]] if nm != "fill_n" else [args[0]]
                            wout = [a for a in outs if mentions(a, names={"W"})]
                            if not wout:
                                continue
                            ins = [a for a in args if a not in wout]
                            in_dep = any(mentions(a, dids=aliases) for a in ins)
                            inplace = (len(ins) == 0) or all(not mentions(a, names={"W", "b"}) and not mentions(a, dids=aliases) for a in ins)   # only sizes: in-place transform
                            dep = in_dep or (dep and (inplace or any(mentions(a, names={"W"}) for a in ins)))
                        elif q.get("k") in ("BinaryOperator", "CompoundAssignOperator") and q.get("op") in ("=", "-=", "+=", "*=") and mentions(q["c"][0], names={"W"}):
                            rhs_dep = mentions(q["c"][1], dids=aliases) or (dep and mentions(q["c"][1], names={"W"})) or (q.get("op") != "=" and dep)
                            dep = rhs_dep
            return dep
        n += 1
        chk.saw(f)
        dep = run_block(prologue, False)
        chk.ob(rule_id, f.key, "the first Krylov vector of a cycle is computed from the current iterate", bool(dep), f.loc(o),
               "" if dep else "the vector is built without the current iterate (from the right-hand side alone): after a restart the cycle starts from the residual of the zero vector")
        # (2) inside the restart loop the iterate is only changed by the reconstruction
        for c in [q for q in walk(o) if q.get("k") in ("CallExpr", "CXXMemberCallExpr")]:
            if not is_reachable(f, c):
                continue
            args = call_args(c)
            mut = [a for i, a in enumerate(args) if i in (c.get("mutargs") or []) and (strip(a) or {}).get("did") == xd]
            if not mut:
                continue
            n += 1
            chk.saw(f)
            ok = short(callee(c) or "").startswith("reconstructKrylov")
            chk.ob(rule_id, f.key, "`%s` inside the restart loop" % txt(c)[:50], ok, f.loc(c),
                   "" if ok else "the iterate is transformed in place inside the restart loop, while the next cycle continues from it as the preconditioned unknown")
    return n
