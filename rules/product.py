"""R-SYMBOLIC: product rule of tensor-product bases.

The gradient routines accumulate, per basis function, diff[j] = phi_j'(x_j) * prod_{k != j} phi_k(x_k) in a small loop nest over
the dimensions.  The nest is folded for num_dimensions = 1..4 with the cached one-dimensional values / derivatives replaced by
symbols (V_k, D_k, tagged with the indexes used to address the cache) and the result compared with the product rule."""
import sympy

from tsg.facts import strip, txt, callee, call_args, call_object, walk, short
from tsg.peval import ArrayPEval, OPAQUE
from tsg.sym import NotClosedForm

VALUE_SOURCES = ("cacheBasisValues", "CacheLagrange<double>::getLagrange", "CacheLagrange<float>::getLagrange")
DERIV_SOURCES = ("cacheBasisDerivatives", "CacheLagrangeDerivative<double>::getLagrangeDerivative")


def _local_init_callee(fn, did):
    d = next((v for v in fn.locals().values() if v.get("did") == did), None)
    if d is None:
        return ""
    ini = [c for c in d.get("c", []) if isinstance(c, dict)]
    for q in walk(ini[0]) if ini else []:
        if callee(q):
            return callee(q)
    return ""


def classify(fn, n):
    """'V' / 'D' if node n reads a cached / computed one-dimensional basis value / derivative, else None; plus the
    expression that selects the dimension and the expressions that address the entry"""
    k = n.get("k")
    if k == "CXXOperatorCallExpr" and n.get("op") == "[]":
        ch = [c for c in n.get("c", []) if isinstance(c, dict)]
        inner = strip(ch[-2])
        if inner is not None and inner.get("k") == "CXXOperatorCallExpr" and inner.get("op") == "[]":
            ich = [c for c in inner.get("c", []) if isinstance(c, dict)]
            base = strip(ich[-2])
            if base is not None and base.get("k") == "DeclRefExpr" and "did" in base:
                src = _local_init_callee(fn, base["did"])
                kind = "V" if "cacheBasisValues" in src else "D" if "cacheBasisDerivatives" in src else None
                if kind:
                    return kind, ich[-1], [ch[-1]]
    if k in ("CXXMemberCallExpr", "CallExpr"):
        cal = callee(n) or ""
        a = call_args(n)
        if cal.endswith("::getLagrange"):
            return "V", a[0], a[1:]
        if cal.endswith("::getLagrangeDerivative"):
            return "D", a[0], a[1:]
        if cal.endswith("RuleLocal::evalSupport"):
            return "V", None, a[1:3]
        if cal.endswith("RuleLocal::evalRaw"):
            return "V", None, a[1:3]
        if cal.endswith("RuleWavelet::getWeight"):
            return "W", None, a[0:1]
        if cal.endswith("RuleLocal::diffSupport"):
            return "D", None, a[1:3]
        if cal.endswith("RuleWavelet::eval") and n.get("targs") in ("0", "1"):
            return ("V" if n["targs"] == "0" else "D"), None, a[0:2]
    return None


def make_hook(fn):
    def idx_of(e, ev):
        """k for an address expression of the form a[k] (first subscript found), None if not concrete"""
        for q in walk(strip(e)):
            if q.get("k") == "ArraySubscriptExpr" or (q.get("k") == "CXXOperatorCallExpr" and q.get("op") == "[]"):
                ch = [c for c in q.get("c", []) if isinstance(c, dict)]
                try:
                    v = ev(ch[-1])
                    if getattr(v, "is_Integer", False):
                        return int(v)
                except NotClosedForm:
                    return None
        return None

    def hook(n, ev):
        if n.get("k") == "DeclRefExpr" and n.get("var") in ("isSupported", "isDimSupported"):
            return sympy.true          # fold the path on which every factor is supported
        c = classify(fn, n)
        if c is None:
            return None
        kind, dim, addr = c
        tags = [idx_of(x, ev) for x in addr]
        if dim is not None:
            kk = ev(dim)
            if not getattr(kk, "is_Integer", False):
                raise NotClosedForm("symbolic dimension index of the cache")
            kk = int(kk)
        else:
            kk = tags[0] if tags else None
        tag = tags[0] if tags and all(t == tags[0] for t in tags) else "mixed%s" % tags
        return sympy.Symbol("%s_%s_%s" % (kind, kk, tag), real=True, nonzero=True)
    return hook


def product_rule(chk, db, rule_id, fn, dims=None):
    """returns the number of (function, dimension) cases decided"""
    from tsg.tier import pick
    dims = dims or pick((1, 2, 3, 4), (1, 2, 3, 4, 5, 6))
    # the accumulator: a local std::vector<double> or a double* parameter whose elements receive a derivative symbol
    arrays = {v["did"]: v for v in fn.locals().values() if v.get("t", "").startswith("std::vector<double") and "did" in v}
    arrays.update({p_["did"]: p_ for p_ in fn.params() if p_["t"].replace(" ", "") in ("double*",)})
    accs = {}
    for q in fn.walk():
        if q.get("k") in ("BinaryOperator", "CompoundAssignOperator") and q.get("op") in ("=", "*="):
            el = ArrayPEval._element(q["c"][0])
            if el is not None and el[0]["did"] in arrays:
                accs.setdefault(el[0]["did"], []).append(q)
    accs = {k: v for k, v in accs.items() if any((classify(fn, x) or (None,))[0] == "D" for w in v for x in walk(w["c"][1]))}
    if len(accs) != 1:
        return 0
    did, writes = next(iter(accs.items()))
    # innermost loop whose body contains every write of the accumulator and of the helper arrays; else the function body
    helper = [q for q in fn.walk() if q.get("k") in ("BinaryOperator", "CompoundAssignOperator") and q.get("op") in ("=", "*=")
              and ArrayPEval._element(q["c"][0]) is not None and ArrayPEval._element(q["c"][0])[0]["did"] in arrays
              and isinstance(arrays[ArrayPEval._element(q["c"][0])[0]["did"]], dict) and arrays[ArrayPEval._element(q["c"][0])[0]["did"]].get("k") == "VarDecl"]
    allw = writes + [h for h in helper if any(classify(fn, x) for x in walk(h["c"][1]))]
    loops = [a for a in fn.ancestors(writes[0]) if a.get("k") == "ForStmt"]
    body = None
    for lp in loops:
        if all(any(x is w for x in walk(lp.get("body"))) for w in allw):
            body = lp.get("body")
            break
    if body is None:
        body = fn.body
    stmts = [c for c in body.get("c", []) if isinstance(c, dict)] if body.get("k") == "CompoundStmt" else [body]
    n = 0
    nd_field = next((q["field"] for q in fn.walk() if q.get("k") == "MemberExpr" and short(q.get("field") or "") == "num_dimensions"), None)
    chk.saw(fn)
    for d in dims:
        pe = ArrayPEval(db, hook=make_hook(fn), members={nd_field: sympy.Integer(d)} if nd_field else {})
        env = {a: {} for a in arrays}
        problem = None
        for st in stmts:
            try:
                r = pe.inplace([st], env, fn, 0)
            except NotClosedForm as e:
                touches = any(ArrayPEval._element(q["c"][0]) is not None and ArrayPEval._element(q["c"][0])[0]["did"] == did
                              for q in walk(st) if q.get("k") in ("BinaryOperator", "CompoundAssignOperator") and q.get("op") in ("=", "*=", "+=", "-=", "/="))
                if touches:
                    problem = "statement @%d that updates the accumulator is not foldable: %s" % (st.get("l", 0), e)
                    break
                continue
        arr = env.get(did, {})
        if problem is None:
            for j in range(d):
                want = sympy.Symbol("D_%d_%d" % (j, j), real=True, nonzero=True)
                for k in range(d):
                    if k != j:
                        want = want * sympy.Symbol("V_%d_%d" % (k, k), real=True, nonzero=True)
                got = arr.get(j)
                if got is None or sympy.expand(got - want) != 0:
                    problem = "num_dimensions = %d: component %d is %s, the product rule gives %s" % (d, j, got, want)
                    break
        n += 1
        chk.ob(rule_id, fn.key + fn.sig, "product rule for num_dimensions = %d" % d, problem is None, fn.where, problem or "", "diff[j] = D_j * prod_{k != j} V_k, every factor addressed with its own dimension")
    return n


def value_rule(chk, db, rule_id, fn, kind="V", dims=None):
    """tensor-product value: a function returning double (or a scalar local accumulated before use) equals prod_k <kind>_k,
    every factor addressed with its own dimension"""
    from tsg.tier import pick
    dims = dims or pick((1, 2, 3, 4), (1, 2, 3, 4, 5, 6))
    nd_field = next((q["field"] for q in fn.walk() if q.get("k") == "MemberExpr" and short(q.get("field") or "") == "num_dimensions"), None)
    returns_value = (fn.d.get("ret") or "").strip() == "double"
    n = 0
    chk.saw(fn)
    for d in dims:
        pe = ArrayPEval(db, hook=make_hook(fn), members={nd_field: sympy.Integer(d)} if nd_field else {})
        want = sympy.Integer(1)
        for k in range(d):
            want = want * sympy.Symbol("%s_%d_%d" % (kind, k, k), real=True, nonzero=True)
        problem, got = None, None
        try:
            if returns_value:
                env = {p_["did"]: OPAQUE for p_ in fn.params()}
                body = fn.body
                got = pe.stmts(body.get("c", []) if body.get("k") == "CompoundStmt" else [body], env, fn, 0)
            else:
                # scalar product accumulated inside the per-point loop: fold the loop body up to the accumulation into the output
                cand = [v for v in fn.locals().values() if v.get("t") == "double" and any(classify(fn, x) for c in v.get("c", []) if isinstance(c, dict) for x in walk(c))]
                if not cand:
                    # double w = 1.0; ... w *= <factor>;
                    upd = {}
                    for q in fn.walk():
                        if q.get("k") == "CompoundAssignOperator" and q.get("op") == "*=" and strip(q["c"][0]).get("k") == "DeclRefExpr" and any(classify(fn, x) for x in walk(q["c"][1])):
                            upd[strip(q["c"][0])["did"]] = True
                    cand = [v for v in fn.locals().values() if v.get("t") == "double" and v.get("did") in upd]
                if len(cand) != 1:
                    return n
                v = cand[0]
                lp = next((a for a in fn.ancestors(v) if a.get("k") == "ForStmt"), None)
                body = lp.get("body") if lp is not None else fn.body
                env = {}
                for st in [c for c in body.get("c", []) if isinstance(c, dict)]:
                    try:
                        pe.inplace([st], env, fn, 0)
                    except NotClosedForm:
                        continue
                got = env.get(v["did"])
        except NotClosedForm as e:
            problem = "not foldable for num_dimensions = %d: %s" % (d, e)
        if problem is None and (got is None or got is OPAQUE or sympy.expand(got - want) != 0):
            problem = "num_dimensions = %d: value is %s, the tensor product is %s" % (d, got, want)
        n += 1
        chk.ob(rule_id, fn.key + fn.sig, "tensor-product value for num_dimensions = %d" % d, problem is None, fn.where, problem or "", "prod_k %s_k with every factor addressed by its own dimension" % kind)
    return n


def fourier_weights_rule(chk, db, rule_id, dims=None):
    """Fourier differentiation weights: weights[slot * num_dimensions + k] receives tensorw * D_k * prod_{j != k} V_j

    The loop nest over k (and the inner products over j) of GridFourier::getDifferentiationWeights is folded for num_dimensions = 1..4
    with the per-direction values and derivatives (the two local arrays filled from the two kernels) as symbols."""
    from tsg.tier import pick
    dims = dims or pick((1, 2, 3, 4), (1, 2, 3, 4, 5, 6))
    n = 0
    for fn in db.fns("TasGrid::GridFourier::getDifferentiationWeights", required=False):
        chk.saw(fn)
        loc = fn.locals()
        # the two per-direction arrays: local std::vector<double> that are filled by calls of local lambdas; the derivative one by the kernel that the value kernel does not feed
        filled = {}
        for q in fn.walk():
            if q.get("k") in ("BinaryOperator",) and q.get("op") == "=":
                el = ArrayPEval._element(q["c"][0])
                rhs = strip(q["c"][1])
                if el is not None and el[0]["did"] in loc and rhs is not None and rhs.get("k") == "CXXOperatorCallExpr" and rhs.get("op") == "()":
                    tgt = strip([c for c in rhs["c"] if isinstance(c, dict)][1])
                    if tgt is not None and tgt.get("k") == "DeclRefExpr":
                        filled[el[0]["did"]] = tgt.get("var") or ""
        vals = [d for d, k in filled.items() if "diff" not in k]
        difs = [d for d, k in filled.items() if "diff" in k]
        wparam = [p_ for p_ in fn.params() if p_["t"].replace(" ", "") == "double*"]
        if len(vals) != 1 or len(difs) != 1 or len(wparam) != 1:
            raise NotClosedForm("value / derivative arrays of the Fourier differentiation weights not recognised")
        # the statement to fold: the outermost loop that reads both arrays and writes the weights
        loops = [l for l in fn.walk() if l.get("k") == "ForStmt" and any(q.get("k") == "CompoundAssignOperator" and q.get("op") == "+=" and ArrayPEval._element(q["c"][0]) is not None
                                                                         and ArrayPEval._element(q["c"][0])[0]["did"] == wparam[0]["did"] for q in walk(l))
                 and not any(q.get("k") == "BinaryOperator" and q.get("op") == "=" and ArrayPEval._element(q["c"][0]) is not None and ArrayPEval._element(q["c"][0])[0]["did"] in (vals[0], difs[0]) for q in walk(l))]
        if not loops:
            raise NotClosedForm("accumulation loop of the Fourier differentiation weights not found")
        lp = min(loops, key=lambda l: len(list(walk(l))))      # innermost such loop = the loop over the derivative direction, with the preceding scalar set-up
        # statements of the enclosing block from the first one after the arrays are filled up to and including the loop
        par = next(a for a in fn.ancestors(lp) if a.get("k") == "CompoundStmt")
        seq = [c for c in par.get("c", []) if isinstance(c, dict)]
        start = max((i for i, st in enumerate(seq) if any(q.get("k") == "BinaryOperator" and q.get("op") == "=" and ArrayPEval._element(q["c"][0]) is not None
                                                                 and ArrayPEval._element(q["c"][0])[0]["did"] in (vals[0], difs[0]) for q in walk(st))), default=-1) + 1
        end = next(i for i, st in enumerate(seq) if st is lp or any(x is lp for x in walk(st)))
        block = seq[start:end + 1]
        nd_field = next((q["field"] for q in fn.walk() if q.get("k") == "MemberExpr" and short(q.get("field") or "") == "num_dimensions"), None)
        T = sympy.Symbol("tensorw", real=True, nonzero=True)

        def hook(q, ev):
            if q.get("k") == "CXXMemberCallExpr" and short(callee(q) or "") == "getSlot":
                return sympy.Integer(0)
            if q.get("k") == "DeclRefExpr" and q.get("var") == "tensorw":
                return T
            return None
        for d in dims:
            pe = ArrayPEval(db, hook=hook, members={nd_field: sympy.Integer(d)} if nd_field else {})
            env = {vals[0]: {j: sympy.Symbol("V_%d" % j, real=True, nonzero=True) for j in range(d)},
                   difs[0]: {j: sympy.Symbol("D_%d" % j, real=True, nonzero=True) for j in range(d)},
                   wparam[0]["did"]: {j: sympy.Integer(0) for j in range(d)}}
            problem = None
            try:
                pe.inplace(block, env, fn, 0)
            except NotClosedForm as e:
                problem = "the accumulation is not foldable: %s" % e
            if problem is None:
                for k in range(d):
                    want = T * sympy.Symbol("D_%d" % k, real=True, nonzero=True)
                    for j in range(d):
                        if j != k:
                            want = want * sympy.Symbol("V_%d" % j, real=True, nonzero=True)
                    got = env[wparam[0]["did"]].get(k)
                    if got is None or sympy.expand(got - want) != 0:
                        problem = "num_dimensions = %d: the weight of direction %d receives %s, the product rule gives %s" % (d, k, got, want)
                        break
            n += 1
            chk.ob(rule_id, fn.key + fn.sig, "product rule of the Fourier differentiation weights for num_dimensions = %d" % d, problem is None, fn.where, problem or "",
                   "weights[slot * num_dimensions + k] += tensorw * D_k * prod_{j != k} V_j")
    return n
