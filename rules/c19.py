"""C19  GradientDescent returns its best accepted iterate within the iteration cap."""
import networkx as nx

from tsg.facts import DB, strip, txt, callee, call_args, call_object, walk, const_val
from tsg.flow import var_of, cond_edges_dominating, forward, element_writes
from tsg.typestate import must_pass_after
from tsg.build import AnalysisBroken

FILE = "DREAM/Optimization/tsgGradientDescent.cpp"


def is_swap(n, a, b):
    if n.get("k") == "CallExpr" and callee(n) == "std::swap":
        x, y = [txt(strip(z)) for z in call_args(n)[:2]]
        return {x, y} == {a, b}
    return False


def run(chk):
    db = DB("serial")
    fns = db.fns("TasOptimization::GradientDescent", [FILE])
    adaptive = [f for f in fns if any(p["name"] == "proj" for p in f.params())]
    const = [f for f in fns if any(p["name"] == "stepsize" for p in f.params())]
    if len(adaptive) != 1 or len(const) != 1:
        raise AnalysisBroken("expected one projected and one constant-step GradientDescent, found %d / %d" % (len(adaptive), len(const)))
    fn = adaptive[0]
    chk.saw(fn)
    chk.rule("C19-D1.restore", "typestate of state.x over the CFG: swap(x0, state.x) displaces the accepted iterate, swap(xStep, state.x) / the inverse swap puts an accepted point back; "
                               "at every return the state must hold the accepted iterate (join = displaced)")
    chk.rule("C19-D2.cap", "every objective evaluation in a loop is dominated, within the same iteration, by a test of performed_iterations against max_iterations and followed by exactly one increment; the outer loops test the cap")
    chk.rule("C19-D3.accept", "state.x is written only by swaps; the accepting swap with xStep executes only on the exit edge of the descent test, xStep being the output of proj")
    chk.rule("C19-D4.nan", "the line search accepts a trial point when its loop ends; the loop condition is the negation of the descent inequality (not (lhs <= rhs)), so that an "
                           "objective value that is NaN - every ordered comparison with it is false - keeps the search going instead of being accepted")
    chk.rule("C19-D3.stepsize", "within one line-search iteration every read of the trial stepsize precedes its reduction; the reduction is compensated by the inverse factor on loop exit before any further use")

    ACC, DIS = "accepted", "displaced"
    cfg = fn.cfg
    # roles, taken from the code: the previous iterate is the local vector that starts as a copy of state.x, the trial point is the output argument of the projection
    projp = [p_ for p_ in fn.params() if "ProjectionFunction" in p_["t"]]
    pjc = [c for c in fn.walk() if c.get("k") == "CXXOperatorCallExpr" and c.get("op") == "()" and projp and var_of(c["c"][1]) == projp[0]["did"]]
    if len(pjc) != 1:
        raise AnalysisBroken("GradientDescent: expected one call of the projection (found %d)" % len(pjc))
    TRIAL = txt(strip(pjc[0]["c"][3]))
    # the previous iterate: the one local, other than the trial point, that is exchanged with state.x
    others = set()
    for n_ in fn.walk():
        if n_.get("k") == "CallExpr" and callee(n_) == "std::swap":
            a_ = [txt(strip(z)) for z in call_args(n_)[:2]]
            if "state.x" in a_:
                others |= {t_ for t_ in a_ if t_ not in ("state.x", TRIAL)}
    if len(others) != 1:
        raise AnalysisBroken("GradientDescent: expected one local besides the trial point that is exchanged with state.x (found %s)" % sorted(others))
    PREV = others.pop()

    def transfer(st, blk):
        for e in blk["e"]:
            if isinstance(e, int):
                n = fn.nodes.get(e)
                if n is None:
                    continue
                if is_swap(n, PREV, "state.x"):
                    st = DIS if st == ACC else ACC
                elif is_swap(n, TRIAL, "state.x"):
                    st = ACC
        return st
    IN = forward(cfg, ACC, transfer, lambda st, blk, i: st, lambda a, b: DIS if DIS in (a, b) else ACC)
    nret = 0
    for n in walk(fn.body, into_lambda=False):
        if n.get("k") == "ReturnStmt":
            nret += 1
            b, idx = cfg.block_of(n)
            st = IN.get(b)
            if st is None:
                continue
            for e in cfg.blocks[b]["e"][:idx]:
                if isinstance(e, int) and fn.nodes.get(e) is not None:
                    x = fn.nodes[e]
                    if is_swap(x, PREV, "state.x"):
                        st = DIS if st == ACC else ACC
                    elif is_swap(x, TRIAL, "state.x"):
                        st = ACC
            loops = [a.get("k") for a in fn.ancestors(n) if a.get("k") in ("WhileStmt", "DoStmt", "ForStmt")]
            chk.ob("C19-D1.restore", fn.name, "return at nesting %s" % ("/".join(reversed(loops)) or "top"), st == ACC, fn.loc(n),
                   "the state holds the accepted iterate" if st == ACC else "state.x still holds the displaced (older) point: the accepted iterate is left in the local copy")
    chk.floor("C19-D1.restore", nret, 2, "return statements of the adaptive GradientDescent")
    # D3.accept: writes to state.x
    nsw = 0
    for n in fn.walk():
        ws = [w for w in element_writes(n)]
        t = txt(n)
        if n.get("k") == "CallExpr" and callee(n) == "std::swap" and "state.x" in [txt(strip(z)) for z in call_args(n)[:2]]:
            nsw += 1
            other = [txt(strip(z)) for z in call_args(n)[:2] if txt(strip(z)) != "state.x"][0]
            if other == TRIAL:
                edges = [(txt(strip(c)), tr) for c, tr in cond_edges_dominating(fn, n)]
                # exit edge of the do-while descent test
                dos = [d for d in walk(fn.body) if d.get("k") == "DoStmt"]
                okx = False
                for d in dos:
                    cb = cfg.block_of(d["cond"])
                    sb = cfg.block_of(n)
                    if cb and sb:
                        cs = cfg.cond_succ(cb[0])
                        # the swap is reached from the false edge of the loop condition only
                        if cs and cs[2] is not None and cfg.dominates(cs[2], sb[0]) and "lhs" in txt(d["cond"]):
                            okx = True
                chk.ob("C19-D3.accept", fn.name, "accepting swap only after the descent test failed to reject", okx, fn.loc(n), "dominating edges %s" % edges)
            elif other != PREV:
                chk.ob("C19-D3.accept", fn.name, "state.x swapped with %s" % other, False, fn.loc(n), "only the previous iterate (%s) and the trial point (%s) may be exchanged with the state" % (PREV, TRIAL))
        elif n.get("k") in ("BinaryOperator", "CXXOperatorCallExpr") and n.get("op") == "=" and txt(strip(n["c"][-2] if n.get("k") == "BinaryOperator" else n["c"][1])).startswith("state.x"):
            chk.ob("C19-D3.accept", fn.name, "direct write %s" % t[:50], False, fn.loc(n), "state.x must only change through the accept / restore swaps")
    chk.floor("C19-D3.accept", nsw, 2, "swaps involving state.x")
    # xStep is the output of proj
    pj = pjc
    sw_trial = [n for n in fn.walk() if n.get("k") == "CallExpr" and callee(n) == "std::swap" and is_swap(n, TRIAL, "state.x")]
    chk.ob("C19-D3.accept", fn.name, "the point exchanged with the state on acceptance is the output of the projection", len(sw_trial) >= 1, fn.loc(pj[0]), "trial point `%s`" % TRIAL)
    fx = [c for c in fn.walk() if c.get("k") == "CXXOperatorCallExpr" and c.get("op") == "()" and txt(strip(c["c"][1])) == "func"]

    # D2.cap
    for c in fx:
        loops = [a for a in fn.ancestors(c) if a.get("k") in ("WhileStmt", "DoStmt", "ForStmt")]
        if not loops:
            continue
        inner = loops[0]
        edges = cond_edges_dominating(fn, c)
        okd = False
        for cn, tr in edges:
            s = strip(cn)
            if s.get("k") == "BinaryOperator" and "performed_iterations" in txt(s["c"][0]) and txt(strip(s["c"][1])) == "max_iterations":
                if (s["op"] == ">=" and tr is False) or (s["op"] == "<" and tr is True):
                    # the test sits in the same (innermost) loop body as the evaluation
                    if any(a is inner for a in fn.ancestors(cn)):
                        okd = True
        chk.ob("C19-D2.cap", fn.name, "objective evaluation %s guarded by the cap in the same iteration" % txt(c)[:30], okd, fn.loc(c))
        incs = [n for n in walk(inner.get("body")) if n.get("k") == "UnaryOperator" and n.get("op") == "++" and "performed_iterations" in txt(n)]
        oki = len(incs) == 1
        if oki:
            oki = bool(must_pass_after(fn, c, lambda x: x is incs[0] or x is strip(inner.get("cond"))) ) and \
                cfg.block_of(incs[0]) is not None
            # the increment must come before the loop condition on every path from the evaluation
            b_inc = cfg.block_of(incs[0])[0]
            b_c = cfg.block_of(c)[0]
            oki = oki and (cfg.postdominates(b_inc, b_c) or b_inc == b_c)
        chk.ob("C19-D2.cap", fn.name, "exactly one iteration count per objective evaluation", oki, fn.loc(c), "%d increment(s) in the loop body" % len(incs))
    for w in [n for n in walk(fn.body) if n.get("k") == "WhileStmt"]:
        t = txt(w["cond"])
        chk.ob("C19-D2.cap", fn.name, "outer loop tests tolerance and cap", "status.residual > tolerance" in t and "status.performed_iterations < max_iterations" in t and "&&" in t, fn.loc(w), t)

    # D3.stepsize
    STEP = "state.adaptive_stepsize"
    dos = [d for d in walk(fn.body) if d.get("k") == "DoStmt"]
    chk.floor("C19-D3.stepsize", len(dos), 1, "line-search loops")
    for d in dos:
        # the trial is accepted when the loop ends: that has to follow from a comparison that is TRUE (a NaN objective value makes every comparison false)
        cnd = strip(d.get("cond"))
        pos = False
        shape = txt(cnd)[:80] if cnd is not None else "?"
        if cnd is not None and cnd.get("k") == "UnaryOperator" and cnd.get("op") == "!":
            inner = strip(cnd["c"][0])
            while inner is not None and inner.get("k") == "ParenExpr":
                inner = strip(inner["c"][0])
            pos = inner is not None and inner.get("k") == "BinaryOperator" and inner.get("op") in ("<=", "<", ">=", ">")
        chk.ob("C19-D4.nan", fn.name, "the line search ends only on a comparison that holds", pos, fn.loc(d),
               "" if pos else "the loop repeats while `%s`: when the objective returns NaN this is false and the trial is accepted without passing the descent test" % shape,
               "while (not (lhs <= rhs + tolerance))")
        body = d["body"]
        reds = [n for n in walk(body) if n.get("k") == "CompoundAssignOperator" and n.get("op") == "/=" and txt(strip(n["c"][0])) == STEP]
        chk.ob("C19-D3.stepsize", fn.name, "one reduction of the trial stepsize per iteration", len(reds) == 1, fn.loc(d), "%d" % len(reds))
        if len(reds) != 1:
            continue
        red = reds[0]
        coeff = txt(strip(red["c"][1]))
        head = cfg.block_of(body)[0]
        comps = [n for n in fn.walk() if n.get("k") == "CompoundAssignOperator" and n.get("op") == "*=" and txt(strip(n["c"][0])) == STEP and txt(strip(n["c"][1])) == coeff]
        comp_ids = {n["id"] for n in comps}
        # reads of the stepsize reachable from the reduction before the loop head or the compensation
        b0, i0 = cfg.block_of(red)
        bad = []

        def scan(bid, frm):
            for e in cfg.blocks[bid]["e"][frm:]:
                if isinstance(e, int):
                    n = fn.nodes.get(e)
                    if n is None:
                        continue
                    if n["id"] in comp_ids:
                        return "stop"
                    if n.get("k") == "MemberExpr" and txt(n) == STEP:
                        par = fn.parent.get(n["id"])
                        while par is not None and par.get("k") in ("ImplicitCastExpr", "ParenExpr"):
                            par = fn.parent.get(par["id"])
                        if par is not None and par.get("id") in comp_ids:
                            continue
                        if par is red:
                            continue
                        bad.append(n)
            return None
        seen = set()
        if scan(b0, i0 + 1) is None:
            work = list(cfg.succs(b0))
            while work:
                b = work.pop()
                if b in seen or b == head:
                    continue
                seen.add(b)
                if scan(b, 0) == "stop":
                    continue
                work.extend(cfg.succs(b))
        chk.ob("C19-D3.stepsize", fn.name, "no use of the reduced stepsize in the iteration that reduced it", not bad, fn.loc(red),
               "read at line(s) %s after the reduction (descent test evaluated with a different stepsize than the trial step)" % sorted({n.get("l") for n in bad}) if bad else "")
        # compensation on the exit edge
        okc = False
        for cpn in comps:
            cb = cfg.block_of(d["cond"])
            sb = cfg.block_of(cpn)
            cs = cfg.cond_succ(cb[0]) if cb else None
            if cs and cs[2] is not None and sb and cfg.dominates(cs[2], sb[0]):
                okc = True
        chk.ob("C19-D3.stepsize", fn.name, "reduction compensated by *= %s on loop exit" % coeff, okc, fn.loc(d))

    # ---------------- constant step variant
    g = const[0]
    chk.saw(g)
    ws = [w for w in walk(g.body) if w.get("k") == "WhileStmt"]
    chk.ob("C19-D2.cap", g.name + "(const step)", "one loop", len(ws) == 1, g.where)
    for w in ws:
        t = txt(w["cond"])
        chk.ob("C19-D2.cap", g.name + "(const step)", "loop tests tolerance and cap", "status.residual > tolerance" in t and "status.performed_iterations < max_iterations" in t and "&&" in t, g.loc(w), t)
        incs = [n for n in walk(w["body"]) if n.get("k") == "UnaryOperator" and n.get("op") == "++" and "performed_iterations" in txt(n)]
        okk = len(incs) == 1 and not [a for a in g.ancestors(incs[0]) if a.get("k") in ("IfStmt", "ForStmt") and any(x is a for x in walk(w["body"]))]
        chk.ob("C19-D2.cap", g.name + "(const step)", "exactly one count per step, unconditionally", okk, g.loc(w))
        # the residual is recomputed from a fresh gradient in every iteration
        gr = [c for c in walk(w["body"]) if c.get("k") == "CXXOperatorCallExpr" and c.get("op") == "()" and txt(strip(c["c"][1])) == "grad"]
        chk.ob("C19-D2.cap", g.name + "(const step)", "gradient refreshed after each step", len(gr) == 1, g.loc(w))

    from rules import reentrant
    chk.rule("C19-D5.reentrant", "the working storage of every GradientDescent variant is local to the call (no non-const variable with static or thread storage duration is declared or written): "
                                 "a callback that runs GradientDescent for an inner problem cannot overwrite the trial point, the gradients or the previous iterate of the outer call")
    nre = reentrant.reentrant_rule(chk, db, "C19-D5.reentrant", ("TasOptimization::GradientDescent",), ["DREAM/Optimization/tsgGradientDescent.cpp", "DREAM/Optimization/tsgGradientDescent.hpp"])
    chk.floor("C19-D5.reentrant", nre, 3, "GradientDescent variants")

    return ("Static rule discharge over the two GradientDescent variants: a two-state typestate of state.x propagated over the CFG (join = displaced) decides that every return "
            "leaves the accepted iterate in the state; dominance/post-dominance rules tie each objective evaluation to a cap test and one count in the same iteration; "
            "reachability within one line-search iteration decides that the descent test uses the stepsize of the trial step. Not decided: the objective values themselves "
            "(monotonicity across caps follows from the restored iterate and the descent inequality numerically).")
