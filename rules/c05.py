"""C05  differentiate() returns the gradient of the surrogate (closed-form and structural clauses)."""
import sympy

from tsg.facts import DB, strip, txt, callee, call_args, call_object, walk, const_val, short, callee_node
from tsg.flow import var_of, cond_edges_dominating
from tsg.peval import PEval
from tsg.sym import NotClosedForm, index_form, to_sympy
from tsg.build import AnalysisBroken

RL = "TasGrid::RuleLocal::"
HPP = "SparseGrids/tsgRuleLocalPolynomial.hpp"
X = sympy.Symbol("x", real=True)
from tsg.tier import pick
POINTS = list(range(0, pick(13, 31)))
# rational sample abscissae in the canonical variable of one basis function (both sides of the kink at 0)
SAMPLES = [sympy.Rational(a, 8) for a in (-7, -5, -3, -1, 1, 3, 5, 7)]


def insts(db, name):
    return {f.d.get("targs", "").rsplit("::", 1)[-1]: f for f in db.fns(RL + name, [HPP]) if f.d.get("targs")}


def run(chk):
    db = DB("serial")
    db.load_all()
    pe = PEval(db)
    chk.rule("C05-D1.pw", "for every instantiated local rule and every point class, d/dx of the closed-form piecewise basis (quadratic, cubic) equals the closed-form derivative routine")
    chk.rule("C05-D1.scale", "d/dx scaleX<rule>(point, x) == scaleDiffX<rule>(point) (the chain-rule factor of the support map)")
    chk.rule("C05-D1.support", "d/dx evalSupport<rule>(order, point, x) == diffSupport<rule>(order, point, x) at rational abscissae on both sides of the node inside the support, orders 1-3 "
                               "(each side is a polynomial of degree <= 3, so 4 exact agreements per side decide the identity)")
    chk.rule("C05-D2.args", "diffSupport forwards (max_order, point, xn) to the high-order derivative exactly as evalSupport forwards them to the high-order value")
    chk.rule("C05-D3.chain", "the chain rule under a domain transform is decided by C10-D1/D2/D4 (same partition, Jacobian = d(inverse)/dx, factor applied to the matching dimension)")
    chk.rule("C05-D4.layout", "gradient accumulation in the local-polynomial tree walk writes y[output * num_dimensions + dim] += dbasis[dim] * coefficient[output] at every site (root and descendant paths agree)")

    pairs = [("evalPWQuadratic", "diffPWQuadratic"), ("evalPWCubic", "diffPWCubic")]
    npw = 0
    for ev_name, df_name in pairs:
        E, D = insts(db, ev_name), insts(db, df_name)
        if not E or not D:
            raise AnalysisBroken("no instantiation of %s / %s" % (ev_name, df_name))
        for r in sorted(set(E) & set(D)):
            chk.saw(E[r])
            chk.saw(D[r])
            bad = []
            na = 0
            for p in POINTS:
                try:
                    e = pe.call(E[r], [sympy.Integer(p), X])
                    d = pe.call(D[r], [sympy.Integer(p), X])
                except NotClosedForm as ex:
                    na += 1
                    continue
                npw += 1
                if sympy.simplify(sympy.diff(e, X) - d) != 0:
                    bad.append("point %d: d/dx[%s] = %s but code returns %s" % (p, e, sympy.expand(sympy.diff(e, X)), sympy.expand(d)))
            chk.ob("C05-D1.pw", "%s<%s>" % (df_name, r), "derivative of %s<%s> for points 0..12" % (ev_name, r), not bad, D[r].where, "; ".join(bad[:2]) if bad else "%d point classes agree" % (len(POINTS) - na))
    chk.floor("C05-D1.pw", npw, 80, "closed-form value/derivative pairs")

    SX, SD = insts(db, "scaleX"), insts(db, "scaleDiffX")
    nsc = 0
    for r in sorted(set(SX) & set(SD)):
        if r == "pwc":
            continue
        bad = []
        for p in POINTS:
            if r == "semilocalp" and p < 1:
                continue
            try:
                e = pe.call(SX[r], [sympy.Integer(p), X])
                d = pe.call(SD[r], [sympy.Integer(p)])
            except NotClosedForm:
                continue
            nsc += 1
            if sympy.simplify(sympy.diff(e, X) - d) != 0:
                bad.append("point %d: d/dx scaleX = %s, scaleDiffX = %s" % (p, sympy.diff(e, X), d))
        chk.saw(SX[r])
        chk.ob("C05-D1.scale", "scaleDiffX<%s>" % r, "d/dx scaleX<%s>" % r, not bad, SD[r].where, "; ".join(bad[:2]) if bad else "")
    chk.floor("C05-D1.scale", nsc, 40, "scaleX/scaleDiffX point classes")

    ES, DS = insts(db, "evalSupport"), insts(db, "diffSupport")
    nsup = 0
    for r in sorted(set(ES) & set(DS)):
        if r == "pwc":
            continue
        chk.saw(ES[r])
        chk.saw(DS[r])
        for order in (1, 2, 3):
            bad = []
            ncase = 0
            for p in POINTS:
                if r == "semilocalp" and order == 1:
                    continue
                try:
                    e = pe.call(ES[r], [sympy.Integer(order), sympy.Integer(p), X, None])
                    d = pe.call(DS[r], [sympy.Integer(order), sympy.Integer(p), X, None])
                    sx = pe.call(SX[r], [sympy.Integer(p), X]) if r in SX else X
                except NotClosedForm as ex:
                    continue
                # abscissae x with canonical coordinate xn = s
                de = sympy.diff(e, X)
                xs = []
                for s in SAMPLES:
                    sol = sympy.solve(sympy.Eq(sx, s), X)
                    if sol and abs(sol[0]) <= 1:
                        xs.append(sol[0])
                if not xs:
                    # no abscissa of the domain maps onto the canonical support: the basis of this point is written directly in x
                    # (the level-0/1 functions of the semi-local rules), the samples are abscissae themselves
                    sx = X
                    xs = list(SAMPLES)
                for xv in xs:
                    sv = sympy.simplify(sx.subs(X, xv))
                    if sv == 0:
                        continue        # the node itself: the hat function has a kink there
                    if sv.is_number and abs(sv) >= 1:
                        continue        # on or outside the boundary of the support (the basis has a kink at the boundary): value and derivative are defined as 0 there through the isSupported flag, not through the closed form
                    try:
                        lv = sympy.nsimplify(de.subs(X, xv).doit())
                        rv = sympy.nsimplify(d.subs(X, xv))
                    except Exception:
                        continue
                    ncase += 1
                    if sympy.simplify(lv - rv) != 0:
                        bad.append("point %d at x=%s: d/dx value = %s, diffSupport = %s" % (p, xv, lv, rv))
            nsup += ncase
            if ncase:
                chk.ob("C05-D1.support", "diffSupport<%s>" % r, "order %d, points 0..%d" % (order, POINTS[-1]), not bad, DS[r].where, "; ".join(bad[:2]) if bad else "%d exact evaluations agree" % ncase)
    chk.floor("C05-D1.support", nsup, 300, "exact derivative evaluations")

    # high-order bases: product form of the Lagrange basis with loops and stateful local lambdas.  Both routines fold for a concrete
    # (order, point) and symbolic x, so the identity d/dx evalPWPower == diffPWPower is decided as a polynomial identity per case.
    chk.rule("C05-D1.power", "for every instantiated local rule, orders {unbounded, 4, 5, 6} and point classes up to depth %d (more than 8 ancestors), d/dx evalPWPower<rule>(order, point, x) "
                             "== diffPWPower<rule>(order, point, x) as polynomials in x (both routines folded, loops and ancestor-walk lambdas executed on concrete indexes)" % pick(13, 17))
    from tsg.peval import ArrayPEval
    EP, DP = insts(db, "evalPWPower"), insts(db, "diffPWPower")
    if not EP or not DP:
        raise AnalysisBroken("no instantiation of evalPWPower / diffPWPower")
    deep = [q for k in range(4, pick(13, 17) + 1) for q in (2 ** k + 1, 2 ** k + 2 ** (k - 1), 2 ** (k + 1) - 2)]
    PW_POINTS = sorted(set(list(range(3, pick(26, 70))) + deep))
    npow = 0
    for r in sorted(set(EP) & set(DP)):
        if r == "pwc":
            continue
        chk.saw(EP[r])
        chk.saw(DP[r])
        for order in (-1, 4, 5, 6):
            bad = []
            n = 0
            maxdeg = 0
            for p in PW_POINTS:
                try:
                    e = ArrayPEval(db).call(EP[r], [sympy.Integer(order), sympy.Integer(p), X])
                    d = ArrayPEval(db).call(DP[r], [sympy.Integer(order), sympy.Integer(p), X])
                except NotClosedForm as ex:
                    bad.append("point %d: not folded (%s)" % (p, ex))
                    continue
                n += 1
                ee = sympy.expand(e)
                maxdeg = max(maxdeg, sympy.degree(ee, X) if ee.has(X) else 0)
                if sympy.expand(sympy.diff(ee, X) - d) != 0:
                    bad.append("point %d: d/dx of the value has degree %s, the derivative routine returns degree %s (difference %s)" % (
                        p, sympy.degree(sympy.diff(ee, X), X), sympy.degree(sympy.expand(d), X) if sympy.expand(d).has(X) else 0,
                        str(sympy.expand(sympy.diff(ee, X) - d))[:80]))
            npow += n
            chk.ob("C05-D1.power", "diffPWPower<%s>" % r, "order %s, %d point classes up to %d" % ("unbounded" if order < 0 else order, len(PW_POINTS), PW_POINTS[-1]),
                   not bad, DP[r].where, "; ".join(bad[:2]) if bad else "%d polynomial identities hold (degree up to %d)" % (n, maxdeg))
    chk.floor("C05-D1.power", npow, 4 * 4 * 40, "folded value/derivative pairs of the high-order basis")

    # ------------------------------------------------------------------ D2
    nargs = 0
    for r in sorted(set(ES) & set(DS)):
        ea = [[txt(strip(a)) for a in call_args(c)] for c in ES[r].calls() if (callee(c) or "").endswith("::evalPWPower")]
        da = [[txt(strip(a)) for a in call_args(c)] for c in DS[r].calls() if (callee(c) or "").endswith("::diffPWPower")]
        if not ea and not da:
            continue
        nargs += 1
        chk.ob("C05-D2.args", "diffSupport<%s>" % r, "arguments of the high-order derivative", {tuple(a) for a in ea} == {tuple(a) for a in da} and bool(da), DS[r].where, "value path %s, derivative path %s" % (ea[:1], da[:1]))
    chk.floor("C05-D2.args", nargs, 4, "instantiations forwarding to the high-order basis")

    # ------------------------------------------------------------------ D4
    nlay = 0
    for f in db.fns("TasGrid::GridLocalPolynomial::walkTree"):
        # the derivative array is the local whose storage is handed to diffBasisSupported; the coefficients come from a strip of the surpluses
        loc = {v["did"]: v for v in f.locals().values() if "did" in v}
        dids = set()
        for c in f.calls():
            if (callee(c) or "").endswith("::diffBasisSupported"):
                for a in call_args(c):
                    for q in walk(a):
                        if q.get("k") == "DeclRefExpr" and q.get("did") in loc and loc[q["did"]].get("t", "").startswith("std::vector<double"):
                            dids.add(q["did"])
        sdids = {d for d, v in loc.items() if "*" in v.get("t", "") and any((callee(q) or "").endswith("::getStrip") and "surpluses" in txt(q) for c in v.get("c", []) if isinstance(c, dict) for q in walk(c))}

        def sub_of(rhs, ids):
            out = []
            for q in walk(rhs):
                if q.get("k") == "ArraySubscriptExpr" and var_of(q["c"][0]) in ids:
                    out.append(txt(strip(q["c"][1])))
                if q.get("k") == "CXXOperatorCallExpr" and q.get("op") == "[]":
                    ch = [x for x in q.get("c", []) if isinstance(x, dict)]
                    if var_of(ch[-2]) in ids:
                        out.append(txt(strip(ch[-1])))
            return out
        sites = [n for n in walk(f.body) if n.get("k") == "CompoundAssignOperator" and n.get("op") == "+=" and sub_of(n["c"][1], dids)]
        if not sites:
            continue
        chk.saw(f)
        for n in sites:
            nlay += 1
            lhs = strip(n["c"][0])
            form = index_form(lhs["c"][1]) if lhs.get("k") == "ArraySubscriptExpr" else None
            rhs = n["c"][1]
            dvar = sub_of(rhs, dids)
            svar = sub_of(rhs, sdids)
            ok = form is not None and dvar and svar and form[2] == dvar[0] and svar[0] in (form[0], form[1]) and "num_dimensions" in (form[0], form[1])
            chk.ob("C05-D4.layout", f.key, "gradient accumulation @%d %s" % (n.get("l", 0), txt(lhs)), bool(ok), f.loc(n),
                   "index form %s, derivative index %s, coefficient index %s" % (form, dvar[:1], svar[:1]), "y[output * num_dimensions + dim]")
    chk.floor("C05-D4.layout", nlay, 2, "gradient accumulation sites in the tree walk")
    # ------------------------------------------------------------------ D7 the chain rule is consulted for every transform that moves the point
    chk.rule("C05-D7.guard", "formCanonicalPoints() moves x whenever a linear domain transform or a conformal map is set; wherever its result feeds a derivative routine, "
                             "diffCanonicalTransform() is consulted under a condition that tests every member formCanonicalPoints() tests (it throws for the maps it cannot differentiate)")
    TSGC = "TasGrid::TasmanianSparseGrid"

    def tested_members(cond):
        return {short(q["field"]) for q in walk(cond) if q.get("k") == "MemberExpr" and q.get("field") and not q.get("fn")}
    fcp = [f for f in db.fns(TSGC + "::formCanonicalPoints")]
    moved = set()
    for f in fcp:
        for q in f.walk():
            if q.get("k") == "IfStmt" and any((callee(c) or "").endswith(("mapConformalTransformedToCanonical", "mapTransformedToCanonical")) for c in walk(q.get("then"))):
                moved |= tested_members(q.get("cond"))
    if not moved:
        raise AnalysisBroken("formCanonicalPoints no longer tests which transforms are set: re-derive C05-D7")
    ng = 0
    for f in db.all_functions(["SparseGrids/TasmanianSparseGrid.cpp"]):
        if f.cls != TSGC or short(f.name) not in ("differentiate", "getDifferentiationWeights"):
            continue
        if not any((callee(c) or "").endswith("::formCanonicalPoints") for c in f.calls()):
            continue
        dct = [c for c in f.calls() if (callee(c) or "").endswith("::diffCanonicalTransform")]
        ng += 1
        chk.saw(f)
        if not dct:
            chk.ob("C05-D7.guard", f.key + f.sig, "chain rule consulted", False, f.where, "the canonical derivative is returned without the Jacobian of the transform")
            continue
        tested = set()
        for e, tr in cond_edges_dominating(f, dct[0]):
            tested |= tested_members(e)
        for a in f.ancestors(dct[0]):
            if a.get("k") == "IfStmt":
                tested |= tested_members(a.get("cond"))
        miss = moved - tested
        chk.ob("C05-D7.guard", f.key + f.sig, "diffCanonicalTransform consulted for every transform that moves x", not miss, f.loc(dct[0]),
               "the guard does not test %s: with only that transform set the derivative of the canonical surrogate is returned unscaled" % sorted(miss) if miss else "tests %s" % sorted(tested & moved))
    chk.floor("C05-D7.guard", ng, 2, "API routines that differentiate through formCanonicalPoints")

    # ------------------------------------------------------------------ D6 extent of the zero fill
    chk.rule("C05-D6.fill", "a getDifferentiationWeights implementation that clears its output before writing the active entries clears all num_points x num_dimensions of them "
                            "(the caller's buffer is only resized by the API layer, entries of inactive points would keep stale numbers)")
    nfill = 0
    N, D = sympy.Symbol("N", positive=True), sympy.Symbol("D", positive=True)
    for f in [g for fs_ in db.load_all().values() for g in fs_ if short(g.name) == "getDifferentiationWeights" and (g.cls or "").startswith("TasGrid::Grid")]:
        wp = next((p_ for p_ in f.params() if p_["name"] == "weights" or p_["t"].replace(" ", "") == "double*"), None)
        if wp is None:
            continue
        loc = {v["did"]: v for v in f.locals().values() if "did" in v}

        def res(n, loc=loc):
            k = n.get("k")
            if k == "MemberExpr" and short(n.get("field") or "") == "num_dimensions":
                return D
            if k in ("CXXMemberCallExpr",) and (callee(n) or "").endswith("::getNumIndexes"):
                return N        # size of the work set (loaded points, or needed points when nothing is loaded)
            if k == "CallExpr" and (callee(n) or "").endswith("Utils::size_mult"):
                a = call_args(n)
                return to_sympy(a[0], res) * to_sympy(a[1], res)
            if k == "DeclRefExpr" and n.get("did") in loc and loc[n["did"]].get("t") in ("int", "size_t"):
                ini = [c for c in loc[n["did"]].get("c", []) if isinstance(c, dict)]
                if ini:
                    return to_sympy(ini[0], res)
            if k == "ConditionalOperator":
                a, b = to_sympy(n["c"][1], res), to_sympy(n["c"][2], res)
                if sympy.simplify(a - b) == 0:
                    return a
            return None
        for c in f.calls():
            if (callee(c) or "") in ("std::fill_n", "std::fill") and var_of(call_args(c)[0]) == wp["did"]:
                nfill += 1
                chk.saw(f)
                try:
                    e = to_sympy(call_args(c)[1], res)
                    ok = sympy.simplify(e - N * D) == 0
                    detail = "clears %s entries" % e
                except NotClosedForm as ex:
                    ok, detail = False, "extent not a closed form: %s" % ex
                chk.ob("C05-D6.fill", f.key, "zero fill of the weights", ok, f.loc(c), detail, "N * D (points x dimensions)")
    chk.floor("C05-D6.fill", nfill, 4, "zero fills in getDifferentiationWeights implementations")

    # ------------------------------------------------------------------ D5 product rule across dimensions
    chk.rule("C05-D5.product", "the per-basis gradient is assembled by the product rule: for num_dimensions = 1..4 the loop nest is folded with the one-dimensional values / derivatives as symbols "
                               "(tagged with the indexes that address them) and component j must equal D_j * prod_{k != j} V_k")
    from rules import product
    nprod = 0
    for name in ("TasGrid::GridSequence::differentiate", "TasGrid::GridSequence::getDifferentiationWeights", "TasGrid::GridGlobal::getDifferentiationWeights",
                 "TasGrid::GridWavelet::evalDiffBasis", "TasGrid::GridLocalPolynomial::diffBasisSupported"):
        fs = db.fns(name, required=False)
        got = sum(product.product_rule(chk, db, "C05-D5.product", f) for f in fs)
        if not got:
            raise AnalysisBroken("C05-D5: the gradient accumulation of %s is no longer in a foldable form" % name)
        nprod += got
    try:
        nfw = product.fourier_weights_rule(chk, db, "C05-D5.product")
    except NotClosedForm as e:
        raise AnalysisBroken("C05-D5: %s" % e)
    if not nfw:
        raise AnalysisBroken("C05-D5: the Fourier differentiation weights were not folded")
    nprod += nfw
    chk.floor("C05-D5.product", nprod, 30, "folded product-rule nests (function x dimension)")

    # the chain-rule clauses are the same obligations as in C10: evaluate them here as well
    from rules import c10
    from tsg.report import Check
    sub = Check("C10", chk.tier, chk.seed)
    c10.run(sub)
    chk.absorb(sub)
    nchain = 0
    for o in sub.obls:
        if o["rule"] == "C10-D4.chain" or (o["rule"] == "C10-D1.partition" and "diffCanonicalTransform" in o["function"]) or (o["rule"] == "C10-D2.algebra" and "Jacobian" in o["construct"]):
            nchain += 1
            chk.ob("C05-D3.chain", o["function"], o["construct"], o["ok"], o["where"], o["detail"], o["expected"])
    chk.floor("C05-D3.chain", nchain, 6, "chain-rule obligations shared with C10")

    from rules import wavelet
    from tsg.tier import pick as _pick
    chk.rule("C05-D8.wavelet", "the derivative routines of the wavelet rule are the derivatives of its value routines: order 1 - eval_linear<1> equals d/dx eval_linear<0> (both folded into piecewise "
                               "closed forms per point) between the kinks; order 3 - with the table interpolation kept as an uninterpreted function, the derivative form of every point is "
                               "(du/dx) * I'(table, u) for the value form I(table, u), shortcuts on isolated abscissae only where justified; interpolate<1> == d/dx interpolate<0>")
    nw = wavelet.linear_rule(chk, db, "C05-D8.wavelet", max_level=_pick(4, 6))
    nw += wavelet.cubic_rule(chk, db, "C05-D8.wavelet", max_level=_pick(6, 8))
    nw += wavelet.interpolate_rule(chk, db, "C05-D8.wavelet")
    chk.floor("C05-D8.wavelet", nw, 60, "wavelet points with paired value / derivative forms")

    return ("Static rule discharge (R-SYMBOLIC by partial evaluation of loop-free basis routines into sympy closed forms, for every instantiated rule and point class 0..12): the derivative "
            "routines are the derivatives of the value routines, including the support map; argument agreement of the high-order paths; row-major layout of the gradient accumulation; the product rule across dimensions of the Sequence, Global, Wavelet and Local Polynomial gradient nests folded for 1-4 dimensions. "
            "The one dimensional wavelet derivatives are decided against the value routines (closed forms for order 1, chain rule over the uninterpreted table interpolation for order 3). "
            "The Lagrange caches of Global/Sequence grids, the quotient rule of the Fourier kernel and the contents of the wavelet tables are algorithmic and not decided.")
