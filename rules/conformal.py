"""C10-D11.conformal  the three routines of the conformal (asin) map are folded into closed forms and compared.

The precompute loops (tables of log-coefficients and exponents, running log-factorial and log-Gamma ratio, the normalising sum)
and the per-coordinate sections are executed symbolically for the truncations N = 0..NMAX with the coordinate as a positive
symbol.  Decided:
  forward   x -> S_N(x) / S_N(1) with S_N the Maclaurin polynomial of asin of degree 2N+1 (the documented map)
  inverse   the residual is S_N(x)/S_N(1) - b, the derivative series is S_N'(x), the Newton step is x - r / (dr/dx),
            and the re-evaluation inside the iteration computes the same two series at the new iterate
  weights   the factor is S_N'(x) / S_N(1), and 1 / S_N(1) at x = 0
so that inverse(forward(x)) is the fixed point of a Newton iteration on the right equation and the weight correction is the
Jacobian of the forward map.  Convergence of the iteration and round-off are not decided."""
import sympy

from tsg.facts import strip, txt, callee, call_args, walk
from tsg.sym import to_sympy, NotClosedForm
from tsg.build import AnalysisBroken

TSG = "TasGrid::TasmanianSparseGrid"
NMAX = 5


class Fold:
    def __init__(self, fn, N, x0):
        self.fn = fn
        self.N = sympy.Integer(N)
        self.params = {p["did"] for p in fn.params()}
        self.env = {}            # did -> sympy value
        self.tables = {}         # did -> {k: value} ; scalars per dimension (cm) use key None
        self.x = x0
        self.w = sympy.Symbol("w", positive=True)
        self.newton = []         # (x before, step expression, r, dr environment snapshot)
        self.snap = []           # snapshots (label, env copy by name, x)
        self.names = {}
        self.target = None       # symbol of the value the inverse solves for (a copy of the coordinate that is never assigned again)
        self.step_stmt = None
        self.residual = None     # did of the variable the iteration tests
        self.assigned = set()
        for q in fn.walk():
            if q.get("k") in ("BinaryOperator", "CompoundAssignOperator") and q.get("op") in ("=", "+=", "-=", "*=", "/="):
                l = strip(q["c"][0])
                if l is not None and l.get("k") == "DeclRefExpr":
                    self.assigned.add(l.get("did"))

    # ---- expressions
    def element(self, n):
        """(base DeclRefExpr, [index nodes]) of v[i] / v[i][k]"""
        idx = []
        cur = strip(n)
        while cur is not None:
            if cur.get("k") == "ArraySubscriptExpr":
                idx.append(cur["c"][1])
                cur = strip(cur["c"][0])
            elif cur.get("k") == "CXXOperatorCallExpr" and cur.get("op") == "[]":
                ch = [c for c in cur.get("c", []) if isinstance(c, dict)]
                idx.append(ch[-1])
                cur = strip(ch[-2])
            else:
                break
        if idx and cur is not None and cur.get("k") == "DeclRefExpr" and "did" in cur:
            return cur, list(reversed(idx))
        if idx and cur is not None and cur.get("k") == "MemberExpr":
            return cur, list(reversed(idx))
        return None

    def cell(self, n):
        """('table', did, key) | ('x',) | ('w',) | ('N',) | None"""
        el = self.element(n)
        if el is None:
            return None
        base, idx = el
        if base.get("k") == "MemberExpr":
            return ("N",) if (base.get("field") or "").endswith("conformal_asin_power") else None
        did = base["did"]
        t = base.get("t", "")
        if did in self.tables:
            if len(idx) == 2:
                k = self.expr(idx[1])
                if not k.is_Integer:
                    raise NotClosedForm("symbolic series index")
                return ("table", did, int(k))
            k = self.expr(idx[0])
            return ("table", did, int(k) if k.is_Integer else None)      # a series table shared by the dimensions, or one value per dimension
        if "*" in t or t.endswith("]"):
            return ("w",) if did in self.params else ("x",)
        return None

    def resolve(self, n):
        k = n.get("k")
        c = self.cell(n) if k in ("ArraySubscriptExpr", "CXXOperatorCallExpr") else None
        if c is not None:
            if c[0] == "N":
                return self.N
            if c[0] == "x":
                return self.x
            if c[0] == "w":
                return self.w
            tab = self.tables[c[1]]
            if c[2] not in tab:
                raise NotClosedForm("read of an unset table entry %s[%s]" % (self.names.get(c[1]), c[2]))
            return tab[c[2]]
        if k == "DeclRefExpr" and n.get("did") in self.env:
            return self.env[n["did"]]
        if k in ("CXXOperatorCallExpr", "UnaryOperator") and n.get("op") == "*" and any((callee(q) or "").endswith("max_element") for q in walk(n)) \
                and any((q.get("field") or "").endswith("conformal_asin_power") for q in walk(n)):
            return self.N + 2       # the largest truncation over the dimensions: this dimension has a smaller one
        if k == "CXXMemberCallExpr" and (callee(n) or "").endswith("::size"):
            return sympy.Symbol("size", positive=True, integer=True)
        return None

    def expr(self, n):
        return to_sympy(n, self.resolve)

    # ---- statements
    def assign(self, st):
        op = st["op"]
        lhs = strip(st["c"][0])
        rhs = self.expr(st["c"][1])

        def upd(cur):
            if op == "=":
                return rhs
            if cur is None:
                raise NotClosedForm("update of an unset value: " + txt(st)[:60])
            return {"+=": cur + rhs, "-=": cur - rhs, "*=": cur * rhs, "/=": cur / rhs}[op]
        if lhs.get("k") == "DeclRefExpr" and "did" in lhs:
            self.env[lhs["did"]] = sympy.simplify(upd(self.env.get(lhs["did"])))
            return
        c = self.cell(lhs)
        if c is None:
            raise NotClosedForm("assignment to " + txt(lhs)[:40])
        if c[0] == "table":
            self.tables[c[1]][c[2]] = sympy.simplify(upd(self.tables[c[1]].get(c[2])))
        elif c[0] == "x":
            new = upd(self.x)
            if self.in_while:
                # the Newton step: recorded, and the iteration continues from a fresh iterate
                self.newton.append((self.x, new))
                self.step_stmt = st
                self.x = sympy.Symbol("y", positive=True)
            else:
                self.x = sympy.simplify(new)
        elif c[0] == "w":
            self.w = sympy.simplify(upd(self.w))
        else:
            raise NotClosedForm("assignment to the truncation")

    def by_name(self):
        return {self.names.get(d, d): v for d, v in self.env.items()}

    in_while = False

    def run(self, st):
        if st is None:
            return
        k = st.get("k")
        if k == "CompoundStmt":
            for s in st.get("c", []):
                self.run(s)
        elif k == "DeclStmt":
            for d in st.get("c", []):
                self.names[d["did"]] = d.get("name")
                t = d.get("t", "")
                if t.startswith("std::vector<"):
                    self.tables[d["did"]] = {}
                    ctor = [q for q in walk(d) if q.get("k") == "CXXConstructExpr"]
                    args = [a for a in (ctor[0].get("c", []) if ctor else []) if isinstance(a, dict) and a.get("k") != "CXXDefaultArgExpr" and "allocator" not in a.get("t", "")]
                    if t == "std::vector<double>" and len(args) == 2:
                        self.tables[d["did"]][None] = self.expr(args[1])     # vector(n, value)
                elif d.get("c") and t in ("double", "float", "FloatType", "int"):
                    init = strip(d["c"][0])
                    if d["did"] not in self.assigned and init is not None and init.get("k") in ("ArraySubscriptExpr", "CXXOperatorCallExpr") and self.cell(init) == ("x",):
                        self.target = sympy.Symbol("b", positive=True)      # held fixed while the coordinate is iterated
                        self.env[d["did"]] = self.target
                    else:
                        self.env[d["did"]] = self.expr(d["c"][0])
                # pointers / wrappers into the coordinate buffer: addressed by role in cell()
        elif k in ("BinaryOperator", "CompoundAssignOperator") and st.get("op") in ("=", "+=", "-=", "*=", "/="):
            self.assign(st)
        elif k == "ForStmt":
            var = st["init"]["c"][0]
            self.names[var["did"]] = var.get("name")
            lo = self.expr(var["c"][0])
            cond = strip(st["cond"])
            try:
                hi = self.expr(cond["c"][1])
            except NotClosedForm:
                hi = sympy.Symbol("n", integer=True, positive=True)     # num_dimensions / num_points
            if hi.is_Integer and lo.is_Integer and cond.get("op") in ("<", "<="):
                last = int(hi) if cond["op"] == "<=" else int(hi) - 1
                for v in range(int(lo), last + 1):
                    self.env[var["did"]] = sympy.Integer(v)
                    self.run(st["body"])
            else:
                # loop over the dimensions / the points: every iteration does the same to its own coordinate
                self.env[var["did"]] = sympy.Symbol(var.get("name", "i"), integer=True, nonnegative=True)
                self.run(st["body"])
        elif k == "IfStmt":
            cnd = sympy.simplify(self.expr(st["cond"]))
            if cnd is sympy.true or cnd == True:    # noqa: E712
                self.run(st.get("then"))
            elif cnd is sympy.false or cnd == False:    # noqa: E712
                self.run(st.get("else"))
            else:
                raise NotClosedForm("undecided branch: " + txt(st["cond"])[:60])
        elif k == "WhileStmt":
            kids = [c for c in st.get("c", []) if isinstance(c, dict)]
            cond = st.get("cond") or kids[0]
            tested = {q["did"] for q in [cond] + list(walk(cond)) if q.get("k") == "DeclRefExpr" and q.get("did") in self.env}
            if len(tested) != 1:
                raise NotClosedForm("the iteration does not test one residual variable")
            self.residual = tested.pop()
            x_entry = self.x
            self.snap.append((self.env[self.residual], self.x))
            self.in_while = True
            self.run(st.get("body") or kids[-1])
            self.in_while = False
            if self.step_stmt is not None:
                rhs = self.expr(self.step_stmt["c"][1])
                self.snap.append((self.env[self.residual], self.x, rhs if self.step_stmt["op"] == "-=" else None))
            self.x = x_entry                # what follows the iteration is bookkeeping on the converged value (sign)
        elif k in ("CXXMemberCallExpr", "ExprWithCleanups", "NullStmt"):
            return                          # resize / getPoints: storage only
        else:
            raise NotClosedForm("statement %s: %s" % (k, txt(st)[:60]))


def asin_poly(N, x):
    return sum(sympy.Rational(sympy.factorial(2 * k), 4 ** k * sympy.factorial(k) ** 2 * (2 * k + 1)) * x ** (2 * k + 1) for k in range(N + 1))


def conformal_rule(chk, db, rid="C10-D11.conformal"):
    chk.rule(rid, "the conformal (asin) routines folded for truncations 0..%d with the coordinate as a symbol: the forward map is S_N(x)/S_N(1) with S_N the Maclaurin polynomial of asin; the "
                  "inverse iterates Newton on S_N(x)/S_N(1) - b with the derivative series S_N'(x) (step x - r/(dr/dx), same series re-evaluated at the new iterate); the weight factor is "
                  "S_N'(x)/S_N(1), and 1/S_N(1) at x = 0" % NMAX)
    X = sympy.Symbol("x", positive=True)
    fwd = db.fn(TSG + "::mapConformalCanonicalToTransformed")
    invs = [f for f in db.fns(TSG + "::mapConformalTransformedToCanonical")]
    wts = db.fn(TSG + "::mapConformalWeights")
    n = 0

    def zero(e):
        return sympy.simplify(e) == 0

    def fold(f, N, x0):
        fo = Fold(f, N, x0)
        try:
            fo.run(f.body)
        except NotClosedForm as e:
            raise AnalysisBroken("%s: %s%s cannot be folded for truncation %d (%s): the conformal map is not decided" % (rid, f.key, f.sig, N, e))
        return fo

    for N in range(NMAX + 1):
        S = asin_poly(N, X)
        S1 = asin_poly(N, sympy.Integer(1))
        # forward
        fo = fold(fwd, N, X)
        n += 1
        chk.saw(fwd)
        if fo is not None:
            ok = zero(fo.x - S / S1)
            chk.ob(rid, fwd.key + fwd.sig, "forward map, truncation %d" % N, ok, fwd.where,
                   "" if ok else "the folded map is %s, the truncated asin series normalised at 1 is %s" % (sympy.simplify(fo.x), sympy.simplify(S / S1)))
        # inverse
        for f in invs:
            fo = fold(f, N, X)
            n += 1
            chk.saw(f)
            if fo is None:
                continue
            tag = "%s<%s>" % (f.key, f.d.get("targs"))
            if len(fo.newton) != 1 or len(fo.snap) != 2 or fo.target is None or fo.snap[1][2] is None:
                chk.ob(rid, tag, "inverse map, truncation %d" % N, False, f.where, "no Newton iteration of the expected shape (target copy, tested residual, one update x -= step)")
                continue
            T = fo.target
            x_before, x_after = fo.newton[0]
            r_entry = fo.snap[0][0]
            r_it, Y, step2 = fo.snap[1]
            dS = sympy.diff(S, X)
            ok1 = zero(r_entry - (S / S1 - T))
            want = (S / S1 - T) / (dS / S1)
            ok3 = zero((x_before - x_after) - want)
            ok4 = zero(r_it - (S.subs(X, Y) / S1 - T))
            ok5 = zero(step2 - want.subs(X, Y))
            for lab, ok, why in (("residual tested by the iteration", ok1, "%s is not S_N(x)/S_N(1) - b" % r_entry),
                                 ("Newton step", ok3, "the step %s is not r / (dr/dx) = %s" % (sympy.simplify(x_before - x_after), sympy.simplify(want))),
                                 ("residual at the new iterate", ok4, "%s is not S_N(y)/S_N(1) - b" % r_it),
                                 ("next step at the new iterate", ok5, "%s is not r / (dr/dx) at y" % step2)):
                chk.ob(rid, tag, "inverse map, truncation %d: %s" % (N, lab), ok, f.where, "" if ok else why)
        # weights
        for x0, lab in ((X, "x != 0"), (sympy.Integer(0), "x = 0")):
            fo = fold(wts, N, x0)
            n += 1
            chk.saw(wts)
            if fo is None:
                continue
            W = sympy.Symbol("w", positive=True)
            want = sympy.diff(S, X).subs(X, x0) / S1
            ok = zero(fo.w / W - want)
            chk.ob(rid, wts.key + wts.sig, "weight factor, truncation %d, %s" % (N, lab), ok, wts.where,
                   "" if ok else "the folded factor is %s, the Jacobian of the forward map is %s" % (sympy.simplify(fo.w / W), sympy.simplify(want)))
    return n
