"""Local smart pointers that are empty on some path (C14: a malformed file must end in std::runtime_error, not in a null dereference).

A local std::unique_ptr / std::shared_ptr is *possibly empty* when it is default-constructed, initialised from an immediately
invoked lambda one of whose returns is an empty pointer, or assigned such a value.  Every dereference (`p->`, `*p`) of such a
local, in the function or in a local lambda that captures it, needs one of:

  (a) every path from the function entry to the dereference assigns the pointer from a call or a `new`-like factory
      (make_unique / make_shared / a function returning the pointer type) after the last possibly-empty value;
  (b) a condition that implies the pointer is set dominates the dereference (`if (p)`, `if (!p) throw/return`, `p != nullptr`, `p.get()`);
  (c) every path to the dereference first calls a local lambda that itself tests the pointer and leaves (throws) when it is empty.
"""
from tsg.facts import strip, txt, walk, callee, short
from tsg.flow import cond_edges_dominating, is_reachable
from tsg.typestate import must_pass_before
from tsg.build import AnalysisBroken

PTR = ("std::unique_ptr<", "std::shared_ptr<")


def _peel(n):
    n = strip(n)
    while n is not None and n.get("k") in ("MaterializeTemporaryExpr", "CXXBindTemporaryExpr", "CXXFunctionalCastExpr", "ExprWithCleanups", "ImplicitCastExpr", "ParenExpr"):
        ch = [x for x in n.get("c", []) if isinstance(x, dict)]
        n = strip(ch[0]) if ch else None
    return n


def _is_empty_ptr(n):
    n = _peel(n)
    if n is None:
        return False
    if n.get("k") in ("CXXNullPtrLiteralExpr", "GNUNullExpr"):
        return True
    if n.get("k") in ("CXXConstructExpr", "CXXTemporaryObjectExpr") and n.get("t", "").startswith(PTR):
        args = [x for x in n.get("c", []) if isinstance(x, dict)]
        if not args:
            return True
        if len(args) == 1:
            return _is_empty_ptr(args[0])
    return False


def _lambda_of(db, f, key):
    for g in db.all_functions([f.file]):
        if g.d.get("islambda") and g.key == key:
            return g
    return None


def _maybe_empty_value(db, f, n):
    """an initialiser / right-hand side that may produce an empty pointer"""
    if _is_empty_ptr(n):
        return True
    p = _peel(n)
    if p is not None and p.get("k") == "CXXOperatorCallExpr" and p.get("op") == "()" and "::lambda@" in (p.get("key") or ""):
        lf = _lambda_of(db, f, p["key"])
        if lf is not None:
            for r in lf.walk():
                if r.get("k") == "ReturnStmt" and r.get("c") and _is_empty_ptr(r["c"][0]):
                    return True
    return False


def _mentions(n, did):
    return any(q.get("k") == "DeclRefExpr" and q.get("did") == did for q in [n] + list(walk(n)))


def _nonnull_fact(cond, truth, did):
    """does cond == truth imply that the pointer with declaration id did is set?"""
    c = _peel(cond)
    if c is None:
        return False
    t = txt(c).replace(" ", "")
    if c.get("k") == "UnaryOperator" and c.get("op") == "!":
        inner = _peel(c["c"][0])
        return (not truth) and inner is not None and _mentions(inner, did) and _nonnull_fact(inner, True, did) is not False and _is_ptr_test(inner, did)
    if _is_ptr_test(c, did):
        return truth
    if c.get("k") in ("BinaryOperator", "CXXOperatorCallExpr") and c.get("op") in ("!=", "=="):
        ch = [x for x in c.get("c", []) if isinstance(x, dict)]
        ch = ch[-2:]
        if len(ch) == 2 and any(_mentions(x, did) for x in ch) and any(_is_empty_ptr(x) or txt(_peel(x) or {}) in ("nullptr", "0", "NULL") for x in ch):
            return truth if c.get("op") == "!=" else (not truth)
    return False


def _is_ptr_test(c, did):
    """`p` used as a boolean (operator bool), or p.get()"""
    c = _peel(c)
    if c is None:
        return False
    if c.get("k") == "DeclRefExpr" and c.get("did") == did:
        return True
    if c.get("k") == "CXXMemberCallExpr":
        cal = callee(c) or ""
        if short(cal) in ("operator bool", "get") and _mentions(c, did):
            return True
    return False


def _guard_lambdas(db, f, did):
    """local lambdas of f whose body leaves (throw) when the pointer is empty: {lambda key}"""
    out = set()
    for g in db.all_functions([f.file]):
        if not g.d.get("islambda") or not g.key.startswith(f.key + "::lambda@"):
            continue
        for a in g.walk():
            if a.get("k") != "IfStmt" or a.get("cond") is None or a.get("then") is None:
                continue
            if _nonnull_fact(a["cond"], False, did) and any(q.get("k") == "CXXThrowExpr" for q in [a["then"]] + list(walk(a["then"]))):
                out.add(g.key)
    return out


def nullable_rule(chk, db, rule_id, files):
    chk.rule(rule_id, "a local smart pointer that is empty on some path (default-constructed, or produced by a lambda that returns an empty pointer for one of its cases) is dereferenced only "
                      "where it is known to be set: after an assignment from a factory on every path, under a dominating test of the pointer, or after a local guard that throws when it is empty")
    nvars = 0
    nder = 0
    for f in db.all_functions(files):
        if f.d.get("islambda"):
            continue
        for d in f.locals().values():
            if d.get("k") != "VarDecl" or not d.get("t", "").startswith(PTR) or "did" not in d:
                continue
            did = d["did"]
            init = [x for x in d.get("c", []) if isinstance(x, dict)]
            empty_init = (not init) or _maybe_empty_value(db, f, init[0])
            assigns = []
            for q in f.walk():
                if q.get("k") == "CXXOperatorCallExpr" and q.get("op") == "=":
                    ch = [x for x in q.get("c", []) if isinstance(x, dict)]
                    if len(ch) >= 3 and (_peel(ch[1]) or {}).get("did") == did:
                        assigns.append((q, _maybe_empty_value(db, f, ch[2])))
            if not empty_init and not any(e for _, e in assigns):
                continue
            nvars += 1
            chk.saw(f)
            guards = _guard_lambdas(db, f, did)
            scopes = [f] + [g for g in db.all_functions([f.file]) if g.d.get("islambda") and g.key.startswith(f.key + "::lambda@")]
            for g in scopes:
                for q in g.walk(into_lambda=False):
                    if q.get("k") != "CXXOperatorCallExpr" or q.get("op") not in ("->", "*"):
                        continue
                    ch = [x for x in q.get("c", []) if isinstance(x, dict)]
                    if len(ch) < 2 or (_peel(ch[1]) or {}).get("did") != did or len(ch) > 2:
                        continue
                    if not is_reachable(g, q):
                        continue
                    nder += 1
                    ok = any(_nonnull_fact(c, t, did) for c, t in cond_edges_dominating(g, q))
                    why = "dominating test" if ok else ""
                    if not ok and g is f:
                        set_nodes = [a for a, e in assigns if not e]

                        def pred(n):
                            if any(a is n for a in set_nodes):
                                return True
                            return n.get("k") == "CXXOperatorCallExpr" and n.get("op") == "()" and (n.get("key") in guards)
                        ok = bool(must_pass_before(f, q, pred))
                        why = "assigned or guarded on every path" if ok else ""
                    chk.ob(rule_id, f.key + f.sig, "dereference of `%s` at line %d%s" % (d.get("name"), q.get("l", 0), " (in a local lambda)" if g is not f else ""), ok, g.loc(q),
                           why if ok else "`%s` can be empty here: it is %s and no test of the pointer dominates this use" % (
                               d.get("name"), "default-constructed and assigned only on some paths" if (not init or _is_empty_ptr(init[0])) else "the result of a lambda that returns an empty pointer for one case"),
                           "the pointer is set on every path that reaches the dereference")
    return nvars, nder
