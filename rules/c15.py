"""C15  DREAM sampling: chain indices in range, pdf only on in-domain proposals, bookkeeping.

Decides structural clauses only (see DESIGN.md section 4, C15).  The acceptance *law* as a
probability statement and run splitting are not decided."""
from tsg.facts import DB, strip, txt, callee, call_args, call_object, walk, const_val, callee_node
from tsg.flow import UpperBounds, var_of, base_var, element_writes, writes_to_var, cond_edges_dominating, is_reachable
from tsg.build import AnalysisBroken
from tsg.taint import carrier
from tsg.typestate import member_writes, must_pass_after, member_of

STATE = "TasDREAM::TasmanianDREAM"


def index_params(db):
    """slots filled from the repo: parameters of TasmanianDREAM methods that are used as chain
    index (subscript of a member vector, or offset added to member.begin())"""
    res = {}
    for fn in db.all_functions(["DREAM/tsgDreamState.hpp", "DREAM/tsgDreamState.cpp"]):
        if fn.cls != STATE:
            continue
        pids = {p["did"]: i for i, p in enumerate(fn.params()) if p["t"] in ("size_t", "int", "unsigned long", "std::size_t")}
        if not pids:
            continue
        hits = set()
        for n in fn.walk():
            k = n.get("k")
            idx = None
            if k == "CXXOperatorCallExpr" and n.get("op") == "[]":
                if strip(n["c"][1]).get("field"):
                    idx = n["c"][2]
            elif k == "CXXOperatorCallExpr" and n.get("op") == "+":
                a = strip(n["c"][1])
                if a.get("k") == "CXXMemberCallExpr" and (callee(a) or "").endswith(("::begin", "::cbegin", "::data")):
                    o = call_object(a)
                    if o is not None and strip(o).get("field"):
                        idx = n["c"][2]
            elif k == "BinaryOperator" and n.get("op") == "+":
                a = strip(n["c"][0])
                if a.get("k") == "CXXMemberCallExpr" and (callee(a) or "").endswith("::data"):
                    idx = n["c"][1]
            if idx is not None:
                for x in walk(idx):
                    if x.get("k") == "DeclRefExpr" and x.get("did") in pids:
                        hits.add(pids[x["did"]])
        if hits:
            res.setdefault(fn.name, set()).update(hits)
    return res


def local_decl(fn, did):
    for n in fn.walk():
        if n.get("k") == "VarDecl" and n.get("did") == did:
            return n
    return None


def ineq_on_edge(cond, truth, resolve):
    """the inequality that holds on the (cond, truth) edge, in the normal form (expr, strict): `expr > 0` when strict else `expr >= 0`;
    operands may come in any order and under leading negations. None when the condition is not an order comparison."""
    import sympy
    from tsg.sym import to_sympy, NotClosedForm
    c = strip(cond)
    neg = not truth
    while c is not None and c.get("k") == "UnaryOperator" and c.get("op") == "!":
        neg = not neg
        c = strip(c["c"][0])
    if c is None or c.get("k") != "BinaryOperator" or c.get("op") not in ("<", "<=", ">", ">="):
        return None
    try:
        a, b = to_sympy(c["c"][0], resolve), to_sympy(c["c"][1], resolve)
    except NotClosedForm:
        return None
    op = c["op"]
    expr, strict = (a - b, op == ">") if op in (">", ">=") else (b - a, op == "<")
    if neg:
        expr, strict = -expr, not strict
    return sympy.simplify(expr), strict



def run(chk):
    db = DB("serial")
    chk.rule("C15-D1.index", "every chain-index argument of a TasmanianDREAM accessor carries the dataflow fact 'arg < num_chains' "
                             "(facts: false edge of v>=N, true edge of v<N, v=N-1; killed by any other write; join=intersection)")
    chk.rule("C15-D1.local", "every subscript of a local vector constructed with num_chains elements carries the fact 'index < num_chains'")
    chk.rule("C15-D1.nonzero", "the idiom v = num_chains-1 is only sound when num_chains != 0: an early return on num_chains == 0 dominates the sampling loop")
    chk.rule("C15-D2.pdf", "the probability function is invoked only on the candidate buffer, which is appended to only on the true edge of inside(proposal) with that same proposal; "
                           "the invalid flag is written only on the false edge; value cursors advance only under valid[i]")
    chk.rule("C15-D3.books", "saveStateHistory is called once per iteration exactly under t >= num_burnup; accept edge copies (candidate, *ival), reject edge copies (chain state, cached pdf) for the same i; "
                             "state and pdf values are committed together every iteration")
    chk.rule("C15-D3.accept", "acceptance test: automatic accept on strictly larger value, otherwise ratio (regular form) or difference vs log (log form) compared with >= against one fresh uniform draw")
    chk.assume("get_random01() returns values in [0,1], so (size_t)(r*N) lies in [0,N]")

    sinks = index_params(db)
    if "TasDREAM::TasmanianDREAM::getIJKdelta" not in sinks or len(sinks["TasDREAM::TasmanianDREAM::getIJKdelta"]) < 3:
        raise AnalysisBroken("could not derive index parameters of TasmanianDREAM::getIJKdelta: %r" % sinks)

    cores = [f for f in db.fns("TasDREAM::SampleDREAM", ["DREAM/tsgDreamSample.hpp"]) if any(True for _ in f.calls("TasDREAM::TasmanianDREAM::getIJKdelta"))]
    chk.floor("C15-D1.index", len(cores), 2, "instantiations of the SampleDREAM core (regform, logform)")
    n_index = 0
    for fn in cores:
        chk.saw(fn)
        fname = fn.key
        ub = UpperBounds(fn)
        # the bound variable: local initialised from state.getNumChains(), never written again
        nc = None
        for n in fn.walk():
            if n.get("k") == "VarDecl" and any(callee(x) == STATE + "::getNumChains" for x in walk(n)):
                nc = n
        if nc is None:
            raise AnalysisBroken("no local initialised from getNumChains() in " + fname)
        wr = writes_to_var(fn, nc["did"])
        chk.ob("C15-D1.index", fname, "bound %s is never modified" % nc["name"], not wr, fn.loc(nc),
               "written at line(s) %s" % [w.get("l") for w in wr] if wr else "")
        bound = nc["name"]

        # D1.nonzero
        loops = [n for n in walk(fn.body, into_lambda=False) if n.get("k") == "ForStmt"]
        outer = loops[0] if loops else None
        guard_ok = False
        if outer is not None:
            for cn, truth in cond_edges_dominating(fn, outer):
                t = txt(strip(cn))
                if (t in ("%s == 0" % bound, "0 == %s" % bound) and truth is False) or (t in ("%s != 0" % bound, "%s > 0" % bound) and truth is True):
                    guard_ok = True
        chk.ob("C15-D1.nonzero", fname, "%s == 0 returns before sampling" % bound, guard_ok, fn.loc(outer or fn.body))

        # D1.index: accessor calls
        for call in fn.calls(into_lambda=False):
            cal = callee(call)
            if cal in sinks:
                args = call_args(call)
                for pi in sorted(sinks[cal]):
                    a = strip(args[pi])
                    v = var_of(a)
                    st = ub.before(call)
                    dead = not is_reachable(fn, call)
                    ok = dead or (v is not None and st is not None and (v, bound) in st)
                    n_index += 1
                    chk.ob("C15-D1.index", fname, "%s arg%d=%s" % (cal.rsplit("::", 1)[-1], pi, txt(a)) + ("#%d" % sum(1 for o in chk.obls if o["function"] == fname and o["construct"].startswith("%s arg%d=%s" % (cal.rsplit("::", 1)[-1], pi, txt(a))))),
                           ok, fn.loc(call), "no fact '%s < %s' reaches this call on every path" % (txt(a), bound) if not ok else ("dead code in this instantiation" if dead else "fact %s < %s holds" % (txt(a), bound)),
                           "%s < %s on all paths" % (txt(a), bound))
        # D1.local: subscripts of local vectors sized by the bound
        sized = {}
        for n in fn.walk(into_lambda=False):
            if n.get("k") == "VarDecl" and n.get("c"):
                init = strip(n["c"][0])
                if init.get("k") == "CXXConstructExpr" and init.get("ctor", "").startswith("std::vector") and init.get("c"):
                    first = txt(strip(init["c"][0]))
                    if first == bound:
                        sized[n["did"]] = n["name"]
        nloc = 0
        for n in fn.walk(into_lambda=False):
            if n.get("k") == "CXXOperatorCallExpr" and n.get("op") == "[]":
                b = var_of(n["c"][1])
                if b in sized:
                    v = var_of(n["c"][2])
                    st = ub.before(n)
                    ok = v is not None and st is not None and (v, bound) in st
                    nloc += 1
                    chk.ob("C15-D1.local", fname, "%s@%d" % (txt(n), nloc), ok, fn.loc(n), "" if ok else "index not proven < %s" % bound)
        chk.floor("C15-D1.local", nloc, 4, "subscripts of vectors sized num_chains")

        # ---------------- D2
        params = {p["name"]: p["did"] for p in fn.params()}
        pdf, inside = params.get("probability_distribution"), params.get("inside")
        if pdf is None or inside is None:
            raise AnalysisBroken("SampleDREAM parameters probability_distribution/inside not found")
        cand = None
        ncalls = 0
        for call in fn.walk(into_lambda=False):
            if call.get("k") == "CXXOperatorCallExpr" and call.get("op") == "()" and var_of(call["c"][1]) == pdf:
                ncalls += 1
                a0 = call["c"][2]
                cand = var_of(a0)
                vals = var_of(call["c"][3]) if len(call["c"]) > 3 else None
                chk.ob("C15-D2.pdf", fname, "pdf called on a local buffer", cand is not None and vals is not None, fn.loc(call), txt(call))
        chk.ob("C15-D2.pdf", fname, "exactly one pdf evaluation per iteration", ncalls == 1, fn.where, "found %d" % ncalls)
        if cand is None:
            raise AnalysisBroken("no call of the probability function found")
        # every mutation of the candidate buffer
        ins_blocks = []
        for n in fn.walk(into_lambda=False):
            if n.get("k") in ("DeclStmt",):
                continue
            for did, kind, rhs in element_writes(n):
                if did != cand or kind == "decl":
                    continue
                cal = callee(n) or ""
                if cal.endswith("::reserve"):
                    continue
                edges = cond_edges_dominating(fn, n)
                guard = None
                for cn, truth in edges:
                    s = strip(cn)
                    if s.get("k") == "CXXOperatorCallExpr" and s.get("op") == "()" and var_of(s["c"][1]) == inside:
                        guard = (s, truth)
                ok = False
                detail = "mutation of the candidate buffer not under inside(...)"
                if guard is not None and guard[1] is True and cal.endswith("::insert"):
                    prop = var_of(guard[0]["c"][2])
                    srcs = {base_var(a) for a in call_args(n)[1:]}
                    ok = prop is not None and srcs == {prop}
                    detail = "inserted range comes from %s, tested proposal is %s" % (sorted(x for x in srcs if x), txt(guard[0]["c"][2]))
                    ins_blocks.append((n, guard))
                chk.ob("C15-D2.pdf", fname, "candidate append: %s" % txt(n)[:60], ok, fn.loc(n), detail)
        chk.floor("C15-D2.pdf", len(ins_blocks), 1, "guarded candidate appends")
        # valid[] writes
        valid = [did for did, nm in sized.items() if True and any(
            x.get("k") == "VarDecl" and x.get("did") == did and "bool" in x.get("t", "") for x in fn.walk(into_lambda=False))]
        nvw = 0
        for n in fn.walk(into_lambda=False):
            if n.get("k") == "CXXOperatorCallExpr" and n.get("op") == "=" and n["c"]:
                lhs = strip(n["c"][1])
                if lhs.get("k") == "CXXOperatorCallExpr" and lhs.get("op") == "[]" and var_of(lhs["c"][1]) in valid:
                    nvw += 1
                    edges = cond_edges_dominating(fn, n)
                    ok = any(strip(cn).get("k") == "CXXOperatorCallExpr" and var_of(strip(cn)["c"][1]) == inside and truth is False for cn, truth in edges)
                    ok = ok and txt(strip(n["c"][2])) == "false"
                    chk.ob("C15-D2.pdf", fname, "invalid flag write %s" % txt(n), ok, fn.loc(n), "must be '= false' on the false edge of inside(...)")
        chk.floor("C15-D2.pdf", nvw, 1, "writes of the validity flag")
        # cursor advances
        cursors = []
        for n in fn.walk(into_lambda=False):
            if n.get("k") == "VarDecl" and n.get("c"):
                i = strip(n["c"][0])
                if i.get("k") == "CXXMemberCallExpr" and (callee(i) or "").endswith("::begin"):
                    cursors.append(n)
        ncur = 0
        for cur in cursors:
            for w in writes_to_var(fn, cur["did"]):
                ncur += 1
                edges = cond_edges_dominating(fn, w)
                vnames = tuple(sized[v] + "[" for v in valid)
                ok = any(truth is True and txt(strip(cn)).startswith(vnames) for cn, truth in edges)
                chk.ob("C15-D2.pdf", fname, "cursor %s advances only for valid proposals" % cur["name"], ok, fn.loc(w), txt(w))
        chk.floor("C15-D2.pdf", ncur, 2, "cursor advances")

        # ---------------- D3
        saves = list(fn.calls(STATE + "::saveStateHistory", into_lambda=False))
        chk.ob("C15-D3.books", fname, "one saveStateHistory call", len(saves) == 1, fn.where, "found %d" % len(saves))
        for s in saves:
            edges = cond_edges_dominating(fn, s)
            tvar = None
            if outer is not None and outer.get("init"):
                for x in walk(outer["init"]):
                    if x.get("k") == "VarDecl":
                        tvar = x["name"]
            import sympy as _sp
            T_, NB_ = _sp.Symbol("t_iter", integer=True), _sp.Symbol("num_burnup", integer=True)

            def res_t(n, tvar=tvar):
                if n.get("k") == "DeclRefExpr" and n.get("var") == tvar:
                    return T_
                if n.get("k") == "DeclRefExpr" and n.get("var") == "num_burnup":
                    return NB_
                return None
            ok, ok2 = False, False
            for cn, truth in edges:
                iq = ineq_on_edge(cn, truth, res_t)
                # on the edge taken: t - num_burnup >= 0
                if iq is not None and _sp.simplify(iq[0] - (T_ - NB_)) == 0 and not iq[1]:
                    ok = True
            chk.ob("C15-D3.books", fname, "saveStateHistory under t >= num_burnup", ok or ok2, fn.loc(s),
                   "dominating edges: %s" % [(txt(c), t) for c, t in edges])
            # inside the outer loop only (not in the chain loops)
            depth = sum(1 for a in fn.ancestors(s) if a.get("k") in ("ForStmt", "WhileStmt", "DoStmt"))
            chk.ob("C15-D3.books", fname, "saveStateHistory once per iteration (loop depth 1)", depth == 1, fn.loc(s), "loop depth %d" % depth)
            # ... and in every iteration: no continue / break / early return leaves the body before the snapshot test was evaluated
            if outer is not None:
                from tsg.typestate import must_pass_each_iteration
                encl = next((a for a in fn.ancestors(s) if a.get("k") == "IfStmt" and a.get("cond") is not None), None)
                guard_nodes = ([encl["cond"]] + list(walk(encl["cond"]))) if encl is not None else []
                every = must_pass_each_iteration(fn, outer, lambda n_: any(x is n_ for x in guard_nodes) or n_ is s)
                chk.ob("C15-D3.books", fname, "every iteration reaches the snapshot test", bool(every), fn.loc(s),
                       "" if every else "a path leaves the body of the sampling loop (continue / break / return) before `t >= num_burnup` is tested: that iteration is not recorded")
        # loop bound = max(burnup,0)+max(collect,0)
        if outer is not None:
            ct = txt(strip(outer.get("cond")))
            tot = None
            oc = strip(outer.get("cond"))
            bdid = var_of(oc["c"][1]) if oc.get("k") == "BinaryOperator" and oc.get("op") == "<" else None
            bd = local_decl(fn, bdid) if bdid else None
            if bd is not None and bd.get("c") and not writes_to_var(fn, bdid):
                tot = txt(strip(bd["c"][0]))
            ok = tot is not None and "max(num_burnup, 0)" in tot and "max(num_collect, 0)" in tot and "+" in tot
            chk.ob("C15-D3.books", fname, "iteration count = max(burnup,0)+max(collect,0)", ok, fn.loc(outer), "loop: %s, total=%s" % (ct, tot))
        # commit pair
        ss = list(fn.calls(STATE + "::setState", into_lambda=False))
        sp = [c for c in fn.calls(STATE + "::setPDFvalues", into_lambda=False) if var_of(call_args(c)[0]) is not None and var_of(call_args(c)[0]) != pdf]
        ok = len(ss) == 1 and len(sp) == 1
        nv = ns = None
        if ok:
            ns, nv = var_of(call_args(ss[0])[0]), var_of(call_args(sp[0])[0])
            ok = fn.cfg.block_of(ss[0])[0] == fn.cfg.block_of(sp[0])[0] and ns is not None and nv is not None
        chk.ob("C15-D3.books", fname, "setState/setPDFvalues committed together", ok, fn.where)
        # accept/reject copies
        keep_ifs = [n for n in walk(fn.body, into_lambda=False) if n.get("k") == "IfStmt" and var_of(n.get("cond")) is not None
                    and (local_decl(fn, var_of(n["cond"])) or {}).get("t") == "bool"]
        found = False
        for iff in keep_ifs:
            th, el = iff.get("then"), iff.get("else")
            if th is None or el is None:
                continue
            th_txt = [txt(x) for x in walk(th) if x.get("k") in ("CallExpr", "CXXMemberCallExpr", "CXXOperatorCallExpr", "BinaryOperator")]
            el_txt = [txt(x) for x in walk(el) if x.get("k") in ("CallExpr", "CXXMemberCallExpr", "CXXOperatorCallExpr", "BinaryOperator")]
            nvn = local_decl(fn, nv)["name"] if nv else "?"
            nsn = local_decl(fn, ns)["name"] if ns else "?"
            # loop variable of the enclosing chain loop
            lv = None
            for a in fn.ancestors(iff):
                if a.get("k") == "ForStmt" and a.get("init"):
                    for x in walk(a["init"]):
                        if x.get("k") == "VarDecl":
                            lv = x["name"]
                    break
            acc = ("%s[%s] = *%s" % (nvn, lv, "ival") in th_txt) and any(t.startswith("copy_n(icand, num_dimensions, %s.begin() + %s * num_dimensions" % (nsn, lv)) for t in th_txt)
            rej = ("%s[%s] = state.getPDFvalue(%s)" % (nvn, lv, lv) in el_txt) and any(
                t.startswith("state.getChainState(") and "%s.begin() + %s * num_dimensions" % (nsn, lv) in t and t.startswith("state.getChainState((int)%s," % lv) or t.startswith("state.getChainState(%s," % lv) for t in el_txt)
            found = True
            chk.ob("C15-D3.books", fname, "accept edge stores candidate and its value at slot i", acc, fn.loc(th), "; ".join(th_txt)[:300])
            chk.ob("C15-D3.books", fname, "reject edge keeps chain state and cached pdf at slot i", rej, fn.loc(el), "; ".join(el_txt)[:300])
            # acceptance law shape
            kv = var_of(iff["cond"])
            assigns = [(n, txt(strip(n["c"][1]))) for n in walk(fn.body, into_lambda=False)
                       if n.get("k") == "BinaryOperator" and n.get("op") == "=" and var_of(n["c"][0]) == kv]
            decl = local_decl(fn, kv)
            init_ok = decl is not None and decl.get("c") and txt(strip(decl["c"][0])).startswith(tuple(sized[v] for v in valid))
            chk.ob("C15-D3.accept", fname, "keep_new starts as valid[i]", bool(init_ok), fn.loc(decl), txt(decl))
            form = fn.d.get("targs", "")
            texts = [t for _, t in assigns]
            import sympy as _sp
            NEW_, OLD_, U_ = _sp.Symbol("p_new", positive=True), _sp.Symbol("p_old", positive=True), _sp.Symbol("u01", positive=True)

            def res_p(n, lv=lv):
                t_ = txt(n)
                if n.get("k") in ("UnaryOperator", "CXXOperatorCallExpr") and n.get("op") == "*" and t_ == "*ival":
                    return NEW_
                if n.get("k") == "CXXMemberCallExpr" and (callee(n) or "").endswith("::getPDFvalue") and txt(strip(call_args(n)[0])) in (lv, "(int)%s" % lv):
                    return OLD_
                if n.get("k") == "CXXOperatorCallExpr" and n.get("op") == "()" and t_.startswith("get_random01"):
                    return U_
                return None
            laws = [ineq_on_edge(strip(n["c"][1]), True, res_p) for n, t in assigns]
            laws = [l_ for l_ in laws if l_ is not None]
            ok_reg = any(_sp.simplify(e - (NEW_ / OLD_ - U_)) == 0 and not st for e, st in laws)
            ok_log = any(_sp.simplify(e - (NEW_ - OLD_ - _sp.log(U_))) == 0 and not st for e, st in laws)
            chk.ob("C15-D3.accept", fname, "regular form: ratio >= uniform draw", ok_reg, fn.loc(iff), str(texts))
            chk.ob("C15-D3.accept", fname, "log form: difference >= log(uniform draw)", ok_log, fn.loc(iff), str(texts))
            # automatic accept only on strictly greater
            auto = [(n, t) for n, t in assigns if t == "true"]
            oka = False
            for n, t in auto:
                for cn, truth in cond_edges_dominating(fn, n):
                    iq = ineq_on_edge(cn, truth, res_p)
                    if iq is not None and _sp.simplify(iq[0] - (NEW_ - OLD_)) == 0 and iq[1]:
                        oka = True
            chk.ob("C15-D3.accept", fname, "automatic accept only when new value is strictly larger", oka, fn.loc(iff), str(texts))
            # the random tests happen only for valid proposals
            okv = True
            for n, t in assigns:
                if not is_reachable(fn, n):
                    continue
                ed = [(txt(strip(cn)), truth) for cn, truth in cond_edges_dominating(fn, n)]
                if not any(truth and s.startswith(tuple(sized[v] for v in valid)) for s, truth in ed):
                    okv = False
            chk.ob("C15-D3.accept", fname, "acceptance tests run only under valid[i]", okv, fn.loc(iff))
        if not found:
            raise AnalysisBroken("accept/reject if-statement not found in " + fname)
    chk.floor("C15-D1.index", n_index, 2 * 7, "chain-index arguments of TasmanianDREAM accessors")


    # ---------------- D4: cached pdf values are a function of the chain state
    # frozen table (confirmed by reading): SampleDREAM evaluates the pdf only when !isPDFReady(), so
    # (pdf_values, init_values) is a cache of pdf(state); init_state guards state.
    chk.rule("C15-D4.cache", "TasmanianDREAM: every method that modifies the chain state decides the validity flag of the cached pdf values on all paths after the write "
                             "(init_values = false, or new values stored with init_values = true); init_values = true only after pdf_values was written")
    DATA, CACHE, FLAG = STATE + "::state", STATE + "::pdf_values", STATE + "::init_values"
    nd4 = 0
    for fn in db.all_functions(["DREAM/tsgDreamState.hpp", "DREAM/tsgDreamState.cpp"]):
        if fn.cls != STATE or fn.d.get("const") or fn.d.get("isctor") or fn.d.get("isdtor"):
            continue
        ws = list(member_writes(fn))
        dws = [n for n, f, kd in ws if f == DATA]
        fws = [(n, f) for n, f, kd in ws if f == FLAG]
        if dws:
            chk.saw(fn)
            nd4 += 1
            last = dws[-1]
            ok = all(must_pass_after(fn, w, lambda n: any(x is n for x, _ in fws)) for w in dws)
            chk.ob("C15-D4.cache", fn.key + fn.sig, "state written => init_values decided", ok, fn.loc(last),
                   "" if ok else "a path leaves %s after modifying the chain state without touching init_values: stale pdf values stay 'ready'" % fn.name.rsplit("::", 1)[-1])
        for n, f in fws:
            rhs = strip(n["c"][1]) if n.get("k") == "BinaryOperator" else None
            if rhs is not None and txt(rhs) == "true":
                chk.saw(fn)
                nd4 += 1
                from tsg.typestate import must_pass_before
                ok = must_pass_before(fn, n, lambda x: any(y is x and ff == CACHE for y, ff, _ in ws))
                chk.ob("C15-D4.cache", fn.key + fn.sig, "init_values = true only after pdf_values written", bool(ok), fn.loc(n))
    chk.floor("C15-D4.cache", nd4, 4, "state writers / flag setters in TasmanianDREAM")
    # the sampler commits state and values as a pair (checked in D3.books) and refreshes a non-ready cache
    for fn in cores:
        ready = [c for c in fn.calls(STATE + "::isPDFReady", into_lambda=False)]
        oks = False
        for c in ready:
            for sp in fn.calls(STATE + "::setPDFvalues", into_lambda=False):
                if carrier(call_args(sp)[0]) == ("var", {p["name"]: p["did"] for p in fn.params()}.get("probability_distribution")):
                    ed = [(txt(strip(cn)), tr) for cn, tr in cond_edges_dominating(fn, sp)]
                    if ("!state.isPDFReady()", True) in ed or ("state.isPDFReady()", False) in ed:
                        oks = True
        chk.ob("C15-D4.cache", fn.key, "sampler recomputes pdf values when the cache is not ready", oks, fn.where)

    # form selection: the regform instantiation must take the ratio branch, logform the log branch
    chk.rule("C15-D3.form", "the constant test selecting ratio vs log form compares the template argument with regform, ratio in the true branch")
    enumv = {v["name"]: int(v["val"]) for v in db.enum("TasDREAM::TypeSamplingForm")["values"]}
    for fn in cores:
        me = enumv.get(fn.d.get("targs", "").rsplit("::", 1)[-1])
        for n in walk(fn.body, into_lambda=False):
            if n.get("k") != "IfStmt" or n.get("else") is None:
                continue
            cd = strip(n["cond"])
            if cd.get("k") != "BinaryOperator" or cd.get("op") != "==" or const_val(cd) is None:
                continue
            th = " ".join(txt(x) for x in walk(n["then"]) if x.get("k") == "BinaryOperator" and x.get("op") == "=")
            el = " ".join(txt(x) for x in walk(n["else"]) if x.get("k") == "BinaryOperator" and x.get("op") == "=")
            if "get_random01()" not in th + el:
                continue
            lhs, rhs = const_val(cd["c"][0]), const_val(cd["c"][1])
            ok = (me in (lhs, rhs)) and (enumv["regform"] in (lhs, rhs)) and "/" in th and "log(" in el and "log(" not in th
            chk.ob("C15-D3.form", fn.key, "form == regform selects ratio, else log", ok, fn.loc(n),
                   "instantiation %s: cond %s ; then: %s | else: %s" % (fn.d.get("targs"), txt(cd), th, el))
    nform = sum(1 for o in chk.obls if o["rule"] == "C15-D3.form")
    chk.floor("C15-D3.form", nform, 2, "form selection sites")

    # the state accessors themselves: offsets are index * num_dimensions with extent num_dimensions
    chk.rule("C15-D1.extent", "TasmanianDREAM accessors address chain i at state.begin() + i*num_dimensions and copy num_dimensions entries")
    nacc = 0
    for fn in db.all_functions(["DREAM/tsgDreamState.hpp", "DREAM/tsgDreamState.cpp"]):
        if fn.name in (STATE + "::getIJKdelta", STATE + "::getChainState") and fn.params() and fn.params()[0]["t"] in ("size_t", "int"):
            chk.saw(fn)
            for n in fn.walk():
                if n.get("k") == "CXXOperatorCallExpr" and n.get("op") == "+" and txt(strip(n["c"][1])) == "state.begin()":
                    nacc += 1
                    off = txt(strip(n["c"][2]))
                    ok = off.endswith("* num_dimensions") and off.split(" ")[0] in [p["name"] for p in fn.params()]
                    chk.ob("C15-D1.extent", fn.key + fn.sig, "offset " + off, ok, fn.loc(n))
            for c in fn.calls("std::copy_n"):
                a = call_args(c)
                chk.ob("C15-D1.extent", fn.key + fn.sig, "copy extent " + txt(a[1]), txt(strip(a[1])) == "num_dimensions", fn.loc(c))
    chk.floor("C15-D1.extent", nacc, 4, "chain offsets")

    # ------------------------------------------------------------------ D5 dispatch of the C entry point
    chk.rule("C15-D5.dispatch", "the C entry point instantiates the sampler for the form it was asked for: every SampleDREAM<F> call in tsgDreamSample lies on the true edge of "
                                "`intToForm(form) == regform` exactly when F is regform")
    nd5 = 0
    for f in db.fns("tsgDreamSample", required=False) + db.fns("TasDREAM::tsgDreamSample", required=False):
        for c in f.calls(into_lambda=False):
            cal = callee(c) or ""
            if not cal.endswith("SampleDREAM"):
                continue
            targ = (c.get("targs") or (callee_node(c) or {}).get("targs") or "")
            form = "regform" if "regform" in targ.split(",")[0] else "logform" if "logform" in targ.split(",")[0] else None
            if form is None:
                continue
            nd5 += 1
            chk.saw(f)
            edges = [(txt(strip(e)), tr) for e, tr in cond_edges_dominating(f, c)]
            sel = [(t, tr) for t, tr in edges if "regform" in t and "==" in t]
            ok = bool(sel) and all((form == "regform") == tr for t, tr in sel)
            chk.ob("C15-D5.dispatch", f.key, "SampleDREAM<%s> @%d" % (form, c.get("l", 0)), ok, f.loc(c), "selected under %s" % sel, "regform on the true edge, logform on the false edge")
    chk.floor("C15-D5.dispatch", nd5, 4, "SampleDREAM instantiations in the C entry point")

    # ------------------------------------------------------------------ D6 the sampling form is forwarded unchanged
    chk.rule("C15-D6.forward", "inside an instantiation for sampling form F every call to another template instantiated over the sampling form uses the same F "
                               "(an overload that forwards to the core sampler without the template argument silently selects the default, the regular form)")
    db.load_all()
    nd6 = 0
    FORMS = ("regform", "logform")

    def form_of(targs):
        first = (targs or "").split(",")[0].rsplit("::", 1)[-1]
        return first if first in FORMS else None
    for fns in db._byname.values():
        for f in fns:
            F = form_of(f.d.get("targs"))
            if F is None:
                continue
            for c in f.calls():
                g = db.resolve(c)
                G = form_of(g.d.get("targs")) if g is not None else form_of((c.get("targs") or (callee_node(c) or {}).get("targs")))
                if G is None or not is_reachable(f, c):
                    continue
                nd6 += 1
                chk.saw(f)
                chk.ob("C15-D6.forward", f.key + "<" + F + ">", "call of %s<%s> @%d" % ((callee(c) or "").rsplit("::", 1)[-1], G, c.get("l", 0)), G == F, f.loc(c),
                       "" if G == F else "the caller was instantiated for %s but continues with %s: acceptance is decided with the rule of the other form" % (F, G),
                       "the caller's own form")
    chk.floor("C15-D6.forward", nd6, 6, "forwarding calls between instantiations over the sampling form")

    return ("Static rule discharge over both instantiations of SampleDREAM<form> and the TasmanianDREAM accessors. "
            "D1: forward dataflow of upper-bound facts (v < num_chains) over the clang CFG with edge refinement; sinks are the "
            "index parameters of TasmanianDREAM methods, derived from the accessor bodies, plus subscripts of local vectors sized num_chains. "
            "D2/D3: dominance-by-branch-edge checks that tie the pdf call, candidate appends, validity flags, cursor advances, history "
            "append and accept/reject copies to their guards. Not decided: the acceptance probability law as a distribution, "
            "equality of split runs (needs the random stream).")
