"""C20  ParticleSwarm only evaluates inside the domain and tracks the true best."""
from tsg.facts import DB, strip, txt, callee, call_args, call_object, walk, const_val, short
from tsg.flow import var_of, base_var, cond_edges_dominating, element_writes
from tsg.typestate import member_writes, must_pass_after
from tsg.omp import omp_nodes
from tsg.build import AnalysisBroken

CPP = "DREAM/Optimization/tsgParticleSwarm.cpp"
HPP = "DREAM/Optimization/tsgParticleSwarm.hpp"
STATE = "TasOptimization::ParticleSwarmState"


def flag_false(e):
    """text of the boolean expression F when e says 'F is false' (!F, F == false, false == F, F != true); None otherwise"""
    e = strip(e)
    if e is None:
        return None
    if e.get("k") in ("UnaryOperator", "CXXOperatorCallExpr") and e.get("op") == "!":
        return txt(strip([c for c in e["c"] if isinstance(c, dict)][-1]))
    if e.get("k") == "BinaryOperator" and e.get("op") in ("==", "!="):
        a, b = strip(e["c"][0]), strip(e["c"][1])
        for x, y in ((a, b), (b, a)):
            if y is not None and y.get("k") == "CXXBoolLiteralExpr":
                lit = (y.get("val") == "true")
                if (e["op"] == "==" and not lit) or (e["op"] == "!=" and lit):
                    return txt(x)
    return None



def run(chk):
    db = DB("serial")
    db.load_all()
    chk.rule("C20-D1.domain", "the objective is invoked only on the buffer that is appended to on the true edge of inside(candidate) with that same candidate; out-of-domain entries never reach it")
    chk.rule("C20-D2.best", "every write to a best-known position / its cached value / its flag is guarded by the particle being inside AND (no best yet OR strictly smaller value), "
                            "compares the value it stores, and writes position, value and flag together; the swarm best is updated under the same form against the particle best")
    chk.rule("C20-D3.cache", "every public mutator of the best-known positions leaves the cached best values consistent: it invalidates the cache (cache_initialized = false) or clears the cached best flags; "
                             "every public mutator of the particle positions invalidates the cache; when the cache is rebuilt only best strips that were set are evaluated")
    chk.rule("C20-D4.loop", "per iteration: the branch on 'swarm best exists' is re-evaluated inside the loop, positions are advanced once, the constrained objective is evaluated once and update() follows it")
    chk.rule("C20-D5.random", "random numbers are drawn before the parallel loops, one fixed count per particle and branch")

    ps = [f for f in db.fns("TasOptimization::ParticleSwarm", [CPP]) if not f.d.get("islambda")]
    if len(ps) != 1:
        raise AnalysisBroken("expected one ParticleSwarm definition")
    fn = ps[0]
    chk.saw(fn)
    lams = {}
    for f in db.all_functions([CPP]):
        if f.d.get("islambda") and f.key.startswith(fn.key + "::lambda@"):
            line = int(f.key.rsplit("@", 1)[1])
            for d in fn.locals().values():
                if d.get("c") and strip(d["c"][0]).get("k") == "LambdaExpr" and strip(d["c"][0]).get("l") == line:
                    lams[d["name"]] = (f, d)
    if "f_constrained" not in lams or "update" not in lams:
        raise AnalysisBroken("lambdas f_constrained / update not found: %s" % sorted(lams))
    fc, fcd = lams["f_constrained"]
    up, upd = lams["update"]
    chk.saw(fc)
    chk.saw(up)

    # ------------------------------------------------------------------ D1
    fparam = [p for p in fn.params() if p["name"] == "f"][0]["did"]
    iparam = [p for p in fn.params() if p["name"] == "inside"][0]["did"]
    calls_f = []
    for g in [fn, fc, up]:
        for c in walk(g.body, into_lambda=False):
            if c.get("k") == "CXXOperatorCallExpr" and c.get("op") == "()" and var_of(c["c"][1]) == fparam:
                calls_f.append((g, c))
    chk.ob("C20-D1.domain", fn.name, "objective invoked at exactly one site, inside f_constrained", len(calls_f) == 1 and calls_f[0][0] is fc, fn.where, "%d call site(s)" % len(calls_f))
    for g, c in calls_f:
        buf = var_of(c["c"][2])
        bname = txt(strip(c["c"][2]))
        # every write to the buffer
        nw = 0
        for n in walk(g.body, into_lambda=False):
            hits = [x for x in walk(n, into_lambda=False) if x is not n]
            if n.get("k") == "CallExpr" and callee(n) in ("std::copy_n", "std::copy") and any((callee(a) or "") == "std::back_inserter" and var_of(call_args(a)[0]) == buf for a in walk(n)):
                nw += 1
                edges = cond_edges_dominating(g, n)
                src = base_var(call_args(n)[0])
                okg = False
                detail = "append not guarded by the domain flag"
                for cn, tr in edges:
                    t = txt(strip(cn))
                    if tr and t.startswith("inside_batch["):
                        # the flag was assigned from inside(<source of the appended data>)
                        for a in walk(g.body, into_lambda=False):
                            if a.get("k") == "CXXOperatorCallExpr" and a.get("op") == "=" and txt(strip(a["c"][1])).startswith("inside_batch["):
                                # the flag may be a conjunction (mask && inside(candidate)): a true flag implies each conjunct
                                conj = [strip(a["c"][2])]
                                while any(x is not None and x.get("k") == "BinaryOperator" and x.get("op") == "&&" for x in conj):
                                    nxt = []
                                    for x in conj:
                                        if x is not None and x.get("k") == "BinaryOperator" and x.get("op") == "&&":
                                            nxt += [strip(x["c"][0]), strip(x["c"][1])]
                                        else:
                                            nxt.append(x)
                                    conj = nxt
                                for rhs in conj:
                                    if rhs is not None and rhs.get("k") == "CXXOperatorCallExpr" and rhs.get("op") == "()" and var_of(rhs["c"][1]) == iparam:
                                        tested = base_var(rhs["c"][2])
                                        okg = tested is not None and tested == src
                                        detail = "flag = %sinside(%s), appended data from %s" % ("... && " if len(conj) > 1 else "", txt(rhs["c"][2]), txt(call_args(n)[0])[:40])
                chk.ob("C20-D1.domain", fn.name, "append to %s only for in-domain candidates" % bname, okg, g.loc(n), detail)
        for n in walk(g.body, into_lambda=False):
            if n.get("k") == "CXXMemberCallExpr" and var_of(call_object(n)) == buf and (callee(n) or "").endswith(("::push_back", "::insert", "::resize", "::assign")):
                nw += 1
                chk.ob("C20-D1.domain", fn.name, "other mutation of %s" % bname, False, g.loc(n), txt(n)[:60])
        chk.floor("C20-D1.domain", nw, 1, "appends to the in-domain buffer")
        # results are mapped back only for in-domain entries
        rd = [x for x in walk(g.body, into_lambda=False) if x.get("k") == "ConditionalOperator" and "inside_vals" in txt(x)]
        okm = any(txt(strip(x["c"][0])).lstrip("(").startswith("inside_batch[") and "inside_vals" in txt(x["c"][1]) for x in rd)
        chk.ob("C20-D1.domain", fn.name, "objective values mapped back under the same flag", okm, g.where)
    # f_constrained is the only consumer of f: main body calls it with the state's position/value/flag triples
    triples = []
    for c in walk(fn.body, into_lambda=False):
        if c.get("k") == "CXXOperatorCallExpr" and c.get("op") == "()" and var_of(c["c"][1]) == fcd["did"]:
            triples.append(tuple(txt(strip(a)).replace("state.", "") for a in c["c"][2:5]))
    want = {("particle_positions", "cache_particle_fvals", "cache_particle_inside"), ("best_particle_positions", "cache_best_particle_fvals", "cache_best_particle_inside")}
    chk.ob("C20-D1.domain", fn.name, "constrained objective fills matching (positions, values, flags) triples", set(triples) <= want and len(triples) >= 3, fn.where, str(triples))

    # ------------------------------------------------------------------ D2
    groups = {}
    for n in walk(up.body):
        tgt = None
        val = None
        if n.get("k") == "CallExpr" and callee(n) == "std::copy_n":
            a = call_args(n)
            d = txt(strip(a[2]))
            if "best_particle_positions" in d:
                tgt = ("pos", d.split("+", 1)[1].strip() if "+" in d else "")
                val = txt(strip(a[0]))
        elif n.get("k") in ("BinaryOperator", "CXXOperatorCallExpr") and n.get("op") == "=":
            lhs = n["c"][0] if n.get("k") == "BinaryOperator" else n["c"][1]
            rhs = n["c"][1] if n.get("k") == "BinaryOperator" else n["c"][2]
            lt = txt(strip(lhs))
            if lt.startswith("state.cache_best_particle_fvals["):
                tgt = ("val", lt[len("state.cache_best_particle_fvals["):-1])
                val = txt(strip(rhs))
            elif lt.startswith("state.cache_best_particle_inside["):
                tgt = ("flag", lt[len("state.cache_best_particle_inside["):-1])
                val = txt(strip(rhs))
        if tgt is None:
            continue
        k = tgt[1].replace(" * num_dimensions", "")
        groups.setdefault(k, []).append((tgt[0], n, val))
    chk.floor("C20-D2.best", len(groups), 2, "best-known slots written by update() (particle, swarm)")
    for k, items in sorted(groups.items()):
        kinds = {x[0] for x in items}
        chk.ob("C20-D2.best", fn.name, "slot [%s]: position, value and flag written together" % k, kinds == {"pos", "val", "flag"}, up.loc(items[0][1]), str(sorted(kinds)))
        for kind, n, val in items:
            edges = [(strip(c), tr) for c, tr in cond_edges_dominating(up, n)]
            texts = [(txt(c), tr) for c, tr in edges]
            inside_ok = any(tr and t.startswith("state.cache_particle_inside[") for t, tr in texts)
            # the improving test: !best_inside[k] || value < best_value[k], with `value` the one stored
            stored = [v for kd, _, v in items if kd == "val"]
            imp_ok = False
            for c, tr in edges:
                if not tr or c.get("k") != "BinaryOperator" or c.get("op") != "||":
                    continue
                for a, b in ((strip(c["c"][0]), strip(c["c"][1])), (strip(c["c"][1]), strip(c["c"][0]))):
                    # a: 'no best yet' in any spelling (!flag[k], flag[k] == false); b: stored value strictly below the best value, operands in either order
                    fa = flag_false(a)
                    if fa is None or fa.replace(" ", "") != "state.cache_best_particle_inside[%s]" % k.replace(" ", ""):
                        continue
                    if b is None or b.get("k") != "BinaryOperator" or b.get("op") not in ("<", ">"):
                        continue
                    small, large = (b["c"][0], b["c"][1]) if b["op"] == "<" else (b["c"][1], b["c"][0])
                    if txt(strip(large)) == "state.cache_best_particle_fvals[%s]" % k and stored and txt(strip(small)) == stored[0]:
                        imp_ok = True
            chk.ob("C20-D2.best", fn.name, "slot [%s] %s write: particle inside the domain" % (k, kind), inside_ok, up.loc(n), str(texts)[:200])
            chk.ob("C20-D2.best", fn.name, "slot [%s] %s write: no best yet or strictly better (value compared = value stored)" % (k, kind), imp_ok, up.loc(n), str(texts)[:260])
    # update() follows every evaluation of the current positions
    # ------------------------------------------------------------------ D4
    loops = [l for l in walk(fn.body, into_lambda=False) if l.get("k") == "ForStmt" and "num_iterations" in txt(l.get("cond"))]
    chk.floor("C20-D4.loop", len(loops), 1, "main iteration loop")
    for l in loops:
        body = l["body"]
        sel = [i for i in body.get("c", []) if i.get("k") == "IfStmt"]

        def reads_swarm_flag(e, depth=0):
            """the expression reads the swarm-best flag (the member itself, or a local of the loop body initialised from it)"""
            for q in [e] + list(walk(e)):
                if q.get("k") == "MemberExpr" and short(q.get("field") or "") == "cache_best_particle_inside":
                    return True
                if q.get("k") == "DeclRefExpr" and depth < 2:
                    d = fn.locals().get(q.get("did"))
                    if d is not None and any(x is d for x in walk(body)) and d.get("c") and reads_swarm_flag(d["c"][0], depth + 1):
                        return True
            return False
        oks = bool(sel) and reads_swarm_flag(sel[0]["cond"])
        chk.ob("C20-D4.loop", fn.name, "social/cognitive branch re-evaluates 'swarm best exists' every iteration", oks, fn.loc(sel[0]) if sel else fn.loc(l),
               txt(sel[0]["cond"]) if sel else "no branch on the swarm-best flag inside the loop")
        evs = [c for c in walk(body, into_lambda=False) if c.get("k") == "CXXOperatorCallExpr" and c.get("op") == "()" and var_of(c["c"][1]) == fcd["did"]]
        ups = [c for c in walk(body, into_lambda=False) if c.get("k") == "CXXOperatorCallExpr" and c.get("op") == "()" and var_of(c["c"][1]) == upd["did"]]
        chk.ob("C20-D4.loop", fn.name, "one evaluation and one update per iteration, update after evaluation", len(evs) == 1 and len(ups) == 1 and evs[0].get("l", 0) < ups[0].get("l", 0), fn.loc(l))
        adv = [x for x in walk(body, into_lambda=False) if x.get("k") == "CompoundAssignOperator" and x.get("op") == "+=" and "particle_positions" in txt(x["c"][0]) and "particle_velocities" in txt(x["c"][1])]
        chk.ob("C20-D4.loop", fn.name, "positions advanced by the velocities once, before the evaluation", len(adv) == 1 and bool(evs) and adv[0].get("l", 0) < evs[0].get("l", 0), fn.loc(l))
    # the initial cache fill is guarded by !cache_initialized and sets it
    ci = [i for i in walk(fn.body, into_lambda=False) if i.get("k") == "IfStmt" and (flag_false(i["cond"]) or "").replace("state.", "") == "cache_initialized"]
    okc = bool(ci) and any(txt(x).replace("state.", "") == "cache_initialized = true" for x in walk(ci[0]["then"]))
    chk.ob("C20-D4.loop", fn.name, "cache filled exactly when not initialised", okc, fn.loc(ci[0]) if ci else fn.where)

    # ------------------------------------------------------------------ D6 the flag 'best positions known' is only raised after the bests were reconciled with the cache
    chk.rule("C20-D6.sync", "ParticleSwarm raises best_positions_initialized only after update() has run on every path from the entry of the call: a state whose bests were cleared "
                            "while the cache of the current positions was kept (clearBestParticles) adopts the cached in-domain positions before the flag says the bests are known")
    from tsg.typestate import must_pass_before
    nsync = 0
    for n in walk(fn.body, into_lambda=False):
        if n.get("k") == "BinaryOperator" and n.get("op") == "=" and txt(strip(n["c"][0])).replace("state.", "") == "best_positions_initialized" and txt(strip(n["c"][1])) == "true":
            nsync += 1
            okb = must_pass_before(fn, n, lambda q: q.get("k") == "CXXOperatorCallExpr" and q.get("op") == "()" and var_of(q["c"][1]) == upd["did"])
            chk.ob("C20-D6.sync", fn.name, "best_positions_initialized = true @%d is preceded by update() on every path" % n.get("l", 0), bool(okb), fn.loc(n),
                   "" if okb else "a path reaches the flag without update(): with a kept cache and cleared bests the flag is raised over zero-filled best strips")
    chk.floor("C20-D6.sync", nsync, 1, "writes raising best_positions_initialized in ParticleSwarm")

    # ------------------------------------------------------------------ D7 the cache flag is down while the user's callbacks run on new positions
    chk.rule("C20-D7.stale", "whenever the constrained objective (which calls the user's domain test and objective, and may throw) is evaluated on the current positions, cache_initialized is "
                             "known to be false on every path (must-analysis of the flag over the CFG), and it is raised again right after: a failed evaluation never leaves a cache that is "
                             "marked valid for positions that were not evaluated")
    from tsg.typestate import flag_known, must_pass_after

    def flag_is(x):
        kind, n = x
        if kind == "read":
            return txt(n).replace("state.", "") == "cache_initialized"
        if n.get("k") == "BinaryOperator" and n.get("op") == "=" and txt(strip(n["c"][0])).replace("state.", "") == "cache_initialized":
            v = txt(strip(n["c"][1]))
            return True if v == "true" else False if v == "false" else None
        return None
    evals = [c for c in walk(fn.body, into_lambda=False) if c.get("k") == "CXXOperatorCallExpr" and c.get("op") == "()" and var_of(c["c"][1]) == fcd["did"]
             and txt(strip(c["c"][2])).replace("state.", "") == "particle_positions"]
    known = flag_known(fn, flag_is, False, evals)
    for c in evals:
        chk.ob("C20-D7.stale", fn.name, "evaluation of the current positions @%d runs with cache_initialized == false" % c.get("l", 0), bool(known.get(c["id"])), fn.loc(c),
               "" if known.get(c["id"]) else "a path reaches the evaluation with the flag still raised: if the objective or the domain test throws, the state keeps moved positions and a cache marked valid")
        if not known.get(c["id"]):
            continue
        after = must_pass_after(fn, c, lambda q: flag_is(("write", q)) is True)
        chk.ob("C20-D7.stale", fn.name, "cache_initialized raised again after the evaluation @%d" % c.get("l", 0), bool(after), fn.loc(c))
    chk.floor("C20-D7.stale", len(evals), 2, "evaluations of the current positions")
    # the swarm best is reconciled with the personal bests when these are evaluated afresh
    bevals = [c for c in walk(fn.body, into_lambda=False) if c.get("k") == "CXXOperatorCallExpr" and c.get("op") == "()" and var_of(c["c"][1]) == fcd["did"]
              and txt(strip(c["c"][2])).replace("state.", "") == "best_particle_positions"]
    for c in bevals:
        def reconciles(q):
            # a write of the swarm-best flag / value guarded by a comparison of a personal best with the swarm best
            if q.get("k") == "BinaryOperator" and q.get("op") == "=" and txt(strip(q["c"][0])).replace("state.", "") == "cache_best_particle_fvals[num_particles]":
                return any("cache_best_particle_fvals[num_particles]" in txt(e) and "<" in txt(e) for e, tr in cond_edges_dominating(fn, q) if tr)
            return False
        # the reconciliation sits in a loop (possibly of zero iterations): require the loop on every path instead of the write itself
        loops_after = [l for l in walk(fn.body, into_lambda=False) if l.get("k") == "ForStmt" and any(reconciles(q) for q in walk(l, into_lambda=False))]
        okr = bool(loops_after) and bool(must_pass_after(fn, c, lambda q: any(q.get("id") == (strip(l.get("cond")) or {}).get("id") or q is l.get("cond") for l in loops_after)))
        chk.ob("C20-D2.best", fn.name, "after the personal bests are evaluated afresh @%d the swarm best becomes the minimum over them" % c.get("l", 0), okr, fn.loc(c),
               "" if okr else "best positions provided through setBestParticlePositions keep a swarm-best strip that is worse than a personal best (or outside the domain)")

    from rules import reentrant
    chk.rule("C20-D8.reentrant", "ParticleSwarm and its lambdas keep no working storage with static or thread storage duration: the result of a call depends on the state object, the "
                                 "arguments and the random stream only (n then m iterations equal n + m), also when a callback runs another swarm")
    nre = reentrant.reentrant_rule(chk, db, "C20-D8.reentrant", ("TasOptimization::ParticleSwarm",), [CPP, HPP])
    chk.floor("C20-D8.reentrant", nre, 3, "ParticleSwarm and its lambdas")

    # ------------------------------------------------------------------ D5 (OpenMP configuration)
    odb = DB("omp")
    ofn = [f for f in odb.fns("TasOptimization::ParticleSwarm", [CPP]) if not f.d.get("islambda")][0]
    rnd = [p["did"] for p in ofn.params() if "random" in p["name"]]
    nd = 0
    for c in ofn.walk():
        if c.get("k") == "CXXOperatorCallExpr" and c.get("op") == "()" and var_of(c["c"][1]) in rnd:
            nd += 1
            chk.ob("C20-D5.random", ofn.name, "draw @%d outside parallel regions" % c.get("l", 0), not [a for a in ofn.ancestors(c) if "omp" in a], ofn.loc(c))
    chk.floor("C20-D5.random", nd, 2, "random draws")

    # ------------------------------------------------------------------ D3 cache coherence of the state class
    nmut = 0
    for f in db.all_functions([HPP, CPP]):
        if f.cls != STATE or f.d.get("const") or f.d.get("isctor") or f.d.get("isdtor") or f.d.get("access") != "public":
            continue
        ws = list(member_writes(f))
        bw = [n for n, fld, kd in ws if short(fld) == "best_particle_positions"]
        if not bw:
            continue
        nmut += 1
        chk.saw(f)

        def decides(x, ws=ws):
            for n, fld, kd in ws:
                if n is x and short(fld) in ("cache_initialized", "cache_best_particle_inside"):
                    return True
            return False
        ok = all(must_pass_after(f, w, decides) or any(decides(x) for x in f.walk() if x.get("l", 0) <= w.get("l", 0) and x is not w) for w in bw)
        chk.ob("C20-D3.cache", f.name + f.sig, "best positions edited => cached best values invalidated", bool(ok), f.where,
               "" if ok else "the cached values/flags of the previous best positions stay valid: a never visited point can remain 'best' with a value that is not the objective there")
    chk.floor("C20-D3.cache", nmut, 4, "public mutators of best_particle_positions")
    # the same for the particle positions: their cached domain flags and objective values go stale with every edit made outside the algorithm
    npos = 0
    for f in db.all_functions([HPP, CPP]):
        if f.cls != STATE or f.d.get("const") or f.d.get("isctor") or f.d.get("isdtor") or f.d.get("access") != "public":
            continue
        ws = list(member_writes(f))
        pw = [n for n, fld, kd in ws if short(fld) == "particle_positions"]
        if not pw:
            continue
        npos += 1
        chk.saw(f)

        def invalidates(x, ws=ws):
            return any(n is x and short(fld) == "cache_initialized" for n, fld, kd in ws)
        ok = all(must_pass_after(f, w, invalidates) or any(invalidates(x) for x in f.walk() if x.get("l", 0) <= w.get("l", 0) and x is not w) for w in pw)
        if not ok:
            # delegation to an overload that does it
            ok = any(short(callee(c) or "") == short(f.name) for c in f.calls())
        chk.ob("C20-D3.cache", f.name + f.sig, "particle positions edited => cache invalidated", bool(ok), f.where,
               "" if ok else "cache_initialized stays true: the next run pairs the domain flags and objective values of the old positions with the new ones")
    chk.floor("C20-D3.cache", npos, 4, "public mutators of particle_positions")
    # the flag that admits all best strips to the objective at once is set only where all strips are known to be given: in the algorithm it is accompanied by a per-strip mask
    nmask = 0
    for c in [x for x in walk(fn.body, into_lambda=False) if x.get("k") == "CXXOperatorCallExpr" and x.get("op") == "()"]:
        args = [a for a in c.get("c", []) if isinstance(a, dict)][2:]
        if not args or "best_particle_positions" not in txt(args[0]):
            continue
        nmask += 1
        last = strip(args[-1]) if len(args) >= 4 else None
        masked = last is not None and last.get("k") not in ("CXXNullPtrLiteralExpr", "GNUNullExpr") and txt(last) not in ("nullptr", "0", "NULL")
        chk.ob("C20-D3.cache", fn.name, "re-evaluation of the best positions is restricted to the strips that were set", masked, fn.loc(c),
               "" if masked else "all N+1 best strips are handed to the constrained objective: a strip that was never set holds zeros and is adopted as a best position when the origin is inside the domain")
    chk.floor("C20-D3.cache", nmask, 1, "re-evaluations of the best positions")

    return ("Static rule discharge over ParticleSwarm(), its lambdas f_constrained/update and the ParticleSwarmState mutators: who-may-call for the objective with branch-edge dominance of the "
            "domain flag; guard form of every best-position write (inside AND (no best OR strictly smaller, value compared = value stored)); per-iteration structure; cache coherence of the "
            "state class as a must-pass-after rule; random draws outside OpenMP regions. Not decided: equality of split runs for a given random stream (needs the stream), value equality of caches.")
