"""C18  Parallel surrogate construction and loading: race-free, exactly-once, bounded (structural clauses)."""
import sympy
from tsg.sym import to_sympy, NotClosedForm
from tsg.facts import DB, strip, txt, callee, call_args, call_object, walk, const_val, short, children
from tsg.flow import var_of, base_var, cond_edges_dominating, is_reachable, element_writes
from tsg.typestate import member_writes, must_pass_after
from tsg.build import AnalysisBroken

CS = "Addons/tsgConstructSurrogate.hpp"
LN = "Addons/tsgLoadNeededValues.hpp"
CM = "Addons/tsgCandidateManager.hpp"
LOCK_TYPES = ("lock_guard", "unique_lock", "scoped_lock")


def live_lock(fn, node, mutex_names):
    """a RAII lock on one of the mutexes declared earlier in an enclosing compound statement"""
    prev = node
    for a in fn.ancestors(node):
        if a.get("k") == "CompoundStmt":
            for st in a.get("c", []):
                if st is prev or any(x is prev for x in walk(st)):
                    break
                if st.get("k") == "DeclStmt":
                    for d in st.get("c", []):
                        if any(t in d.get("t", "") for t in LOCK_TYPES) and any(txt(x) in mutex_names for x in walk(d) if x.get("k") == "DeclRefExpr"):
                            return d
        prev = a
    return None


def _enclosing_branch(fn, node):
    for a in fn.ancestors(node):
        if a.get("k") == "CompoundStmt":
            return a
    return node


def lambda_decls(db, fn):
    """local name -> (lambda Fn, VarDecl) for lambdas bound to local variables"""
    out = {}
    lams = {int(f.key.rsplit("@", 1)[1]): f for f in db.all_functions([fn.file]) if f.d.get("islambda") and f.key.startswith(fn.key + "::lambda@") and "::lambda@" not in f.key[len(fn.key) + 9:]}
    for d in fn.locals().values():
        if d.get("c") and strip(d["c"][0]) is not None and strip(d["c"][0]).get("k") == "LambdaExpr":
            l = lams.get(strip(d["c"][0]).get("l"))
            if l is not None:
                out[d["name"]] = (l, d)
    return out


def run(chk):
    db = DB("serial")
    db.load_all()
    chk.rule("C18-D1.lockset", "every access to the shared worker bookkeeping (work_flag, count_done / checked_out) happens while a RAII lock on its mutex is live: in the accessing scope, "
                               "in every caller of the accessing lambda, or inside a condition-variable predicate; the only exception is the write of a worker's own slot before its thread is created")
    chk.rule("C18-D2.condvar", "every condition_variable wait uses the predicate overload and every condition variable that is waited on is notified")
    chk.rule("C18-D3.budget", "every unsigned difference max_num_points - total_num_launched is dominated by the test total_num_launched < max_num_points; the launched count grows by the size of every batch handed out")
    chk.rule("C18-D4.handout", "CandidateManager: the running counter changes only together with the running list (++ with push_front in next(), -= k with k erasures in complete()); "
                               "status := running only where the job is also recorded")
    chk.rule("C18-D5.threads", "every std::thread that is started is joined on all paths; the model is invoked by workers only with their own slot (x[id], y[id], id)")

    # ------------------------------------------------------------------ constructCommon<true, *>
    par = [f for f in db.fns("TasGrid::constructCommon", [CS]) if f.d.get("targs", "").startswith("true")]
    chk.floor("C18-D1.lockset", len(par), 2, "parallel instantiations of constructCommon")
    nacc = 0
    for fn in par:
        chk.saw(fn)
        lams = lambda_decls(db, fn)
        guarded = {"work_flag", "count_done"}
        mutexes = {"access_count_done"}
        # which lambdas touch guarded data
        touch = {}
        for name, (l, d) in lams.items():
            acc = [x for x in walk(l.body, into_lambda=False) if x.get("k") == "DeclRefExpr" and x.get("var") in guarded]
            if acc:
                touch[name] = (l, d, acc)
        # accesses in the main body and in each lambda
        for owner_name, owner, accs in [("main", fn, [x for x in walk(fn.body, into_lambda=False) if x.get("k") == "DeclRefExpr" and x.get("var") in guarded])] + \
                [(n, l, a) for n, (l, d, a) in touch.items()]:
            for x in accs:
                if not is_reachable(owner, x):
                    continue
                par_decl = [a for a in owner.ancestors(x) if a.get("k") == "VarDecl" and a.get("name") in guarded]
                if par_decl:
                    continue          # the declaration itself
                nacc += 1
                lk = live_lock(owner, x, mutexes)
                ok = lk is not None
                why = "lock %s live" % lk["name"] if ok else ""
                if not ok and owner is not fn:
                    # every call site of this lambda is under the lock
                    did = lams[owner_name][1]["did"]
                    sites = []
                    for g in [fn] + [l for l, d in lams.values()]:
                        for c in walk(g.body, into_lambda=False):
                            if c.get("k") == "CXXOperatorCallExpr" and c.get("op") == "()" and var_of(c["c"][1]) == did:
                                sites.append((g, c))
                    if sites and all(live_lock(g, c, mutexes) is not None for g, c in sites):
                        ok, why = True, "lambda %s is only invoked with the lock held (%d site(s))" % (owner_name, len(sites))
                if not ok:
                    # predicate of a condition-variable wait (executed with the lock held)
                    # (predicates are nested lambdas: their accesses are reported for the nested lambda function, see below)
                    pass
                if not ok and owner is fn:
                    # own slot written before the thread for that slot is created in the same block
                    blk = None
                    for a in owner.ancestors(x):
                        if a.get("k") == "CompoundStmt":
                            blk = a
                            break
                    idx = None
                    for a in owner.ancestors(x):
                        if a.get("k") == "CXXOperatorCallExpr" and a.get("op") == "[]":
                            idx = txt(strip(a["c"][2]))
                            break
                    if idx is not None:
                        # the launch loop: slot [id] is written in the iteration that decides whether thread id is created;
                        # no thread for that slot exists yet (the creation, if any, follows the write)
                        for a in owner.ancestors(x):
                            if a.get("k") == "ForStmt":
                                creations = [c for c in walk(a.get("body")) if c.get("k") in ("CXXConstructExpr", "CXXTemporaryObjectExpr") and c.get("ctor") == "std::thread"
                                             and any(txt(strip(q)) == idx for q in c.get("c", [])[1:])]
                                lv = [d.get("name") for d in walk(a.get("init")) if d.get("k") == "VarDecl"] if a.get("init") else []
                                if creations and idx in lv and all(c.get("l", 0) >= x.get("l", 0) or not any(z is x for z in walk(_enclosing_branch(owner, c))) for c in creations):
                                    ok, why = True, "slot [%s] written in the launch loop before (or instead of) creating the thread that owns it" % idx
                                break
                chk.ob("C18-D1.lockset", fn.key, "%s: %s @%d" % (owner_name, x["var"], x.get("l", 0)), ok, owner.loc(x), why or "shared bookkeeping accessed without the mutex")
        # nested predicate lambdas (inside do_work / main loop): accesses are fine only as wait predicates
        for f in db.all_functions([CS]):
            if f.d.get("islambda") and f.key.startswith(fn.key + "::lambda@") and f.key.count("::lambda@") >= 2 or (f.d.get("islambda") and f.key.startswith(fn.key + "::lambda@") and False):
                accs = [x for x in walk(f.body, into_lambda=False) if x.get("k") == "DeclRefExpr" and x.get("var") in guarded]
                if not accs:
                    continue
                # find the LambdaExpr in the parent and check it is an argument of condition_variable::wait
                line = int(f.key.rsplit("@", 1)[1])
                is_pred = False
                for g in [fn] + [l for l, d in lams.values()]:
                    for c in g.calls("std::condition_variable::wait"):
                        if any(q.get("k") == "LambdaExpr" and q.get("l") == line for a in call_args(c) for q in walk(a)):
                            is_pred = True
                for x in accs:
                    nacc += 1
                    chk.ob("C18-D1.lockset", fn.key, "predicate@%d: %s" % (line, x["var"]), is_pred, f.loc(x), "wait predicate, evaluated with the lock held" if is_pred else "nested lambda accesses shared bookkeeping outside a wait predicate")
        # D2
        waits = []
        cvs = {}
        for g in [fn] + [l for l, d in lams.values()]:
            for c in g.calls():
                cal = callee(c) or ""
                if cal == "std::condition_variable::wait":
                    waits.append((g, c))
                    cvs.setdefault(txt(strip(call_object(c))), [0, 0])[0] += 1
                if cal in ("std::condition_variable::notify_one", "std::condition_variable::notify_all"):
                    cvs.setdefault(txt(strip(call_object(c))), [0, 0])[1] += 1
        for g, c in waits:
            chk.ob("C18-D2.condvar", fn.key, "%s.wait uses a predicate" % txt(strip(call_object(c))), len(call_args(c)) == 2, g.loc(c))
        for cv, (w, n) in cvs.items():
            chk.ob("C18-D2.condvar", fn.key, "%s is notified" % cv, n > 0 or w == 0, fn.where, "%d wait(s), %d notify call(s)" % (w, n))
        # notify after every state change that can satisfy a predicate: worker sets flag_done/count_done++ then notify_one; main notify_all after the locked block
        dw = lams.get("do_work")
        if dw is None:
            raise AnalysisBroken("do_work lambda not found")
        incs = [x for x in walk(dw[0].body, into_lambda=False) if x.get("k") == "UnaryOperator" and x.get("op") == "++" and "count_done" in txt(x)]
        for x in incs:
            ok = must_pass_after(dw[0], x, lambda n: (callee(n) or "").startswith("std::condition_variable::notify"))
            chk.ob("C18-D2.condvar", fn.key, "worker notifies after reporting done", bool(ok), dw[0].loc(x))
        # D5 (construct): threads joined, model called with own slot
        joins = [c for c in fn.calls("std::thread::join", into_lambda=False)]
        chk.ob("C18-D5.threads", fn.key, "worker threads are joined", bool(joins), fn.where)
        model = [p for p in fn.params() if p["name"] == "model"][0]["did"]
        mcalls = []
        for g in [fn] + [l for l, d in lams.values()]:
            for c in walk(g.body, into_lambda=False):
                if c.get("k") == "CXXOperatorCallExpr" and c.get("op") == "()" and var_of(c["c"][1]) == model and is_reachable(g, c):
                    mcalls.append((g, c))
        for g, c in mcalls:
            a = [txt(strip(q)) for q in c["c"][2:5]]
            ok = g is dw[0] and a == ["x[thread_id]", "y[thread_id]", "thread_id"]
            chk.ob("C18-D5.threads", fn.key, "model(%s)" % ", ".join(a), ok, g.loc(c), "called from %s" % ("do_work" if g is dw[0] else g.key.rsplit("::", 1)[-1]))

    # ------------------------------------------------------------------ D3 budget (all instantiations)
    nsub = 0
    for fn in db.fns("TasGrid::constructCommon", [CS]):
        lams = lambda_decls(db, fn)
        for g in [fn] + [l for l, d in lams.values()]:
            for n in walk(g.body, into_lambda=False):
                if n.get("k") == "BinaryOperator" and n.get("op") == "-" and txt(strip(n["c"][0])) == "max_num_points" and txt(strip(n["c"][1])) == "total_num_launched":
                    if not is_reachable(g, n):
                        continue
                    nsub += 1
                    edges = [(txt(strip(c)), tr) for c, tr in cond_edges_dominating(g, n)]
                    ok = ("total_num_launched < max_num_points", True) in edges or ("max_num_points > total_num_launched", True) in edges
                    where = "main" if g is fn else [k for k, v in lams.items() if v[0] is g][0]
                    if not ok and g is not fn:
                        # lambda: all call sites guarded
                        did = [v[1]["did"] for k, v in lams.items() if v[0] is g][0]
                        sites = []
                        for h in [fn] + [l for l, d in lams.values()]:
                            for c in walk(h.body, into_lambda=False):
                                if c.get("k") == "CXXOperatorCallExpr" and c.get("op") == "()" and var_of(c["c"][1]) == did and is_reachable(h, c):
                                    sites.append((h, c))
                        ok = bool(sites) and all(("total_num_launched < max_num_points", True) in [(txt(strip(c2)), tr) for c2, tr in cond_edges_dominating(h, c)] for h, c in sites)
                    chk.ob("C18-D3.budget", fn.name, "%s: max_num_points - total_num_launched @%d" % (where, n.get("l", 0)), ok, g.loc(n),
                           "" if ok else "unsigned difference not dominated by total_num_launched < max_num_points: a grid already holding more points than the budget wraps around and launches samples")
            # every non-empty batch increases the count
        # counts: each assignment x = next(...)/checkout_sample() is followed by total_num_launched += size on the non-empty edge
    chk.floor("C18-D3.budget", nsub, 8, "budget differences")

    # ------------------------------------------------------------------ D4 CandidateManager
    CMc = "TasGrid::CandidateManager"
    nw = 0
    for f in db.all_functions([CM]):
        if f.cls != CMc or f.d.get("isctor"):
            continue
        for n, fld, kind in member_writes(f):
            if short(fld) != "num_running":
                continue
            nw += 1
            chk.saw(f)
            ok = False
            why = "the running counter is changed without a matching change of the running list"
            if n.get("k") == "UnaryOperator" and n.get("op") == "++":
                blk = [a for a in f.ancestors(n) if a.get("k") == "CompoundStmt"][0]
                ok = any((callee(c) or "").endswith("::push_front") and "running_jobs" in txt(c) for c in walk(blk, into_lambda=False)
                         if not any(q.get("k") in ("WhileStmt", "ForStmt", "IfStmt") and any(z is c for z in walk(q)) and not any(z is n for z in walk(q)) for q in blk.get("c", [])))
                why = "++ together with running_jobs.push_front in the same block" if ok else why
            elif n.get("k") == "CompoundAssignOperator" and n.get("op") == "-=":
                k = txt(strip(n["c"][1]))
                er = [c for c in f.calls() if (callee(c) or "").endswith("::erase_after") and "running_jobs" in txt(c)]
                okl = False
                for c in er:
                    for a in f.ancestors(c):
                        if a.get("k") == "ForStmt" and k in txt(a.get("cond")):
                            okl = True
                ok = okl
                why = "-= %s with %s erasures from running_jobs" % (k, k) if ok else why
            chk.ob("C18-D4.handout", f.name, "num_running %s" % txt(n)[:40], ok, f.loc(n), why)
        # status := running only in next(), alongside the record
        for n in f.walk():
            if n.get("k") == "BinaryOperator" and n.get("op") == "=" and txt(strip(n["c"][1])) == "running" and "status[" in txt(n["c"][0]):
                nw += 1
                if f.name.endswith("::next"):
                    blk = [a for a in f.ancestors(n) if a.get("k") == "CompoundStmt"][0]
                    ok = any((callee(c) or "").endswith("::push_front") for c in walk(blk, into_lambda=False)) and any(x.get("k") == "UnaryOperator" and x.get("op") == "++" and "num_running" in txt(x) for x in walk(blk))
                    chk.ob("C18-D4.handout", f.name, "status := running @%d recorded and counted" % n.get("l", 0), ok, f.loc(n))
                else:
                    # re-marking after a candidate refresh: only for jobs taken from the running list
                    ok = any(a.get("k") == "CXXForRangeStmt" and "running_jobs" in txt(a.get("range")) for a in f.ancestors(n))
                    chk.ob("C18-D4.handout", f.name, "status := running @%d only for jobs of the running list" % n.get("l", 0), ok, f.loc(n))
    chk.floor("C18-D4.handout", nw, 6, "running-counter / status updates")

    # ------------------------------------------------------------------ loadNeededValues
    nl = 0
    for fn in db.fns("TasGrid::loadNeededValues", [LN]):
        if not fn.d.get("targs", "").startswith("true"):
            continue
        lam = [f for f in db.all_functions([LN]) if f.d.get("islambda") and f.key.startswith(fn.key + "::lambda@") and fn.line <= f.line <= fn.d.get("endline", 10 ** 9)]
        if not lam or not any(c.get("k") == "CXXMemberCallExpr" and (callee(c) or "").endswith("::emplace_back") and "workers" in txt(c) for c in fn.walk()):
            continue        # the vector overload only wraps the model and forwards
        chk.saw(fn)
        for l in lam:
            accs = [x for x in walk(l.body, into_lambda=False) if x.get("k") == "DeclRefExpr" and x.get("var") == "checked_out"]
            for x in accs:
                nl += 1
                lk = live_lock(l, x, {"checked_out_lock"})
                chk.ob("C18-D1.lockset", fn.key, "worker: checked_out @%d" % x.get("l", 0), lk is not None, l.loc(x),
                       "lock live" if lk is not None else "the work queue is read/claimed without checked_out_lock: two workers can claim the same sample")
            # model called with the claimed sample only
            for c in walk(l.body, into_lambda=False):
                if c.get("k") == "CXXOperatorCallExpr" and c.get("op") == "()" and txt(strip(c["c"][1])) == "model":
                    a = [txt(strip(q)) for q in c["c"][2:5]]
                    ok = a == ["xwrap.getStrip(sample)", "ywrap.getStrip(sample)", "thread_id"]
                    chk.ob("C18-D5.threads", fn.key, "model(%s)" % ", ".join(a), ok, l.loc(c))
        joins = [c for c in fn.calls("std::thread::join", into_lambda=False) if is_reachable(fn, c)]
        chk.ob("C18-D5.threads", fn.key, "worker threads are joined", bool(joins), fn.where)
    chk.floor("C18-D1.lockset", nacc + nl, 20, "accesses to shared worker bookkeeping")

    # ------------------------------------------------------------------ D6 (shared with C17-D8)
    chk.rule("C18-D6.flush", "no sample is handed out twice: every evaluation of the candidates callback is preceded by load_complete(), so finished samples that still sit in the "
                             "temporary store are in the grid (and excluded) before new candidates are computed (obligations of C17-D8)")
    from rules import c17
    from tsg.report import Check
    sub = Check("C17", chk.tier, chk.seed)
    c17.run(sub)
    chk.absorb(sub)
    n6 = 0
    for o in sub.obls:
        if o["rule"] == "C17-D8.flush":
            n6 += 1
            chk.ob("C18-D6.flush", o["function"], o["construct"], o["ok"], o["where"], o["detail"], o["expected"])
    chk.floor("C18-D6.flush", n6, 4, "evaluations of the candidates callback")

    # ------------------------------------------------------------------ D7 the output buffer of a job has exactly the size of the job
    chk.rule("C18-D7.extent", "a helper of constructCommon that prepares the output buffer of a job (takes the points by const reference and the values by reference) gives the values an exact "
                              "size on every path: resize(expression over the points), clear(), or a library call that resizes them. A buffer that is only grown keeps the surplus of a longer "
                              "earlier batch, and CompleteStorage::add() appends all of it: later values are paired with the wrong points")
    nbuf = 0
    for fn in db.fns("TasGrid::constructCommon", [CS]):
        for name, (l, d) in lambda_decls(db, fn).items():
            ps = l.params()
            if len(ps) != 2 or "const" not in ps[0].get("t", "") or "std::vector<double>" not in ps[0].get("t", "") or \
                    "std::vector<double> &" not in ps[1].get("t", "") or "const" in ps[1].get("t", ""):
                continue
            ydid = ps[1]["did"]

            def sizes(n, ydid=ydid):
                if n.get("k") != "CXXMemberCallExpr":
                    return False
                cal = short(callee(n) or "")
                o = call_object(n)
                so = strip(o) if o is not None else None
                if cal in ("resize", "clear", "assign") and so is not None and so.get("did") == ydid:
                    return True
                if cal.startswith("evaluate") and any((strip(a) or {}).get("did") == ydid for a in call_args(n)):
                    return True
                return False
            # every path from the entry to the exit passes a sizing call
            cfg = l.cfg
            seen, work, leak = set(), [cfg.entry], False
            while work:
                b = work.pop()
                if b in seen:
                    continue
                seen.add(b)
                if any(isinstance(e, int) and l.nodes.get(e) is not None and sizes(l.nodes[e]) for e in cfg.blocks[b]["e"]):
                    continue
                if b == cfg.exit:
                    leak = True
                    break
                work.extend(cfg.succs(b))
            nbuf += 1
            chk.saw(l)
            chk.ob("C18-D7.extent", l.key, "`%s` is given an exact size on every path of %s" % (ps[1].get("name"), name), not leak, l.where,
                   "" if not leak else "a path returns without resize()/clear()/evaluate*(): the buffer keeps the length of an earlier, longer batch")
            # the size given by resize() is the number of outputs times the number of points of *this* batch
            xdid = ps[0]["did"]
            XS, ND, NO = sympy.Symbol("xsize", positive=True, integer=True), sympy.Symbol("num_dimensions", positive=True, integer=True), sympy.Symbol("num_outputs", positive=True, integer=True)

            def res(n, xdid=xdid):
                if n.get("k") == "CXXMemberCallExpr" and short(callee(n) or "") == "size" and (strip(call_object(n)) or {}).get("did") == xdid:
                    return XS
                if n.get("k") == "DeclRefExpr" and n.get("var") == "num_dimensions":
                    return ND
                if n.get("k") == "DeclRefExpr" and n.get("var") == "num_outputs":
                    return NO
                if n.get("k") == "DeclRefExpr" and n.get("var"):
                    return sympy.Symbol("v_" + n["var"], positive=True, integer=True)
                return None
            for q in l.walk():
                if q.get("k") == "CXXMemberCallExpr" and short(callee(q) or "") == "resize" and (strip(call_object(q)) or {}).get("did") == ydid and call_args(q):
                    try:
                        e = to_sympy(call_args(q)[0], res)
                        oke = sympy.simplify(e - NO * sympy.floor(XS / ND)) == 0 or sympy.simplify(e.subs(sympy.floor(XS / ND), XS / ND) - NO * XS / ND) == 0
                        det = str(e)
                    except NotClosedForm as ex:
                        oke, det = False, "not a closed form: %s" % ex
                    chk.ob("C18-D7.extent", l.key, "resize of `%s` in %s takes the size of this batch" % (ps[1].get("name"), name), oke, l.loc(q),
                           "size = %s" % det, "num_outputs * (number of points handed to the job)")
    chk.floor("C18-D7.extent", nbuf, 4, "buffer-preparing helpers (instantiations)")

    return ("Static rule discharge (R-LOCKSET on AST scopes, who-may-call for lambdas touching guarded data, branch-edge dominance for the unsigned budget difference, pairing of the "
            "running counter with the running list, join/notify presence) over constructCommon<true,*>, the threaded loadNeededValues and CandidateManager. "
            "Deadlock freedom, lost wake-ups and exactly-once over all schedules are properties of interleavings and are not decided; these are necessary structural conditions.")
