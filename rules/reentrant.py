"""R-EFFECT: an optimisation routine keeps all of its working storage in the call.

The objective, gradient, projection and domain callbacks are user code; a user may solve an inner problem with the same
routine from inside a callback.  Any variable with static or thread storage duration that the routine (or a lambda defined
in it) writes is then shared between the outer and the nested call: the outer line search continues with trial points and
gradients of the inner problem.  The rule lists every non-const variable with static storage that the anchored functions
declare or write; the expected number is zero, so instantiate/controls.cpp carries a positive control that has to be
reported on every run."""
from tsg.facts import walk, strip, txt
from tsg.build import AnalysisBroken


def static_state(f):
    """(node, name, how) for every non-const static-storage variable declared or referenced for writing in f"""
    out = []
    for q in f.walk():
        if q.get("k") == "VarDecl" and q.get("staticlocal") and not q.get("const") and "constexpr" not in (q.get("t") or ""):
            out.append((q, q.get("name"), "function-local static %s" % (q.get("t") or "")))
        elif q.get("k") == "DeclRefExpr" and q.get("global") and not q.get("constvar") and not q.get("staticlocal"):
            p = f.parent.get(q.get("id"))
            # only writes through the name matter: assignment target, non-const member call, address taken
            if p is not None and ((p.get("k") in ("BinaryOperator", "CompoundAssignOperator") and p.get("op", "").endswith("=") and p.get("op") not in ("==", "!=", "<=", ">=") and strip(p["c"][0]) is q)
                                  or p.get("k") == "UnaryOperator" and p.get("op") in ("++", "--", "&")):
                out.append((q, q.get("global"), "namespace-scope variable written"))
    return out


def reentrant_rule(chk, db, rule_id, names, files):
    n = 0
    fns = [f for f in db.all_functions(files) if any(f.name == nm or f.key.startswith(nm + "::lambda@") or f.key.startswith(nm + "(") for nm in names) or
           any(f.name == nm for nm in names)]
    for f in fns:
        n += 1
        chk.saw(f)
        st = static_state(f)
        chk.ob(rule_id, f.key + f.sig, "working storage is local to the call", not st, f.loc(st[0][0]) if st else f.where,
               "; ".join("%s: %s" % (nm, how) for q, nm, how in st[:3]), "no non-const variable with static or thread storage duration")
    ctl = db.fns("VerifControls::control_static_work", required=False)
    if not ctl or not static_state(ctl[0]):
        raise AnalysisBroken("%s: the positive control (instantiate/controls.cpp, control_static_work) is not reported: the matcher is broken" % rule_id)
    chk.ob(rule_id, "(control)", "the rule reports the seeded control in instantiate/controls.cpp", True, "", "static thread_local work vector reported")
    return n
