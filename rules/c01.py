"""C01  Interpolant reproduces the loaded model values (structural clauses: coefficient freshness, merge order, algorithm guard)."""
from tsg.facts import DB, strip, txt, callee, call_args, call_object, walk, const_val, short, callee_node
from tsg.flow import var_of, cond_edges_dominating, is_reachable
from tsg.typestate import member_writes, must_pass_after, must_pass_before
from tsg.effects import Effects
from tsg.report import Check
from tsg.build import AnalysisBroken

# frozen from the code: the coefficient member of each family and the routines that (re)compute it from the values
FAMILIES = {
    "TasGrid::GridLocalPolynomial": ("surpluses", ("recomputeSurpluses", "updateSurpluses", "loadNeededValuesGPU", "expandGrid")),
    "TasGrid::GridSequence": ("surpluses", ("recomputeSurpluses", "expandGrid")),
    "TasGrid::GridWavelet": ("coefficients", ("recomputeCoefficients",)),
    "TasGrid::GridFourier": ("fourier_coefs", ("calculateFourierCoefficients",)),
    # global grids store the values as coefficients; what must follow a value merge is the tensor bookkeeping
    "TasGrid::GridGlobal": (None, ("acceptUpdatedTensors", "recomputeTensorRefs", "setTensors")),
}
FILES = ["SparseGrids/tsgGrid%s.cpp" % g for g in ("Global", "Sequence", "LocalPolynomial", "Wavelet", "Fourier")] + \
        ["SparseGrids/tsgGrid%s.hpp" % g for g in ("Global", "Sequence", "LocalPolynomial", "Wavelet", "Fourier")]
VALUE_WRITERS = ("::setValues", "::addValues", "::resize")


def fresh_rule(chk, db, eff, rule_id, classes=None):
    """C01-D1: every change of values / points is followed by a decision about the coefficients (shared with C02 for the classes whose integrate() reads coefficients)"""
    allf = [f for f in db.all_functions(FILES) if f.cls in FAMILIES and not f.d.get("islambda")]
    nfresh = 0
    for cls, (coeff, recomputes) in [(k_, v_) for k_, v_ in FAMILIES.items() if classes is None or k_ in classes]:
        methods = [f for f in allf if f.cls == cls and not f.d.get("const") and not f.d.get("isctor") and not f.d.get("isdtor")]
        # summaries: does calling m (on this) reach a coefficient decision on all paths?  (fixpoint over this-calls)
        decides = {}

        def is_decision(g, n, decided):
            cal = callee(n) or ""
            if cal.startswith(cls + "::") and short(cal) in recomputes:
                return True
            if n.get("id") is not None:
                t = None
                for c, tt in eff.this_calls(g):
                    if c is n:
                        t = tt
                if t is not None and decided.get((t.key, t.sig)):
                    return True
            if coeff is not None:
                for w, fld, kd in member_writes(g, into_lambda=False):
                    if w is n and short(fld) == coeff and kd == "assign":
                        return True
            return False
        changed = True
        rounds = 0
        while changed and rounds < 6:
            rounds += 1
            changed = False
            for m in methods:
                k = (m.key, m.sig)
                if decides.get(k):
                    continue
                # m decides if every path from entry to exit passes a decision
                first = None
                for el in walk(m.body, into_lambda=False):
                    first = el
                    break
                body_first = m.body
                ok = False
                try:
                    blk = m.cfg.entry
                    # use must_pass_after from a virtual start: scan from the first element of the entry's successor
                    ents = [e for e in m.cfg.blocks[m.cfg.succs(blk)[0]]["e"] if isinstance(e, int)] if m.cfg.succs(blk) else []
                    if ents:
                        start = m.nodes.get(ents[0])
                        ok = bool(start is not None and (is_decision(m, start, decides) or must_pass_after(m, start, lambda x: is_decision(m, x, decides))))
                except Exception:
                    ok = False
                if ok:
                    decides[k] = True
                    changed = True
        # which methods change the stored values / loaded points (directly or through helpers on the same object)
        def direct_events(m):
            ev = []
            for w, fld, kd in member_writes(m, into_lambda=False):
                if short(fld) == "values":
                    cal = callee(w) or ""
                    t = txt(w)
                    if cal.endswith(("::setValues", "::addValues")) or (kd == "assign" and not t.endswith("StorageSet()")):
                        ev.append((w, "values"))
                elif short(fld) == "points" and ("+=" in txt(w) or (callee(w) or "").endswith("::addSortedIndexes")):
                    ev.append((w, "points"))
            return ev
        def decision_in(m, x):
            if is_decision(m, x, decides):
                return True
            if coeff is not None:
                for w, fld, kd in member_writes(m, into_lambda=False):
                    if w is x and short(fld) == coeff:
                        return True       # assignment or incremental update of the coefficient member
            return False
        # clean[m]: every change of values/points made by m (directly or through a helper that is not clean itself) is followed
        # inside m by a coefficient decision on all paths.  Fixpoint: the clean set only grows.
        clean = {}
        has_direct = {(m.key, m.sig): bool(direct_events(m)) for m in methods}

        def events_of(m):
            ev = list(direct_events(m))
            for c, t in eff.this_calls(m):
                tk = (t.key, t.sig)
                if tk == (m.key, m.sig):
                    continue        # direct recursion: the callee's obligations are this method's own
                if t.cls == cls and not clean.get(tk) and (has_direct.get(tk) or touches.get(tk)):
                    ev.append((c, "values/points (via %s)" % short(t.name)))
            return ev
        # touches[m]: m changes values/points directly or transitively
        touches = dict(has_direct)
        chg = True
        while chg:
            chg = False
            for m in methods:
                k = (m.key, m.sig)
                if not touches.get(k) and any(touches.get((t.key, t.sig)) for c, t in eff.this_calls(m) if t.cls == cls):
                    touches[k] = True
                    chg = True
        chg = True
        rounds = 0
        while chg and rounds < 8:
            rounds += 1
            chg = False
            for m in methods:
                k = (m.key, m.sig)
                if clean.get(k) or not touches.get(k):
                    continue
                ok = True
                for w, what in events_of(m):
                    if not is_reachable(m, w):
                        continue
                    r = must_pass_after(m, w, lambda x: decision_in(m, x))
                    if not r and short(m.name) == "setHierarchicalCoefficients":
                        r = bool(must_pass_before(m, w, lambda x: decision_in(m, x)))
                    if not r:
                        ok = False
                        break
                if ok:
                    clean[k] = True
                    chg = True
        called_outside = set()
        for fns in db.load_all().values():
            for g in fns:
                if g.cls == cls:
                    continue
                for c in g.calls():
                    if (callee(c) or "").startswith(cls + "::"):
                        called_outside.add(callee(c))
        for m in methods:
            k = (m.key, m.sig)
            is_entry = m.d.get("virtual") or m.name in called_outside
            if not is_entry or not touches.get(k):
                continue
            if short(m.name) in ("clear", "reset", "setTensors", "makeGrid") or short(m.name).startswith("read"):
                continue
            chk.saw(m)
            evs = [(w, what) for w, what in events_of(m) if is_reachable(m, w)]
            if not evs:
                nfresh += 1
                chk.ob(rule_id, m.key + m.sig, "changes are made by helpers that restore the coefficients themselves", True, m.where)
            for w, what in evs:
                nfresh += 1
                ok = must_pass_after(m, w, lambda x: decision_in(m, x))
                if not ok and short(m.name) == "setHierarchicalCoefficients":
                    ok = bool(must_pass_before(m, w, lambda x: decision_in(m, x)))
                chk.ob(rule_id, m.key + m.sig, "%s changed by `%s`" % (what, txt(w)[:50]), bool(ok), m.loc(w),
                       "" if ok else "a path leaves %s with new %s but without recomputing / assigning the %s: evaluate() keeps using stale coefficients" % (short(m.name), what, coeff or "tensor bookkeeping"),
                       "one of %s on every path" % (list(recomputes),))
    return nfresh


def member_txt(e):
    e = strip(e)
    return short(e.get("field") or "") if e is not None and e.get("k") == "MemberExpr" else txt(e or {})


def run(chk):
    db = DB("serial")
    db.load_all()
    eff = Effects(db)
    chk.rule("C01-D1.fresh", "in every method of a grid class, after the stored values or the loaded point set change, every path to the exit passes a decision about the hierarchical coefficients: "
                             "a recompute routine of the family (directly or through a method of the same object that reaches one on all paths) or an explicit assignment of the coefficient member")
    chk.rule("C01-D2.order", "values are merged before the index set they are ordered by (obligations of C07-D1, evaluated here as well)")
    chk.rule("C01-D3.kronecker", "the Kronecker surplus algorithm (van_matrix) runs only on the false edge of 'hierarchy is incomplete', and the completeness flag is produced by computeDAGup on the loaded points")
    chk.rule("C01-D4.tree", "GridLocalPolynomial rebuilds its evaluation tree whenever the loaded point set changes (obligations of C04-D6)")

    allf = [f for f in db.all_functions(FILES) if f.cls in FAMILIES and not f.d.get("islambda")]
    nfresh = fresh_rule(chk, db, eff, "C01-D1.fresh")
    chk.floor("C01-D1.fresh", nfresh, 25, "value / point-set changes in the grid classes")

    # ------------------------------------------------------------------ D2 (shared with C07)
    from rules import c07
    sub = Check("C07", chk.tier, chk.seed)
    c07.run(sub)
    chk.absorb(sub)
    nsh = 0
    for o in sub.obls:
        if o["rule"].startswith("C07-D1."):
            nsh += 1
            chk.ob("C01-D2.order", o["function"], o["construct"], o["ok"], o["where"], o["detail"], o["expected"])
    chk.floor("C01-D2.order", nsh, 40, "merge-order obligations shared with C07")

    # ------------------------------------------------------------------ D3
    nk = 0
    for f in db.fns("TasGrid::GridLocalPolynomial::recomputeSurpluses"):
        vm = [c for c in f.calls() if (callee(c) or "").endswith("::van_matrix")]
        if not vm:
            continue
        nk += 1
        chk.saw(f)
        # the completeness flag is whatever variable is handed to computeDAGup(points, flag) as its output argument
        dag = [c for c in f.calls() if (callee(c) or "").endswith("::computeDAGup") and len(call_args(c)) == 2 and member_txt(call_args(c)[0]) == "points"]
        flag = var_of(strip(call_args(dag[0])[1])) if len(dag) == 1 else None
        conds = [(strip(c), tr) for c, tr in cond_edges_dominating(f, vm[0])]

        def is_flag(e):
            return e is not None and e.get("k") == "DeclRefExpr" and e.get("did") == flag
        ok = flag is not None and any((is_flag(e) and tr) or (e.get("k") == "UnaryOperator" and e.get("op") == "!" and is_flag(strip(e["c"][0])) and not tr) for e, tr in conds)
        chk.ob("C01-D3.kronecker", f.key, "van_matrix only when the hierarchy is complete", ok, f.loc(vm[0]), "dominating conditions: %s" % [(txt(e), tr) for e, tr in conds][:4])
        others = [n for n in f.walk() if n.get("k") == "BinaryOperator" and n.get("op") == "=" and var_of(n["c"][0]) == flag] if flag is not None else [None]
        chk.ob("C01-D3.kronecker", f.key, "completeness flag produced by computeDAGup(points, flag) and by nothing else", flag is not None and not others and bool(must_pass_before(f, vm[0], lambda x: x is dag[0])),
               f.loc(dag[0]) if dag else f.where)
    chk.floor("C01-D3.kronecker", nk, 5, "instantiations of recomputeSurpluses")
    # computeDAGup must clear the flag when a parent is missing
    ncd = 0
    for f in db.fns("TasGrid::HierarchyManipulations::computeDAGup"):
        ps = f.params()
        if len(ps) != 2 or "bool" not in ps[1]["t"]:
            continue
        ncd += 1
        chk.saw(f)
        asg = [n for n in f.walk() if n.get("k") == "BinaryOperator" and n.get("op") == "=" and txt(strip(n["c"][0])) == ps[1]["name"]]
        ok = bool(asg) and any("any_fail" in txt(a["c"][1]) or "== 0" in txt(a["c"][1]) for a in asg)
        chk.ob("C01-D3.kronecker", f.key, "is_complete := no parent lookup failed", ok, f.where, "; ".join(txt(a) for a in asg)[:120])
    chk.floor("C01-D3.kronecker", ncd, 5, "instantiations of computeDAGup with completeness output")

    # ------------------------------------------------------------------ D4
    from rules import c04
    nt = c04.tree_fresh(chk, db, "C01-D4.tree")
    chk.floor("C01-D4.tree", nt, 4, "changes of the loaded point set in GridLocalPolynomial")
    na = c04.argmin_rule(chk, db, "C01-D4.tree")
    chk.floor("C01-D4.tree", na, 1, "index-recording argmin loops with a known maximum (root search of buildTree: every parent-less point becomes a root)")

    # ------------------------------------------------------------------ D5 / D6
    from rules import vander
    chk.rule("C01-D5.vandermonde", "the sparse 1-D Vandermonde pattern of the Kronecker surplus algorithm: column indexes and values are appended in lock-step, the value in column J of the row of "
                                   "node r is evalRaw<rule>(max_order, J, getNode(r)), range insertions of the ancestor arrays run in the same direction; the inline ancestor walk takes the steps of getParent<rule>")
    nv = vander.van_rule(chk, db, "C01-D5.vandermonde")
    nw = vander.walk_rule(chk, db, "C01-D5.vandermonde")
    chk.floor("C01-D5.vandermonde", nv, 30, "paired appends in van_matrix")
    ncell = vander.cell_rule(chk, db, "C01-D5.vandermonde")
    chk.floor("C01-D5.vandermonde", nw + vander.cell_rule.other_shape, 5, "ancestor walks in van_matrix (while-loop walks compared with getParent step by step, other shapes executed row by row)")
    chk.floor("C01-D5.vandermonde", ncell, 1, "ancestor walk of the piecewise-constant rule executed row by row")
    chk.rule("C01-D6.insert", "single-point expansion keeps coefficients aligned with points: the strip insertion kernel and the order of insertion / index shift / update (obligations of C09-D3)")
    from rules import c09
    sub9 = Check("C09", chk.tier, chk.seed)
    c09.expand_rules(sub9, db)
    chk.absorb(sub9)
    n6 = 0
    for o in sub9.obls:
        if o["rule"] == "C09-D3.expand":
            n6 += 1
            chk.ob("C01-D6.insert", o["function"], o["construct"], o["ok"], o["where"], o["detail"], o["expected"])
    chk.floor("C01-D6.insert", n6, 7, "expansion obligations shared with C09")
    chk.rule("C01-D6.relations", "the incremental surplus update after a single inserted point reaches every point whose surplus depends on it: the downward hierarchy relation (getKid) "
                                 "is the inverse of the upward relations (getParent, getStepParent) (obligations of C09-D4)")
    nr6 = c09.hierarchy_relations(chk, db, "C01-D6.relations")
    chk.floor("C01-D6.relations", nr6, 4, "local polynomial rules with closed-form hierarchy relations")

    # ------------------------------------------------------------------ D8 proposed tensor sets contain the current one
    chk.rule("C01-D8.tensors", "a proposed tensor set (updated_tensors) always contains the tensors of the loaded points: before proposeUpdatedTensors() the proposal, or the local set that is "
                               "moved into it, is merged (+=) with the member tensors (or, for sequence rules, points); otherwise loaded points whose tensors are not selected again lose their coefficients")
    nprop = 0
    for f in allf:
        if f.cls not in ("TasGrid::GridGlobal", "TasGrid::GridFourier"):
            continue
        props = [c for c in f.calls(into_lambda=False) if (callee(c) or "").endswith("::proposeUpdatedTensors") and is_reachable(f, c)]
        if not props:
            continue
        # locals that are moved / assigned into updated_tensors
        srcs = set()
        for q in f.walk():
            if q.get("k") == "CXXOperatorCallExpr" and q.get("op") == "=":
                ch = [x for x in q.get("c", []) if isinstance(x, dict)]
                if member_txt(ch[-2]) == "updated_tensors":
                    for x in walk(ch[-1]):
                        if x.get("k") == "DeclRefExpr" and "did" in x:
                            srcs.add(x["did"])

        for c in props:      # ... or handed to proposeUpdatedTensors(std::move(local)), which stores it
            for a in call_args(c):
                for x in [a] + list(walk(a)):
                    if x.get("k") == "DeclRefExpr" and "did" in x:
                        srcs.add(x["did"])

        def is_merge(x):
            if x.get("k") != "CXXOperatorCallExpr" or x.get("op") != "+=":
                return False
            ch = [y for y in x.get("c", []) if isinstance(y, dict)]
            tgt_ok = member_txt(ch[-2]) == "updated_tensors" or var_of(ch[-2]) in srcs
            return tgt_ok and member_txt(ch[-1]) in ("tensors", "points")
        for c in props:
            nprop += 1
            chk.saw(f)
            ok = bool(must_pass_before(f, c, is_merge))
            chk.ob("C01-D8.tensors", f.key + f.sig, "proposeUpdatedTensors @%d follows a merge with the current tensors" % c.get("l", 0), ok, f.loc(c),
                   "" if ok else "the proposal is not merged with `tensors`: after loadNeededValues the tensor set is replaced by the new selection alone and old points outside it evaluate without their coefficients")
    chk.floor("C01-D8.tensors", nprop, 3, "calls of proposeUpdatedTensors")

    from rules import restart
    nrs = restart.restart_rule(chk, db, "C01-D10.restart")
    chk.floor("C01-D10.restart", nrs, 6, "restart-loop obligations of the wavelet solver (instantiations)")
    # ------------------------------------------------------------------ D11 every loaded ancestor is reached by the hierarchical transform
    chk.rule("C01-D11.ancestors", "the surplus / weight transforms of the Local Polynomial grid subtract the contribution of every loaded ancestor of a point: either the ancestors are enumerated from "
                                  "the multi-index itself, or - when they are found by walking the DAG of the loaded points, where a missing point ends the walk - every route that adds a point "
                                  "requires all of its parents to be present.  Decided from the shape of the walk (reads of the parent table that skip -1) and of the admission predicate "
                                  "(a flag set by any single relative is existential)")
    GLP = "TasGrid::GridLocalPolynomial"
    walks = []
    for nm in ("updateSurpluses", "applyTransformationTransposed"):
        for g in db.fns(GLP + "::" + nm):
            if not g.d.get("targs"):
                continue
            dag = [p_ for p_ in g.params() if p_["name"] == "dagUp"] + [d_ for d_ in g.locals().values() if d_.get("name") == "dagUp"]
            skips = [q for q in g.walk() if q.get("k") == "BinaryOperator" and q.get("op") == "==" and txt(strip(q["c"][1])) == "-1" and "branch" in txt(strip(q["c"][0]))]
            if dag and skips:
                walks.append(g)
            chk.saw(g)
    adm = []
    for g in db.fns(GLP + "::loadConstructedPoint"):
        if not g.d.get("targs") or len(g.params()) != 2:
            continue
        chk.saw(g)
        flags = [d_ for d_ in g.locals().values() if d_.get("k") == "VarDecl" and (d_.get("t") or "") == "bool"]
        for c in g.calls():
            if (callee(c) or "").endswith("::touchAllImmediateRelatives"):
                lam = [q for a in call_args(c) for q in [strip(a)] + list(walk(a)) if q is not None and q.get("k") == "LambdaExpr"]
                # the callback only raises a flag: one loaded relative is enough
                sets_true = any(q.get("k") == "BinaryOperator" and q.get("op") == "=" and txt(strip(q["c"][1])) == "true" and var_of(q["c"][0]) in {f_["did"] for f_ in flags}
                                for l_ in lam for q in walk(l_))
                counts = any(q.get("k") in ("UnaryOperator", "CompoundAssignOperator") and q.get("op") in ("++", "+=") for l_ in lam for q in walk(l_))
                if sets_true and not counts:
                    adm.append(g)
    if not walks and not adm:
        raise AnalysisBroken("C01-D11: neither the DAG walk nor the admission predicate of the Local Polynomial grid was recognised")
    bad = bool(walks) and bool(adm)
    chk.ob("C01-D11.ancestors", GLP, "ancestors are found by walking the DAG of the loaded points while a point is admitted as soon as one relative is loaded", not bad,
           (walks[0].where if walks else adm[0].where),
           "%d transform instantiation(s) stop at a missing parent; %d admission routine(s) accept a point with a single loaded relative: an ancestor that is reachable only through a missing point is never subtracted"
           % (len(walks), len(adm)) if bad else "", "index-based enumeration of the ancestors, or admission that requires every parent")
    from rules import complete
    nc9 = complete.complete_rule(chk, db, "C01-D9.complete")
    chk.floor("C01-D9.complete", nc9, 5, "fallback loops in computeDAGup (instantiations)")

    from rules import dispatch
    chk.rule("C01-D7.dispatch", "every switch(effective_rule) in the local polynomial grid instantiates, in each case, the templates for the rule of that case")
    ndsp = dispatch.dispatch_rule(chk, db, "C01-D7.dispatch")
    chk.floor("C01-D7.dispatch", ndsp, 15, "rule-dispatch switches")

    return ("Static rule discharge over the five grid classes (all instantiations): must-pass-after analysis on the CFG tying every change of the stored values / loaded points to a decision "
            "about the hierarchical coefficients (method summaries are computed as a fixpoint over calls on the same object), the merge-order obligations shared with C07, the guard of the "
            "Kronecker algorithm, the pairing of columns and basis values in its sparse Vandermonde pattern, the single-point insertion kernel and the rebuild of the evaluation tree. That the computed surpluses / coefficients are the right numbers is numerical and not decided.")
