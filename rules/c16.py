"""C16  The tasgrid command-line tool is equivalent to the library API (structural clauses)."""
from tsg.facts import DB, strip, txt, callee, call_args, call_object, walk, const_val, short, callee_node
from tsg.flow import var_of, cond_edges_dominating
from tsg.build import AnalysisBroken

W = "Tasgrid/tasgridWrapper.cpp"
WR = "TasgridWrapper"
TSG = "TasGrid::TasmanianSparseGrid"


def disjuncts(e):
    s = strip(e, casts=False)
    if s is not None and s.get("k") == "BinaryOperator" and s.get("op") == "||":
        return disjuncts(s["c"][0]) + disjuncts(s["c"][1])
    return [s]


def run(chk):
    db = DB("serial")
    db.load_all()
    chk.rule("C16-D1.table", "the command table has unique keys, every TypeCommand enumerator except command_none has a key, and every command is dispatched by executeCommand")
    chk.rule("C16-D2.make", "in the make dispatch no disjunct of a later branch repeats a disjunct of an earlier branch (dead condition), and for -makequadrature every grid family is selected "
                            "by the same rule predicate that checkSane uses for that family")
    chk.rule("C16-D3.domain", "for every wrapper option forwarded to a make* API call, the wrapper's rejecting predicate equals the API's throwing predicate on that parameter (same operator, same constant)")
    chk.rule("C16-D4.output", "sibling sites that forward the refinement output agree on the mapping 'all outputs (-1) -> output 0', which applies to Global grids only")
    chk.rule("C16-D5.fourier", "consumers of Fourier hierarchical coefficients address the imaginary block at offset num_points x num_outputs (the layout the library writes)")

    # ------------------------------------------------------------------ D1
    has = db.fn(WR + "::hasCommand")
    chk.saw(has)
    pairs = []
    for n in has.walk():
        if n.get("k") == "CXXConstructExpr" and "pair" in n.get("ctor", "") and len(n.get("c", [])) == 2:
            key = [x.get("val") for x in walk(n["c"][0]) if x.get("k") == "StringLiteral"]
            en = [x for x in walk(n["c"][1]) if x.get("k") == "DeclRefExpr" and "enumc" in x]
            if key and en:
                pairs.append((key[0], short(en[0]["enumc"]), n))
    chk.floor("C16-D1.table", len(pairs), 60, "command table entries")
    seen = {}
    for key, cmd, n in pairs:
        if key in seen and seen[key] != cmd:
            chk.ob("C16-D1.table", WR + "::hasCommand", "key %s" % key, False, has.loc(n),
                   "listed for %s and again for %s: a std::map initialiser keeps the first, `%s` can never select %s" % (seen[key], cmd, key, cmd), "unique keys")
        elif key in seen:
            chk.ob("C16-D1.table", WR + "::hasCommand", "key %s" % key, False, has.loc(n), "duplicate entry")
        else:
            seen[key] = cmd
    enum = [v["name"] for v in db.enum("TypeCommand")["values"]]
    have = {c for _, c, _ in pairs}
    for e in enum:
        if e == "command_none":
            continue
        chk.ob("C16-D1.table", WR + "::hasCommand", "enumerator %s has a key" % e, e in have, has.where)
    ex = db.fn(WR + "::executeCommand")
    chk.saw(ex)
    handled = {short(x["enumc"]) for x in ex.walk() if x.get("k") == "DeclRefExpr" and "enumc" in x and x["enumc"].startswith("command_") or (x.get("k") == "DeclRefExpr" and "enumc" in x and "command_" in x["enumc"])}
    for e in enum:
        if e == "command_none":
            continue
        chk.ob("C16-D1.table", WR + "::executeCommand", "command %s is dispatched" % e, e in handled, ex.where)

    # ------------------------------------------------------------------ D2
    chain = []
    for n in walk(ex.body, into_lambda=False):
        if n.get("k") == "IfStmt" and any((callee(c) or "").endswith("::makeGlobalGrid") for c in walk(n.get("then"))) and not any(
                x.get("k") == "IfStmt" and any((callee(c) or "").endswith("::makeGlobalGrid") for c in walk(x)) for x in walk(n.get("then"))):
            cur = n
            while cur is not None and cur.get("k") == "IfStmt":
                mk = [short(callee(c)) for c in walk(cur.get("then")) if (callee(c) or "").startswith("TasGrid::TasmanianSparseGrid::make")]
                chain.append((cur, disjuncts(cur["cond"]), mk))
                els = cur.get("else")
                if els is not None and els.get("k") != "IfStmt":
                    mk2 = [short(callee(c)) for c in walk(els) if (callee(c) or "").startswith("TasGrid::TasmanianSparseGrid::make")]
                    chain.append((els, [], mk2))
                cur = els if els is not None and els.get("k") == "IfStmt" else None
            break
    chk.floor("C16-D2.make", len(chain), 5, "branches of the make dispatch")
    prev = []
    for node, ds, mk in chain:
        for d in ds:
            t = txt(d)
            dup = [p for p in prev if p == t]
            chk.ob("C16-D2.make", WR + "::executeCommand", "branch -> %s: disjunct `%s`" % (",".join(mk), t[:70]), not dup, ex.loc(node),
                   "repeats a disjunct of an earlier branch: this alternative can never be taken" if dup else "")
        prev += [txt(d) for d in ds]
    # family predicate for makequadrature must be the family's own predicate
    fam = {"makeGlobalGrid": "isGlobal", "makeFourierGrid": "rule_fourier", "makeLocalPolynomialGrid": "isLocalPolynomial"}
    for node, ds, mk in chain:
        for m in mk:
            if m in fam:
                q = [txt(d) for d in ds if "command_makequadrature" in txt(d)]
                ok = bool(q) and all(fam[m] in t for t in q)
                chk.ob("C16-D2.make", WR + "::executeCommand", "-makequadrature selects %s by %s" % (m, fam[m]), ok, ex.loc(node), str(q))

    # ------------------------------------------------------------------ D3
    sane = db.fn(WR + "::checkSane")
    chk.saw(sane)
    wrapper_pred = {}
    for c in sane.calls():
        if (callee(c) or "").endswith("::fail_if"):
            cond = call_args(c)[0]
            for x in walk(cond):
                if x.get("k") == "BinaryOperator" and x.get("op") in ("<", "<=", ">", ">=") and const_val(x["c"][1]) is not None:
                    m = strip(x["c"][0])
                    if m.get("k") == "MemberExpr" and "field" in m and "makecoms" in txt(cond):
                        wrapper_pred.setdefault(short(m["field"]), []).append((x["op"], const_val(x["c"][1]), c))
    nd3 = 0
    for call in ex.calls():
        cal = callee(call) or ""
        if not cal.startswith("TasGrid::TasmanianSparseGrid::make"):
            continue
        api = db.resolve(call)
        if api is None:
            continue
        chk.saw(api)
        api_pred = {}
        for i in walk(api.body):
            if i.get("k") == "IfStmt" and any(x.get("k") == "CXXThrowExpr" for x in walk(i.get("then"))):
                for x in walk(i["cond"]):
                    if x.get("k") == "BinaryOperator" and x.get("op") in ("<", "<=", ">", ">=") and const_val(x["c"][1]) is not None:
                        v = strip(x["c"][0])
                        if v.get("k") == "DeclRefExpr" and v.get("parm"):
                            api_pred.setdefault(v["var"], []).append((x["op"], const_val(x["c"][1])))
        for ai, a in enumerate(call_args(call)):
            m = strip(a)
            if m is None or m.get("k") != "MemberExpr" or "field" not in m:
                continue
            fld = short(m["field"])
            if ai >= len(api.params()):
                continue
            pname = api.params()[ai]["name"]
            if fld in wrapper_pred and pname in api_pred:
                wp = {(o, c) for o, c, _ in wrapper_pred[fld]}
                ap = set(api_pred[pname])
                nd3 += 1
                # the wrapper may reject nothing the API accepts: every wrapper predicate must be an API predicate
                ok = wp <= ap
                chk.ob("C16-D3.domain", WR + "::checkSane", "option %s vs %s(%s)" % (fld, short(cal), pname), ok, sane.loc(wrapper_pred[fld][0][2]),
                       "tool rejects %s %s, library rejects %s %s" % (fld, sorted(wp), pname, sorted(ap)))
    chk.floor("C16-D3.domain", nd3, 8, "forwarded options with a range check on both sides")

    # ------------------------------------------------------------------ D4 sibling ref_output mapping
    sites = []
    for fn in db.all_functions([W]):
        if fn.cls != WR:
            continue
        for n in fn.walk():
            # assignment  ref_output = 0  under a guard, or conditional expression (...) ? 0 : ref_output
            if n.get("k") == "BinaryOperator" and n.get("op") == "=" and txt(strip(n["c"][0])) == "ref_output" and const_val(n["c"][1]) == 0:
                g = [txt(strip(c)) for c, tr in cond_edges_dominating(fn, n) if tr]
                sites.append((fn, n, " && ".join(sorted(set(g)))))
            if n.get("k") == "ConditionalOperator" and const_val(n["c"][1]) == 0 and txt(strip(n["c"][2])) == "ref_output":
                sites.append((fn, n, txt(strip(n["c"][0]))))
    chk.floor("C16-D4.output", len(sites), 3, "sites mapping ref_output -1 to 0")
    for fn, n, g in sites:
        chk.saw(fn)
        ok = "grid.isGlobal()" in g and "ref_output == -1" in g
        chk.ob("C16-D4.output", fn.name, "ref_output := 0 @%d" % n.get("l", 0), ok, fn.loc(n), "guard: %s" % g, "grid.isGlobal() && ref_output == -1 (Sequence/Fourier grids treat -1 as all outputs)")

    # ------------------------------------------------------------------ D5 Fourier coefficient layout
    nfc = 0
    for fn in db.all_functions([W, "SparseGrids/TasmanianSparseGridWrapC.cpp"]):
        gets = [c for c in fn.calls() if (callee(c) or "").endswith("TasmanianSparseGrid::getHierarchicalCoefficients") or (callee(c) or "").endswith("getHierarchicalCoefficientsStatic")]
        if not gets or "isFourier" not in " ".join(txt(c) for c in fn.calls()):
            continue
        chk.saw(fn)
        # wrappers over the coefficient block: second (imaginary) wrapper must start num_points strips after the real one
        wr = [d for d in fn.locals().values() if "Wrapper2D" in d.get("t", "") and d.get("c")]
        for d in wr:
            init = strip(d["c"][0])
            args = init.get("c", []) if init.get("k") in ("CXXConstructExpr", "CXXTemporaryObjectExpr") else []
            if len(args) >= 2 and d.get("name", "").startswith("imag"):
                nfc += 1
                src = txt(strip(args[1]))
                stride = txt(strip(args[0]))
                # closed-form offset of the imaginary block relative to the start of the coefficient array
                from tsg.symeval import ev, lattice, Unknown

                def res(n):
                    return {"num_points": "P", "num_outputs": "O"}.get(txt(n))

                def offset(e, env):
                    e = strip(e)
                    if e.get("k") == "CXXMemberCallExpr" and (callee(e) or "").endswith("::getStrip"):
                        o = strip(call_object(e))
                        dd = fn.locals().get(o.get("did")) if o is not None else None
                        if dd is None or not dd.get("c"):
                            raise Unknown("wrapper")
                        i2 = strip(dd["c"][0])
                        return ev(call_args(e)[0], env, res) * ev(i2["c"][0], env, res) + offset(i2["c"][1], env)
                    if e.get("k") == "BinaryOperator" and e.get("op") == "+":
                        return offset(e["c"][0], env) + ev(e["c"][1], env, res)
                    if e.get("k") == "DeclRefExpr":
                        return 0
                    raise Unknown(txt(e))
                ok = True
                detail = ""
                try:
                    for env in lattice({"P", "O"}, {"P": (3, 5, 7), "O": (1, 2, 4)}):
                        got = offset(args[1], env)
                        if got != env["P"] * env["O"]:
                            ok = False
                            detail = "with %d points and %d outputs the imaginary block is read at offset %d, the library stores it at %d" % (env["P"], env["O"], got, env["P"] * env["O"])
                            break
                except Unknown as u:
                    ok = False
                    detail = "offset expression not analysable: %s" % u
                chk.ob("C16-D5.fourier", fn.name, "imaginary block offset == num_points x num_outputs", ok, fn.loc(d), detail or ("offset %s, stride %s" % (src[:40], stride)))
    chk.floor("C16-D5.fourier", nfc, 1, "consumers of Fourier coefficient blocks")

    # ------------------------------------------------------------------ D5b rows of interleaved complex data
    chk.rule("C16-D5.complex", "where the tool reads a strip of a 2-D view as interleaved complex numbers (r[2*j], r[2*j+1], j < n), the stride of that view on the same branch is at least 2*n: "
                               "every row starts where the previous one ends")
    import sympy
    from tsg.sym import to_sympy, NotClosedForm
    ncx = 0
    for f in db.all_functions(["Tasgrid/tasgridWrapper.cpp"]):
        if f.cls != WR:
            continue
        loc = {v["did"]: v for v in f.locals().values() if "did" in v}
        pnames = {p_["did"]: p_["name"] for p_ in f.params()}

        def sym(n, assume):
            def r(x):
                if x.get("k") == "DeclRefExpr" and x.get("did") in pnames:
                    nm = pnames[x["did"]]
                    if nm in assume:
                        return assume[nm]
                    return sympy.Symbol(nm, integer=True, positive=True)
                if x.get("k") == "DeclRefExpr" and x.get("did") in loc:
                    ini = [c for c in loc[x["did"]].get("c", []) if isinstance(c, dict)]
                    if ini and loc[x["did"]].get("t") in ("size_t", "int", "unsigned long"):
                        return to_sympy(ini[0], r)
                return None
            return to_sympy(n, r)
        for q in f.walk(into_lambda=False):
            if q.get("k") != "ArraySubscriptExpr":
                continue
            b = strip(q["c"][0])
            if b is None or b.get("k") != "DeclRefExpr" or b.get("did") not in loc:
                continue
            d = loc[b["did"]]
            ini = [c for c in d.get("c", []) if isinstance(c, dict)]
            gs = strip(ini[0]) if ini else None
            if gs is None or gs.get("k") != "CXXMemberCallExpr" or not (callee(gs) or "").endswith("::getStrip"):
                continue
            recv = strip(call_object(gs))
            if recv is None or recv.get("did") not in loc or "Wrapper2D" not in loc[recv["did"]].get("t", ""):
                continue
            wini = [c for c in loc[recv["did"]].get("c", []) if isinstance(c, dict)]
            ctor = next((x for x in walk(wini[0]) if x.get("k") in ("CXXConstructExpr", "CXXTemporaryObjectExpr")), None) if wini else None
            args = [c for c in (ctor or {}).get("c", []) if isinstance(c, dict)]
            idx = strip(q["c"][1])
            if not args or idx is None or "2 *" not in txt(idx):
                continue
            lp = next((a for a in f.ancestors(q) if a.get("k") == "ForStmt" and a.get("cond") is not None), None)
            assume = {}
            for e, tr in cond_edges_dominating(f, q):
                e0 = strip(e)
                if e0 is not None and e0.get("k") == "DeclRefExpr" and e0.get("did") in pnames and "bool" in next(p_["t"] for p_ in f.params() if p_["did"] == e0["did"]):
                    assume[pnames[e0["did"]]] = sympy.true if tr else sympy.false
            ncx += 1
            chk.saw(f)
            ok, detail = False, ""
            try:
                S = sym(args[0], assume)
                if lp is not None and strip(lp["cond"]).get("k") == "BinaryOperator" and strip(lp["cond"]).get("op") == "<":
                    lv = strip(strip(lp["cond"])["c"][0])
                    N = sym(strip(lp["cond"])["c"][1], assume)
                    J = sympy.Symbol("__j", integer=True, nonnegative=True)
                    def ridx(x, lv=lv):
                        return J if x.get("k") == "DeclRefExpr" and x.get("did") == lv.get("did") else None
                    I = to_sympy(idx, lambda x: ridx(x))
                    worst = sympy.simplify(S - (I.subs(J, N - 1) + 1))
                else:
                    I = sym(idx, assume)
                    worst = sympy.simplify(S - (I + 1))
                ok = bool(worst.is_nonnegative)
                detail = "stride %s, largest index + 1 = stride - (%s)" % (S, worst)
            except NotClosedForm as ex:
                detail = "not a closed form: %s" % ex
            chk.ob("C16-D5.complex", f.key, "`%s` @%d stays inside its row" % (txt(q), q.get("l", 0)), ok, f.loc(q), detail, "stride >= 2 * number of complex entries per row")
    chk.floor("C16-D5.complex", ncx, 2, "interleaved complex subscripts in the wrapper")

    # ------------------------------------------------------------------ D6 modes
    chk.rule("C16-D6.modes", "a mode of the library that rejects other commands while it is active and that the tool can enter (dynamic construction: beginConstruction) can also be left "
                             "through the tool without destroying the grid (finishConstruction is called by some command handler)")
    wrapfns = [f for f in db.all_functions(["Tasgrid/tasgridWrapper.cpp"]) if f.cls == "TasgridWrapper"]
    opens = [(f, c) for f in wrapfns for c in f.calls() if (callee(c) or "").endswith("TasmanianSparseGrid::beginConstruction")]
    closes = [(f, c) for f in wrapfns for c in f.calls() if (callee(c) or "").endswith("TasmanianSparseGrid::finishConstruction")]
    if not opens:
        raise AnalysisBroken("the wrapper no longer enters dynamic construction: re-derive C16-D6")
    for f, c in opens[:1]:
        chk.saw(f)
    chk.ob("C16-D6.modes", "TasgridWrapper", "construction mode entered at %d site(s) can be left" % len(opens), bool(closes), opens[0][0].loc(opens[0][1]),
           "finishConstruction called in %s" % sorted({short(f.name) for f, c in closes}) if closes else
           "no command handler calls finishConstruction: after -getconstructpnts the grid rejects refinement commands until it is re-made",
           "at least one handler ends the construction")

    # ------------------------------------------------------------------ D8 shape of the scale-correction matrix
    chk.rule("C16-D8.scale", "where the tool reads a scale-correction matrix for a surplus refinement / construction call, the column count it accepts is the library's: one column per "
                             "output when all outputs are used (output == -1), one column when a single output is selected; the sibling sites agree")
    # the library side: nscale = getNumLoaded(); if (output == -1) nscale *= getNumOutputs()
    lib = [f for f in db.fns(TSG + "::setSurplusRefinement") if "std::vector<double>" in f.sig and "TypeRefinement" in f.sig]
    lib_all = False
    for f in lib:
        for q in f.walk():
            if q.get("k") == "IfStmt" and txt(strip(q.get("cond"))).replace(" ", "") == "output==-1" and "getNumOutputs" in txt(q.get("then")) and "*=" in txt(q.get("then")):
                lib_all = True
    if not lib_all:
        raise AnalysisBroken("the library's extent rule for scale_correction (output == -1 multiplies by the outputs) was not found: re-derive C16-D8")
    nsc = 0
    for f in db.all_functions(["Tasgrid/tasgridWrapper.cpp"]):
        if f.cls != WR:
            continue
        asserts = []
        for c in f.calls():
            if short(callee(c) or "") == "iassert" and "getStride()" in txt(call_args(c)[0]):
                cond = strip(call_args(c)[0])
                if cond.get("k") == "BinaryOperator" and cond.get("op") == "==":
                    rhs = txt(strip(cond["c"][1])).replace("(size_t)", "").replace(" ", "")
                    edges = [(txt(strip(e)).replace(" ", ""), tr) for e, tr in cond_edges_dominating(f, c)]
                    mode = None
                    for t, tr in edges:
                        if t == "ref_output==-1":
                            mode = "all" if tr else "single"
                        elif t in ("ref_output>-1", "ref_output>=0", "ref_output!=-1"):
                            mode = "single" if tr else "all"
                    if mode:
                        asserts.append((c, mode, rhs))
        if not asserts:
            continue
        nsc += 1
        chk.saw(f)
        got = {m: r for c, m, r in asserts}
        want = {"all": "grid.getNumOutputs()", "single": "1"}
        chk.ob("C16-D8.scale", f.key, "accepted column count of the weights matrix", got == want, f.loc(asserts[0][0]), "accepts %s" % got, "%s" % want)
    chk.floor("C16-D8.scale", nsc, 2, "wrapper functions that validate a scale-correction matrix")

    # ------------------------------------------------------------------ D9 verified reads are honoured
    chk.rule("C16-D9.verified", "a matrix obtained from verifiedRead() reaches the library only on the pass_flag edge of a test made after the read: a file with the wrong number of "
                                "columns stops the command instead of being re-interpreted")
    nver = 0
    for f in db.all_functions(["Tasgrid/tasgridWrapper.cpp"]):
        if f.cls != WR:
            continue
        loc = {v["did"]: v for v in f.locals().values() if "did" in v}
        for did, v in loc.items():
            ini = [c for c in v.get("c", []) if isinstance(c, dict)]
            rd = next((q for q in walk(ini[0]) if short(callee(q) or "") == "verifiedRead"), None) if ini else None
            if rd is None:
                continue
            uses = [c for c in f.calls(into_lambda=False) if (callee(c) or "").startswith(TSG + "::") and any(x.get("k") == "DeclRefExpr" and x.get("did") == did for a in call_args(c) for x in walk(a))]
            for u in uses:
                nver += 1
                chk.saw(f)
                ok = False
                for e, tr in cond_edges_dominating(f, u):
                    t = txt(strip(e)).replace(" ", "")
                    if ((t == "pass_flag" and tr) or (t in ("!pass_flag", "notpass_flag") and not tr)) and e.get("l", 0) >= rd.get("l", 0):
                        ok = True
                chk.ob("C16-D9.verified", f.key, "%s(%s) @%d uses the matrix read @%d" % (short(callee(u)), v.get("name"), u.get("l", 0), rd.get("l", 0)), ok, f.loc(u),
                       "" if ok else "no pass_flag test between the read and the use: a rejected matrix is still handed to the library", "if (not pass_flag) return; after the read")
    chk.floor("C16-D9.verified", nver, 6, "library calls fed from verifiedRead()")

    # ------------------------------------------------------------------ D7 precision of numeric options
    chk.rule("C16-D7.precision", "a numeric option that the wrapper stores as double is parsed in double precision: no argument of a double-typed wrapper setter is a float-typed "
                                 "expression (std::stof): the tool would otherwise build a grid for a neighbouring parameter value")
    nprec = 0
    for f in db.all_functions(["Tasgrid/tasgrid_main.cpp", "Tasgrid/tasgridWrapper.cpp"]):
        for c in f.calls():
            cal = callee(c) or ""
            if not cal.startswith(WR + "::set"):
                continue
            t = db.resolve(c)
            if t is None:
                continue
            for prm, a in zip(t.params(), call_args(c)):
                if prm["t"].strip() != "double":
                    continue
                nprec += 1
                chk.saw(f)
                narrow = [x for x in walk(a) if (x.get("t") == "float") or (callee(x) or "") in ("std::stof", "std::strtof", "atof") and x.get("t") == "float"]
                chk.ob("C16-D7.precision", f.key, "%s(%s)" % (short(cal), txt(strip(a))[:30]), not narrow, f.loc(c),
                       "the value passes through a float (`%s`) before it is stored as double" % txt(narrow[0])[:40] if narrow else "", "double precision all the way")
    chk.floor("C16-D7.precision", nprec, 4, "double-typed options set from the command line")

    from rules import c16more
    nini = c16more.init_rule(chk, db, "C16-D10.init")
    chk.floor("C16-D10.init", nini, 150, "scalar members x constructors")
    nro = c16more.readonly_rule(chk, db, "C16-D11.readonly")
    chk.floor("C16-D11.readonly", nro, 20, "dispatched commands")
    nx = c16more.xfile_rule(chk, db, "C16-D13.xfile")
    chk.floor("C16-D13.xfile", nx, 5, "commands that read the points file")
    nl = c16more.limits_rule(chk, db, "C16-D14.limits")
    chk.floor("C16-D14.limits", nl, 8, "library calls with a level-limits parameter")
    nrj = c16more.rejected_rule(chk, db, "C16-D15.rejected")
    nrd = c16more.refine_dispatch_rule(chk, db, "C16-D17.refine")
    chk.floor("C16-D17.refine", nrd, 1, "family dispatch of -refine")
    nct = c16more.contour_rule(chk, db, "C16-D16.contour")
    chk.floor("C16-D16.contour", nct, 5, "comparisons with the enumerator type_curved")
    chk.floor("C16-D15.rejected", nrj, 3, "uses of rejected option data")
    nlay = c16more.coeff_layout_rule(chk, db, "C16-D12.coefflayout")
    chk.floor("C16-D12.coefflayout", nlay, 2, "copy statements of the writer of Fourier coefficients")

    return ("Static rule discharge on the tasgrid wrapper: command table coverage and uniqueness, dead alternatives and family predicates of the make dispatch, agreement of the tool's "
            "argument checks with the library's, sibling agreement of the output mapping and of the Fourier coefficient layout. The equivalence of outputs of command scripts with API "
            "call sequences needs execution and is not decided; these are necessary structural conditions only.")
