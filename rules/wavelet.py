"""R-SYMBOLIC: the derivative routines of the wavelet rule are the derivatives of its value routines.

RuleWavelet::eval<mode>(point, x) returns the value (mode 0) or the derivative (mode 1) of the one dimensional wavelet
`point`.  Both modes share one body; the derivative is produced by mode-specific branches and chain-rule factors.

 order 1  the lifted linear wavelets are closed forms: eval_linear<0> and eval_linear<1> are partially evaluated for every
          point of levels 1..L (boundary and central wavelets, scale/shift from the point index) into piecewise functions
          of x; d/dx of the value form is compared with the derivative form at rational abscissae between the kinks.
 order 3  the cubic wavelets are tabulated; interpolate<mode>(table, u) is kept as an uninterpreted function I_mode.
          For every point the value form must be I_0(T, u(x)) and the derivative form c * I_1(T, u(x)) with the same table,
          the same argument and c == du/dx; a derivative that is replaced by a constant on an isolated abscissa (a
          stabilisation shortcut) is accepted only where the table of justified shortcuts lists it.
          interpolate<1> itself is compared with d/dx interpolate<0> (Neville form with symbolic nodes and table entries).

What is not decided: the table contents (cascade algorithm) and the one-sided conventions at the kinks of order 1."""
import sympy

from tsg.facts import strip, txt, callee, call_args, call_object, walk, short
from tsg.peval import PEval
from tsg.sym import NotClosedForm, to_sympy

RW = "TasGrid::RuleWavelet::"
X = sympy.Symbol("x", real=True)
NDP = sympy.Symbol("num_data_points", integer=True, positive=True)
I0, I1, TAB = sympy.Function("I0"), sympy.Function("I1"), sympy.Function("table")

# derivative shortcuts on isolated abscissae, confirmed by reading: (point, abscissa) -> reason
JUSTIFIED_SHORTCUTS = {(0, 0): "scaling function 0 is even about the origin (its table is symmetric), the derivative there is zero; the interpolated value has round-off noise"}


class WPEval(PEval):
    def resolver(self, env, fn, depth):
        base = super().resolver(env, fn, depth)

        def table_key(e):
            e = strip(e)
            if e is None:
                return None
            if e.get("k") == "UnaryOperator" and e.get("op") == "&":
                return table_key(e["c"][0])
            if e.get("k") in ("CXXOperatorCallExpr", "ArraySubscriptExpr") and (e.get("op") == "[]" or e.get("k") == "ArraySubscriptExpr"):
                ch = [c for c in e.get("c", []) if isinstance(c, dict)]
                b, i = (ch[1], ch[2]) if e.get("k") == "CXXOperatorCallExpr" else (ch[0], ch[1])
                inner = table_key(b)
                idx = self.expr(i, env, fn, depth)
                if inner is None:
                    return None
                return inner + (idx,)
            if e.get("k") == "MemberExpr" and short(e.get("field") or "") == "data":
                return ("data",)
            return None

        def res(n):
            k = n.get("k")
            if k == "MemberExpr" and short(n.get("field") or "") == "num_data_points":
                return NDP
            if k == "UnaryOperator" and n.get("op") == "&":
                tk = table_key(n)
                if tk is not None and len(tk) == 3:
                    return TAB(tk[1], tk[2])
            if k == "CXXMemberCallExpr":
                nm = short(callee(n) or "")
                t = self.db.resolve(n)
                if nm == "interpolate" and t is not None:
                    a = call_args(n)
                    T = self.expr(a[0], env, fn, depth)
                    u = self.expr(a[1], env, fn, depth)
                    return (I0 if (t.d.get("targs") or "").split(",")[0].strip() == "0" else I1)(T, u)
                if nm in ("linear_boundary_wavelet", "linear_central_wavelet", "eval_linear", "eval_cubic") and t is not None:
                    return self.call(t, [self.expr(a, env, fn, depth) for a in call_args(n)], depth + 1)
            return base(n)
        return res


def _mode(f):
    return (f.d.get("targs") or "").split(",")[0].strip()


def _pair(db, name):
    fs = db.fns(RW + name)
    by = {_mode(f): f for f in fs}
    if "0" not in by or "1" not in by:
        from tsg.build import AnalysisBroken
        raise AnalysisBroken("RuleWavelet::%s: both instantiations (value and derivative) expected" % name)
    return by["0"], by["1"]


def linear_rule(chk, db, rule_id, max_level=5):
    """order 1: d/dx eval_linear<0> == eval_linear<1> between the kinks"""
    pe = WPEval(db)
    f0, f1 = _pair(db, "eval_linear")
    chk.saw(f0)
    chk.saw(f1)
    n = 0
    for point in range(3, 2 ** max_level + 2):
        try:
            v = pe.call(f0, [sympy.Integer(point), X])
            d = pe.call(f1, [sympy.Integer(point), X])
        except NotClosedForm as e:
            chk.ob(rule_id, f1.key, "linear wavelet %d has closed forms" % point, False, f1.where, "not analysable: %s" % e)
            n += 1
            continue
        dv = sympy.diff(v, X)
        bad = []
        # abscissae between all kinks: the kinks of a level-l wavelet lie on multiples of 2^-(l+2)
        den = 2 ** (max_level + 4)
        for kx in range(-den + 1, den, 2):          # odd numerators: never a kink
            xv = sympy.Rational(kx, den)
            a, b = dv.subs(X, xv), d.subs(X, xv)
            if sympy.simplify(a - b) != 0:
                bad.append("x = %s: d/dx value = %s, derivative routine = %s" % (xv, a, b))
                break
        n += 1
        chk.ob(rule_id, f1.key, "linear wavelet %d: derivative routine == d/dx value routine at %d abscissae between the kinks" % (point, den), not bad, f1.where, "; ".join(bad),
               "d/dx eval_linear<0>(point, x)")
    return n


def cubic_rule(chk, db, rule_id, max_point=None, max_level=6):
    pe = WPEval(db)
    f0, f1 = _pair(db, "eval_cubic")
    chk.saw(f0)
    chk.saw(f1)
    n = 0
    for point in range(0, max_point or (2 ** max_level + 1)):
        try:
            v = pe.call(f0, [sympy.Integer(point), X])
            d = pe.call(f1, [sympy.Integer(point), X])
        except NotClosedForm as e:
            chk.ob(rule_id, f1.key, "cubic wavelet %d is a composition of the table interpolation" % point, False, f1.where, "not analysable: %s" % e)
            n += 1
            continue
        problems = []
        # split off shortcuts on isolated abscissae
        general = d
        if isinstance(d, sympy.Piecewise):
            general = None
            for val, cond in d.args:
                if cond is sympy.true or cond == True:      # noqa: E712
                    general = val
                elif isinstance(cond, sympy.Eq) and cond.lhs == X and cond.rhs.is_number:
                    a = cond.rhs
                    if (point, a) not in JUSTIFIED_SHORTCUTS and (point, int(a) if a == int(a) else a) not in JUSTIFIED_SHORTCUTS:
                        problems.append("the derivative is replaced by %s at x == %s: no such shortcut is justified for point %d" % (val, a, point))
                    elif val != 0:
                        problems.append("shortcut at x == %s returns %s" % (a, val))
                else:
                    problems.append("derivative branches on %s" % cond)
            if general is None:
                problems.append("no general derivative branch")
        if isinstance(v, sympy.Piecewise):
            problems.append("the value routine branches on x: %s" % str(v)[:80])
        if general is not None and not isinstance(v, sympy.Piecewise):
            i0 = list(v.atoms(sympy.Function)) if hasattr(v, "atoms") else []
            i0 = [a for a in v.atoms(sympy.core.function.AppliedUndef) if a.func == I0]
            i1 = [a for a in general.atoms(sympy.core.function.AppliedUndef) if a.func == I1]
            if len(i0) != 1 or len(i1) != 1 or sympy.simplify(v - i0[0]) != 0:
                problems.append("value form %s / derivative form %s are not single table interpolations" % (str(v)[:60], str(general)[:60]))
            else:
                T0, u0 = i0[0].args
                T1, u1 = i1[0].args
                c = sympy.simplify(general / i1[0])
                if T0 != T1:
                    problems.append("value reads %s, derivative reads %s" % (T0, T1))
                if sympy.simplify(u0 - u1) != 0:
                    problems.append("value argument %s, derivative argument %s" % (u0, u1))
                if sympy.simplify(c - sympy.diff(u0, X)) != 0:
                    problems.append("chain-rule factor %s, d/dx of the argument is %s" % (c, sympy.diff(u0, X)))
        n += 1
        chk.ob(rule_id, f1.key, "cubic wavelet %d: derivative == (du/dx) * I'(table, u) for the value I(table, u)" % point, not problems, f1.where, "; ".join(problems[:2]))
    return n


def interpolate_rule(chk, db, rule_id):
    """interpolate<1> returns d/dx of what interpolate<0> returns (cubic Lagrange form through four table nodes)"""
    g0, g1 = _pair(db, "interpolate")
    forms = {}
    for g in (g0, g1):
        chk.saw(g)
        xparam = g.params()[1]["did"]
        env = {}

        def res(n, env=env, xparam=xparam):
            k = n.get("k")
            if k == "DeclRefExpr" and n.get("did") == xparam:
                return X
            if k == "DeclRefExpr" and n.get("did") in env:
                return env[n["did"]]
            if k == "DeclRefExpr" and "cv" in n:
                return sympy.Integer(int(n["cv"]))
            if k == "ArraySubscriptExpr":
                b, i = strip(n["c"][0]), strip(n["c"][1])
                if b is not None and b.get("k") == "DeclRefExpr" and i is not None and i.get("k") == "IntegerLiteral":
                    return sympy.Symbol("%s_%s" % (b.get("var"), i.get("val")), real=True)
            return None
        # locals dx0.. and the product helpers, in order
        rets = []
        for st in g.walk():
            if st.get("k") == "VarDecl" and st.get("t", "").replace("const ", "").strip() in ("double", "double const") and st.get("c"):
                try:
                    env[st["did"]] = to_sympy(st["c"][0], res)
                except NotClosedForm:
                    pass
            elif st.get("k") == "ReturnStmt" and st.get("c"):
                try:
                    rets.append(to_sympy(st["c"][0], res))
                except NotClosedForm:
                    pass
        rets = [r for r in rets if r.free_symbols - {X}]
        from tsg.flow import is_reachable
        forms[_mode(g)] = [r for r in rets]
    ok = False
    detail = "value forms %d, derivative forms %d" % (len(forms.get("0", [])), len(forms.get("1", [])))
    if forms.get("0") and forms.get("1"):
        v = [r for r in forms["0"] if sympy.degree(sympy.expand(r), X) == 3]
        d = [r for r in forms["1"] if sympy.degree(sympy.expand(r), X) == 2]
        ok = bool(v) and bool(d) and sympy.expand(sympy.diff(v[0], X) - d[0]) == 0
        detail = "d/dx of the cubic through (xs_0..xs_3) %s the derivative form" % ("equals" if ok else "differs from")
    chk.ob(rule_id, g1.key, "interpolate<1>(y, x) == d/dx interpolate<0>(y, x)", ok, g1.where, detail)
    return 1
