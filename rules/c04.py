"""C04  All documented routes to the same quantity agree (closed-form and structural clauses)."""
import sympy

from tsg.facts import DB, strip, txt, callee, call_args, call_object, walk, const_val, short, callee_node
from tsg.flow import var_of, cond_edges_dominating
from tsg.peval import PEval
from tsg.sym import NotClosedForm, to_sympy
from tsg.typestate import member_writes, must_pass_after
from tsg.effects import Effects
from tsg.build import AnalysisBroken

RL = "TasGrid::RuleLocal::"
HPP = "SparseGrids/tsgRuleLocalPolynomial.hpp"
X = sympy.Symbol("x", real=True)
POINTS = list(range(0, 13))
LP = "TasGrid::GridLocalPolynomial"


def insts(db, name):
    return {f.d.get("targs", "").rsplit("::", 1)[-1]: f for f in db.fns(RL + name, [HPP]) if f.d.get("targs")}


def tree_fresh(chk, db, rule_id):
    """GridLocalPolynomial: after the loaded point set changes, the evaluation tree (roots, pntr, indx, top_level) is rebuilt before the method returns"""
    eff = Effects(db)
    n = 0
    for f in db.all_functions(["SparseGrids/tsgGridLocalPolynomial.cpp", "SparseGrids/tsgGridLocalPolynomial.hpp"]):
        if f.cls != LP or f.d.get("const") or f.d.get("isctor") or f.d.get("islambda"):
            continue
        # a merge changes the set; relabelling needed as points (points = move(needed) on an empty grid) keeps the set the tree was built for
        pw = [w for w, fld, kd in member_writes(f, into_lambda=False) if short(fld) == "points" and (kd == "update" or "+=" in txt(w))]
        pw = [w for w in pw if not txt(w).endswith("MultiIndexSet()") and "move(" not in txt(w)]
        if not pw:
            continue
        chk.saw(f)
        rebuild = set()
        for c, t in eff.this_calls(f):
            if t.name.endswith("::buildTree") or any(tt.name.endswith("::buildTree") for _, tt in eff.this_calls(t)):
                rebuild.add(c["id"])
        for w in pw:
            n += 1
            ok = must_pass_after(f, w, lambda x: x.get("id") in rebuild)
            chk.ob(rule_id, f.key, "tree rebuilt after `%s`" % txt(w)[:50], bool(ok), f.loc(w),
                   "" if ok else "a path returns with a changed point set but the old roots/pntr/indx: evaluate, the sparse basis and setHierarchicalCoefficients walk a stale tree")
    # while nothing is loaded the tree describes the needed points: emptying them (not relabelling them as loaded points) needs a rebuild or a reset of the tree as well
    from tsg.flow import cond_edges_dominating as _ced
    from tsg.typestate import must_pass_before as _mpb
    for f in db.all_functions(["SparseGrids/tsgGridLocalPolynomial.cpp", "SparseGrids/tsgGridLocalPolynomial.hpp"]):
        if f.cls != LP or f.d.get("const") or f.d.get("isctor") or f.d.get("islambda"):
            continue
        mw = list(member_writes(f, into_lambda=False))
        nw = [w for w, fld, kd in mw if short(fld) == "needed" and kd == "assign" and txt(w).replace(" ", "").endswith("MultiIndexSet()")]
        relabel = [w for w, fld, kd in mw if short(fld) == "points" and "move(" in txt(w) and "needed" in txt(w)]
        tree_w = [w for w, fld, kd in mw if short(fld) in ("roots", "pntr", "indx")]
        rebuild = {c["id"] for c, t in eff.this_calls(f) if t.name.endswith("::buildTree") or any(tt.name.endswith("::buildTree") for _, tt in eff.this_calls(t))}
        for w in nw:
            # loaded points are known to exist on this path, or the needed points were just relabelled as loaded: the tree still describes `points`
            known = any((("points.empty()" in txt(c_) and "!" not in txt(c_).split("points.empty()")[0][-2:] and not tr) or ("!points.empty()" in txt(c_).replace(" ", "") and tr)) for c_, tr in _ced(f, w))
            if known or any(_mpb(f, w, lambda x, r=r: x is r) for r in relabel):
                continue
            pts_w = [x for x, fld, kd in mw if short(fld) == "points"]
            if pts_w and must_pass_after(f, w, lambda x: any(x is p_ for p_ in pts_w)):
                continue        # the loaded points are rewritten on every path afterwards: they, not the dropped needed points, decide the tree (first part of the rule)
            n += 1
            chk.saw(f)
            # `if (points.empty()) { reset / rebuild }`: the test itself is the decision, on its false edge the tree describes the loaded points
            tests = []
            for a in f.walk(into_lambda=False):
                if a.get("k") == "IfStmt" and a.get("cond") is not None and a.get("then") is not None and txt(strip(a["cond"])).replace("this->", "") == "points.empty()" and \
                        any(x.get("id") in rebuild or any(x is t_ for t_ in tree_w) for x in walk(a["then"])):
                    tests += [a["cond"]] + list(walk(a["cond"]))
            ok = must_pass_after(f, w, lambda x: x.get("id") in rebuild or any(x is t_ for t_ in tree_w) or any(x is t_ for t_ in tests)) or \
                any(_mpb(f, w, lambda x, c_=c_: x.get("id") == c_) for c_ in rebuild)
            chk.ob(rule_id, f.key, "tree rebuilt or reset after `%s` when nothing is loaded" % txt(w)[:40], bool(ok), f.loc(w),
                   "" if ok else "with no loaded points the tree describes the needed points; they are dropped and roots/pntr/indx keep their size: write() stores a tree that the reader, "
                   "which sizes it by the points, cannot read back")
    return n


def argmin_rule(chk, db, rule_id):
    """argmin loops that record an index: `if (.. X[i] < best) { idx = i; best = X[i]; }` find every element only if `best` starts strictly above the
    maximum of X.  Where the function computes that maximum (M = *max_element(X...)), the initial value minus M must be >= 1."""
    import sympy
    from tsg.sym import to_sympy, NotClosedForm
    n = 0
    libfns = [f for fs_ in db.load_all().values() for f in fs_ if not f.file.startswith("@verif") and "test" not in f.file.lower()]
    for f in libfns:
        loc = {v["did"]: v for v in f.locals().values() if "did" in v}
        # M = *max_element(X.begin(), X.end())  (member or local M)
        maxes = {}
        for q in f.walk(into_lambda=False):
            if q.get("k") in ("BinaryOperator", "VarDecl") :
                rhs = q["c"][1] if q.get("k") == "BinaryOperator" and q.get("op") == "=" else (q["c"][0] if q.get("k") == "VarDecl" and q.get("c") else None)
                if rhs is None:
                    continue
                me = next((x for x in walk(rhs) if (callee(x) or "") == "std::max_element"), None)
                if me is not None:
                    cont = txt(strip(call_object(strip(call_args(me)[0])) or {})) if strip(call_args(me)[0]).get("k") == "CXXMemberCallExpr" else None
                    name = txt(strip(q["c"][0])) if q.get("k") == "BinaryOperator" else q.get("name")
                    if cont and name:
                        maxes[cont] = name
        if not maxes:
            continue
        for q in f.walk(into_lambda=False):
            if q.get("k") != "IfStmt" or not any(a.get("k") in ("ForStmt", "WhileStmt") for a in f.ancestors(q)):
                continue
            for c in walk(q.get("cond")):
                if c.get("k") != "BinaryOperator" or c.get("op") != "<":
                    continue
                elem, best = strip(c["c"][0]), strip(c["c"][1])
                if best is None or best.get("k") != "DeclRefExpr" or best.get("did") not in loc:
                    continue
                cont = None
                if elem is not None and elem.get("k") == "CXXOperatorCallExpr" and elem.get("op") == "[]":
                    cont = txt(strip([x for x in elem["c"] if isinstance(x, dict)][-2]))
                if cont not in maxes:
                    continue
                body_asg = [a for a in walk(q.get("then")) if a.get("k") == "BinaryOperator" and a.get("op") == "="]
                takes_value = any(strip(a["c"][0]).get("did") == best["did"] and txt(strip(a["c"][1])) == txt(elem) for a in body_asg)
                records_index = any(strip(a["c"][0]).get("did") != best["did"] and strip(a["c"][0]).get("k") == "DeclRefExpr" for a in body_asg)
                if not (takes_value and records_index):
                    continue
                d = loc[best["did"]]
                ini = [x for x in d.get("c", []) if isinstance(x, dict)]
                n += 1
                chk.saw(f)
                M = sympy.Symbol("M", integer=True)
                ok, detail = False, "no initial value"
                if ini:
                    def res(node, name=maxes[cont]):
                        if txt(strip(node) or {}) == name or (node.get("k") == "MemberExpr" and short(node.get("field") or "") == name):
                            return M
                        return None
                    try:
                        e = to_sympy(ini[0], res)
                        diff = sympy.simplify(e - M)
                        ok = bool(diff.is_number and diff >= 1)
                        detail = "initial value %s = max + %s" % (txt(ini[0]), diff)
                    except NotClosedForm as ex:
                        detail = "initial value %s is not a closed form over the maximum (%s)" % (txt(ini[0]), ex)
                chk.ob(rule_id, f.key, "argmin over `%s` starts above its maximum `%s`" % (cont, maxes[cont]), ok, f.loc(q), detail,
                       "initial value >= max + 1, otherwise the elements on the top level are never selected")
    return n


def run(chk):
    db = DB("serial")
    db.load_all()
    pe = PEval(db)
    chk.rule("C04-D1.support", "for every local rule and point class: the canonical coordinate of the basis vanishes at the node and has slope 1/getSupport, the basis is 0 outside |xn| <= 1; "
                               "bases without a compact-support test are reported with a radius that reaches the end of the domain from their node")
    chk.rule("C04-D2.sparse", "the sparse hierarchical matrix is derived from the same tree walk / dense matrix as the dense one: both LocalPolynomial builders share buildSparseMatrixBlockForm, "
                              "the wavelet builders drop exactly the entries equal to 0.0")
    chk.rule("C04-D3.values", "setHierarchicalCoefficients of every family (except Global) overwrites the stored values with the surrogate evaluated at the nodes on every path")
    chk.rule("C04-D4.area", "the tabulated basis integrals (getArea, orders 1-3) equal the exact integral of the closed-form basis over the domain")
    chk.rule("C04-D5.blocks", "blocked loops over a batch cover it exactly: the block sizes computed from (num_x, chunk) are positive and add up to num_x for every batch size")
    chk.rule("C04-D6.tree", "GridLocalPolynomial rebuilds its evaluation tree whenever the loaded point set changes (all tree-walk routes read it)")

    ES, SX, GN, GS, GA = insts(db, "evalSupport"), insts(db, "scaleX"), insts(db, "getNode"), insts(db, "getSupport"), insts(db, "getArea")
    nsup = 0
    narea = 0
    for r in sorted(set(ES) & set(GN) & set(GS)):
        if r == "pwc":
            continue
        chk.saw(ES[r])
        chk.saw(GS[r])
        bad = []
        badarea = []
        for order in (1, 2, 3):
            if r == "semilocalp" and order == 1:
                continue
            for p in POINTS:
                try:
                    e = pe.call(ES[r], [sympy.Integer(order), sympy.Integer(p), X, None])
                    node = pe.call(GN[r], [sympy.Integer(p)])
                    sup = pe.call(GS[r], [sympy.Integer(p)])
                except NotClosedForm:
                    continue
                nsup += 1
                inner, lo, hi = e, sympy.Integer(-1), sympy.Integer(1)
                if isinstance(e, sympy.Piecewise):
                    inner, cond = e.args[0]
                    outside = e.args[1][0]
                    if outside != 0:
                        bad.append("order %d point %d: value outside the support is %s" % (order, p, outside))
                    ab = [a for a in cond.atoms(sympy.Abs)]
                    if len(ab) != 1:
                        bad.append("order %d point %d: support test %s not of the form |xn| <= 1" % (order, p, cond))
                        continue
                    xn = ab[0].args[0]
                    if sympy.simplify(xn.subs(X, node)) != 0:
                        bad.append("order %d point %d: canonical coordinate %s is %s at the node %s" % (order, p, xn, xn.subs(X, node), node))
                    if sympy.simplify(sympy.diff(xn, X) - 1 / sup) != 0:
                        bad.append("order %d point %d: basis supported on radius %s but getSupport reports %s" % (order, p, 1 / sympy.diff(xn, X), sup))
                    lo = sympy.Max(-1, sympy.solve(sympy.Eq(xn, -1), X)[0])
                    hi = sympy.Min(1, sympy.solve(sympy.Eq(xn, 1), X)[0])
                    x0 = sympy.solve(sympy.Eq(xn, 0), X)[0]
                    pieces = [(lo, x0, inner.subs(ab[0], -xn)), (x0, hi, inner.subs(ab[0], xn))]
                else:
                    # no compact-support test: the function lives on the whole domain
                    if e != 0 and sympy.simplify(e) != 0:
                        reach = sympy.Max(sympy.Abs(1 - node), sympy.Abs(-1 - node))
                        if sup < reach:
                            bad.append("order %d point %d: basis %s is supported on the whole domain (distance %s from its node %s) but getSupport reports %s" % (order, p, e, reach, node, sup))
                    pieces = [(lo, hi, e)]
                # D4
                if r in GA:
                    try:
                        area = pe.call(GA[r], [sympy.Integer(order), sympy.Integer(p), None, None])
                    except NotClosedForm:
                        continue
                    narea += 1
                    integ = sum(sympy.integrate(ex, (X, a, b)) for a, b, ex in pieces if a < b)
                    if sympy.simplify(integ - area) != 0:
                        badarea.append("order %d point %d: integral of the basis is %s, getArea returns %s" % (order, p, integ, area))
        chk.ob("C04-D1.support", "RuleLocal<%s>" % r, "support of every point class 0..12, orders 1-3", not bad, GS[r].where, "; ".join(bad[:2]) if bad else "")
        if r in GA:
            chk.saw(GA[r])
            chk.ob("C04-D4.area", "RuleLocal<%s>" % r, "getArea == integral of the basis, points 0..12, orders 1-3", not badarea, GA[r].where, "; ".join(badarea[:2]) if badarea else "")
    chk.floor("C04-D1.support", nsup, 100, "basis closed forms")
    chk.floor("C04-D4.area", narea, 100, "tabulated basis integrals")
    chk.note("C04-D1.support", "SparseGrids/tsgRuleWavelet.cpp", "RuleWavelet::getSupport is table driven: not analysable as a closed form")

    # ------------------------------------------------------------------ D2
    for nm in ("buildSpareBasisMatrix", "buildSpareBasisMatrixStatic"):
        f = db.fn(LP + "::" + nm)
        chk.saw(f)
        ok = any((callee(c) or "").endswith("::buildSparseMatrixBlockForm") for c in f.calls())
        chk.ob("C04-D2.sparse", f.name, "built from buildSparseMatrixBlockForm", ok, f.where)
    bf = db.fn(LP + "::buildSparseMatrixBlockForm")
    wt = [c for c in bf.calls() if (callee(c) or "").endswith("::walkTree")]
    chk.ob("C04-D2.sparse", bf.name, "block form uses the tree walk in sparse mode on the same point set", len(wt) == 1 and (callee_node(wt[0]) or {}).get("targs", "").startswith("1"), bf.where)
    nzw = 0
    for f in db.all_functions(["SparseGrids/TasmanianSparseGrid.cpp"]):
        if f.cls == "TasGrid::TasmanianSparseGrid" and "evaluateSparseHierarchicalFunctions" in f.name and "GPU" not in f.name:
            comps = [x for x in f.walk() if x.get("k") == "BinaryOperator" and x.get("op") in ("!=", "==", ">", "<", ">=", "<=") and const_val(x["c"][1]) == 0 and "dense_vals" in txt(x["c"][0]) or
                     (x.get("k") == "BinaryOperator" and x.get("op") in ("!=", "==", ">", "<") and txt(strip(x["c"][0])).startswith("v[") and "double" in (strip(x["c"][0]) or {}).get("t", ""))]
            counts = [c for c in f.calls("std::count") if "dense_vals" in txt(c)]
            if not comps and not counts:
                continue
            nzw += 1
            chk.saw(f)
            ok = all(x["op"] == "!=" for x in comps) and all(txt(strip(call_args(c)[2])) in ("0", "0.0") for c in counts)
            chk.ob("C04-D2.sparse", f.name + f.sig, "derived from the dense matrix keeping exactly the entries != 0", ok and any((callee(c) or "").endswith("::evaluateHierarchicalFunctions") for c in f.calls()), f.where,
                   str([txt(x) for x in comps][:3] + [txt(c)[:60] for c in counts]))
    chk.floor("C04-D2.sparse", nzw, 2, "wavelet sparse builders")

    # ------------------------------------------------------------------ D3
    nsh = 0
    for g in ("LocalPolynomial", "Sequence", "Wavelet", "Fourier"):
        for f in db.fns("TasGrid::Grid%s::setHierarchicalCoefficients" % g):
            chk.saw(f)
            nsh += 1
            cw = [w for w, fld, kd in member_writes(f) if short(fld) in ("surpluses", "coefficients", "fourier_coefs")]
            ev = {c["id"] for c in f.calls() if (callee(c) or "").endswith(("::evaluateBatch", "::evaluate"))}
            vw = [w for w, fld, kd in member_writes(f) if short(fld) == "values"]
            ok = bool(cw) and bool(ev) and bool(vw) and all(must_pass_after(f, w, lambda x: x.get("id") in ev) for w in cw) and \
                all(must_pass_after(f, w, lambda x: any(x is v for v in vw)) for w in cw)
            chk.ob("C04-D3.values", f.name, "values := surrogate at the nodes after the coefficients are replaced", ok, f.where,
                   "%d coefficient write(s), %d evaluate call(s), %d value write(s)" % (len(cw), len(ev), len(vw)))
    chk.floor("C04-D3.values", nsh, 4, "setHierarchicalCoefficients implementations")

    # ------------------------------------------------------------------ D5 block partition
    nblk = 0
    for fns in db.load_all().values():
        for f in fns:
            if not f.file.startswith("SparseGrids/") or f.d.get("islambda"):
                continue
            loc = {d.get("name"): d for d in f.locals().values() if d.get("name")}
            nb = loc.get("num_blocks")
            cs = loc.get("chunk_size")
            if nb is None or cs is None or not nb.get("c") or not cs.get("c"):
                continue
            nblk += 1
            chk.saw(f)
            bad = []
            try:
                for C in (1, 7, 32):
                    for N in list(range(1, 100)) + [127, 128, 129, 256]:
                        def res(n, N=N, C=C, env={}):
                            if n.get("k") == "DeclRefExpr":
                                v = n.get("var")
                                if v in ("num_x", "num_points", "num_rows", "n"):
                                    return sympy.Integer(N)
                                if v == "num_chunk":
                                    return sympy.Integer(C)
                                if v in env:
                                    return env[v]
                            if n.get("k") == "BinaryOperator" and n.get("op") == "%":
                                return None
                            return None
                        env = {}

                        def resolver(n, N=N, C=C):
                            if n.get("k") == "DeclRefExpr":
                                v = n.get("var")
                                if v in env:
                                    return env[v]
                                if v == "num_chunk":
                                    return sympy.Integer(C)
                                if "did" in n and v not in ("b",):
                                    d = f.locals().get(n["did"])
                                    if d is None or n.get("parm"):
                                        return sympy.Integer(N)      # the batch size parameter
                            if n.get("k") == "BinaryOperator" and n.get("op") == "%":
                                a, bb = to_sympy(n["c"][0], resolver), to_sympy(n["c"][1], resolver)
                                return sympy.Integer(int(a) % int(bb))
                            return None
                        K = int(to_sympy(nb["c"][0], resolver))
                        env["num_blocks"] = sympy.Integer(K)
                        total = 0
                        for b in range(K):
                            env["b"] = sympy.Integer(b)
                            s = int(to_sympy(cs["c"][0], resolver))
                            if s <= 0 or s > C:
                                bad.append("batch of %d, chunk %d: block %d has size %d" % (N, C, b, s))
                            total += s
                        if total != N:
                            bad.append("batch of %d, chunk %d: blocks cover %d rows" % (N, C, total))
            except (NotClosedForm, TypeError, ValueError) as e:
                chk.note("C04-D5.blocks", f.where, "block size expressions not analysable: %s" % e)
                continue
            chk.ob("C04-D5.blocks", f.key, "blocks partition the batch", not bad, f.loc(cs), "; ".join(bad[:2]) if bad else "")
    chk.floor("C04-D5.blocks", nblk, 1, "blocked batch loops")

    # ------------------------------------------------------------------ D6
    nt = tree_fresh(chk, db, "C04-D6.tree")
    chk.floor("C04-D6.tree", nt, 4, "changes of the loaded point set in GridLocalPolynomial")
    na = argmin_rule(chk, db, "C04-D6.tree")
    chk.floor("C04-D6.tree", na, 1, "index-recording argmin loops with a known maximum (root search of buildTree)")

    from rules import dispatch
    chk.rule("C04-D7.dispatch", "every switch(effective_rule) instantiates, in each case, the templates for the rule of that case: all routes of one grid use the same hierarchy and basis")
    ndsp = dispatch.dispatch_rule(chk, db, "C04-D7.dispatch")
    chk.floor("C04-D7.dispatch", ndsp, 15, "rule-dispatch switches")
    from rules import complete
    nc8 = complete.complete_rule(chk, db, "C04-D8.complete")       # evaluate() (surpluses) and weights . values (no surpluses) part ways when the flag is wrong
    chk.floor("C04-D8.complete", nc8, 5, "fallback loops in computeDAGup (instantiations)")
    # differentiate() and getDifferentiationWeights() apply the chain rule of the domain transform separately: both must scale the entry of dimension j by the factor of dimension j
    chk.rule("C04-D9.chain", "the two routes to a derivative under a domain transform (differentiate, differentiation weights) apply the factor of dimension j to the entries of dimension j "
                             "with the documented layout (obligations of C10-D4)")
    from rules import c10
    from tsg.report import Check as _Check
    sub10 = _Check("C10", chk.tier, chk.seed)
    c10.run(sub10)
    chk.absorb(sub10)
    nch = 0
    for o in sub10.obls:
        if o["rule"] == "C10-D4.chain":
            nch += 1
            chk.ob("C04-D9.chain", o["function"], o["construct"], o["ok"], o["where"], o["detail"], o["expected"])
    chk.floor("C04-D9.chain", nch, 2, "chain-rule scaling sites shared with C10")
    chk.rule("C04-D15.canonical", "every route of the API class hands its canonical coordinates to the grid object only: the dense, sparse and static-sparse hierarchical routines, evaluate and the "
                                  "weights see the same (once transformed) abscissae, so the routes of the property can agree under a domain or conformal transform (obligations of C10-D10)")
    ncn = 0
    for o in sub10.obls:
        if o["rule"] == "C10-D10.canonical":
            ncn += 1
            chk.ob("C04-D15.canonical", o["function"], o["construct"], o["ok"], o["where"], o["detail"], o["expected"])
    chk.floor("C04-D15.canonical", ncn, 10, "consumers of canonical coordinates (shared with C10)")
    from rules import restart
    nrs = restart.restart_rule(chk, db, "C04-D11.restart")
    chk.floor("C04-D11.restart", nrs, 6, "restart-loop obligations of the wavelet solver (instantiations)")
    # evaluate(x) == interpolation weights times values needs the coefficients of the Kronecker algorithm to be computed with the basis that evaluate uses
    from rules import vander
    chk.rule("C04-D12.vandermonde", "the 1-D matrices of the Kronecker coefficient algorithm (van_matrix) hold values of the same basis functions that evaluate()/evaluateHierarchicalFunctions() use: "
                                    "every entry is evalRaw<rule>(max_order, column, node of the row) or the literal one where that function is one (obligations of C01-D5)")
    nv4 = vander.van_rule(chk, db, "C04-D12.vandermonde")
    chk.floor("C04-D12.vandermonde", nv4, 30, "paired appends in van_matrix")
    from rules import kinds
    chk.rule("C04-D13.kinds", "integrate() multiplies like with like in every grid class: quadrature weights with the values stored at the nodes, integrals of the basis functions with the hierarchical "
                              "coefficients (kind inference over the locals of the five integrate() routines; obligations shared with C10-D8)")
    nk4 = kinds.kinds_rule(chk, db, "C04-D13.kinds")
    chk.floor("C04-D13.kinds", nk4, 8, "products accumulated by the integrate() routines of the grid classes")
    # differentiate(x) == differentiation weights times values: both routes assemble the gradient of a tensor basis by the product rule
    from rules import product
    from tsg.sym import NotClosedForm as _NCF
    chk.rule("C04-D14.diffweights", "the differentiation weights of the Sequence, Global and Fourier grids are assembled by the product rule over the directions (loop nests folded for "
                                    "num_dimensions = 1..4 with the one dimensional values and derivatives as symbols): component k is D_k * prod_{j != k} V_j, as in differentiate() "
                                    "(obligations of C05-D5.product for the weight routines)")
    ndw = 0
    for name in ("TasGrid::GridSequence::getDifferentiationWeights", "TasGrid::GridGlobal::getDifferentiationWeights", "TasGrid::GridSequence::differentiate"):
        ndw += sum(product.product_rule(chk, db, "C04-D14.diffweights", f_) for f_ in db.fns(name, required=False))
    try:
        ndw += product.fourier_weights_rule(chk, db, "C04-D14.diffweights")
    except _NCF as e:
        raise AnalysisBroken("C04-D14: %s" % e)
    chk.floor("C04-D14.diffweights", ndw, 12, "folded product-rule nests of the weight routines")
    # integrate(), sum of quadrature weights times values, and coefficients times integrateHierarchicalFunctions() are documented to agree
    from rules import routing
    nrt = routing.routing_rule(chk, db, "C04-D10.integrals", only=("integral",))
    chk.floor("C04-D10.integrals", nrt, 3, "forwarding calls of the integral family")

    return ("Static rule discharge: closed forms of the local bases (partial evaluation) give the support identities and the exact basis integrals; the sparse/dense builders are siblings of "
            "one tree walk; coefficient overwrites recompute the stored values on every path; block partitions are evaluated as closed forms over batch sizes; the evaluation tree is rebuilt "
            "after every change of the loaded points. Numerical equality of the routes for every state and x is not decided.")
