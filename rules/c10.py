"""C10  Domain transforms act as an exact change of variables (structural + symbolic clauses)."""
import sympy

from tsg.facts import DB, strip, txt, callee, call_args, call_object, walk, const_val, short
from tsg.flow import var_of, is_reachable, cond_edges_dominating
from tsg.sym import to_sympy, NotClosedForm
from tsg.build import AnalysisBroken

TSG = "TasGrid::TasmanianSparseGrid"
CPP = "SparseGrids/TasmanianSparseGrid.cpp"
HPP = "SparseGrids/TasmanianSparseGrid.hpp"

A, B, X, ALPHA, BETA = sympy.symbols("a b x alpha beta", real=True)


def rule_sets(cond):
    """enumerators named in a disjunction of  rule == rule_xxx  tests (None when not of that form)"""
    out = set()
    s = strip(cond, casts=False)
    if s is None:
        return None
    if s.get("k") == "BinaryOperator" and s.get("op") in ("||",):
        a, b = rule_sets(s["c"][0]), rule_sets(s["c"][1])
        if a is None or b is None:
            return None
        return a | b
    if s.get("k") == "BinaryOperator" and s.get("op") == "==":
        e = [strip(x) for x in s["c"]]
        en = [x for x in e if x.get("k") == "DeclRefExpr" and "enumc" in x]
        if len(en) == 1:
            return {short(en[0]["enumc"])}
    return None


def chain(fn, start=None):
    """if / else-if chain on the rule: list of (enumerator set | 'else', body node)"""
    for n in walk(start or fn.body, into_lambda=False):
        if n.get("k") == "IfStmt" and rule_sets(n.get("cond")) is not None:
            res = []
            cur = n
            while cur is not None and cur.get("k") == "IfStmt":
                rs = rule_sets(cur.get("cond"))
                if rs is None:
                    break
                res.append((frozenset(rs), cur.get("then")))
                els = cur.get("else")
                if els is not None and els.get("k") != "IfStmt":
                    res.append(("else", els))
                    cur = None
                else:
                    cur = els
            return res
    return None


def make_resolver(env):
    def res(n):
        k = n.get("k")
        if k in ("CXXOperatorCallExpr", "ArraySubscriptExpr") and (n.get("op") == "[]" or k == "ArraySubscriptExpr"):
            bt = txt(strip(n["c"][1] if k == "CXXOperatorCallExpr" else n["c"][0]))
            if bt == "domain_transform_a":
                return A
            if bt == "domain_transform_b":
                return B
        if k == "CXXMemberCallExpr" and (callee(n) or "").endswith("::getAlpha"):
            return ALPHA
        if k == "CXXMemberCallExpr" and (callee(n) or "").endswith("::getBeta"):
            return BETA
        if k in ("CXXOperatorCallExpr", "ArraySubscriptExpr") and (n.get("op") == "[]" or k == "ArraySubscriptExpr"):
            base = strip(n["c"][1] if k == "CXXOperatorCallExpr" else n["c"][0])
            nm = base.get("var") if base is not None else None
            if nm in env:
                return env[nm]
            if nm == "x":
                return X
        if k == "DeclRefExpr" and n.get("var") in env:
            return env[n["var"]]
        return None
    return res


def interpret(body, out_names):
    """symbolic effect of a branch body on x (compound assignments inside loops), after recording
    per-dimension helper arrays (rate[j] = ..., sqrt_b[j] = ...).  Returns dict name -> expr"""
    env = {}
    xexpr = X
    outs = {}
    for n in walk(body):
        k = n.get("k")
        if k == "VarDecl" and n.get("c") and n.get("t") in ("double", "float", "FloatType"):
            try:
                env[n["name"]] = to_sympy(n["c"][0], make_resolver(env))
            except NotClosedForm:
                env[n["name"]] = sympy.Symbol(n["name"] + "_eff")      # case split on the rule: opaque here, checked separately
        if k in ("BinaryOperator", "CompoundAssignOperator") and n.get("op") in ("=", "*=", "/=", "+=", "-="):
            lhs = strip(n["c"][0])
            name = None
            if lhs.get("k") in ("CXXOperatorCallExpr", "ArraySubscriptExpr"):
                b = strip(lhs["c"][1] if lhs.get("k") == "CXXOperatorCallExpr" else lhs["c"][0])
                name = b.get("var") if b is not None else None
            elif lhs.get("k") == "DeclRefExpr":
                name = lhs.get("var")
            if name is None:
                continue
            try:
                rhs = to_sympy(n["c"][1], make_resolver(env))
            except NotClosedForm as e:
                raise NotClosedForm("%s (line %s)" % (e, n.get("l")))
            op = n["op"]
            if name == "x":
                xexpr = {"=": rhs, "*=": xexpr * rhs, "/=": xexpr / rhs, "+=": xexpr + rhs, "-=": xexpr - rhs}[op]
            elif name in out_names:
                cur = outs.get(name, sympy.Integer(1))
                outs[name] = {"=": rhs, "*=": cur * rhs, "/=": cur / rhs, "+=": cur + rhs, "-=": cur - rhs}[op]
            else:
                cur = env.get(name, sympy.Integer(0))
                env[name] = {"=": rhs, "*=": cur * rhs, "/=": cur / rhs, "+=": cur + rhs, "-=": cur - rhs}[op]
    outs["x"] = xexpr
    return outs


def must_after(f, first, second):
    """True if `second` can execute after `first` in the CFG of f (used to exclude a loop that would re-order the calls)"""
    cfg = f.cfg
    b1, b2 = cfg.block_of(first), cfg.block_of(second)
    if b1 is None or b2 is None:
        return False
    if b1[0] == b2[0]:
        return b2[1] > b1[1]
    import networkx as nx
    return b2[0] in nx.descendants(cfg.G, b1[0])


def run(chk):
    db = DB("serial")
    db.load_all()
    chk.rule("C10-D1.partition", "every dispatcher on the rule (forward map, inverse map, Jacobian, quadrature scale, domain predicate) puts every TypeOneDRule enumerator into the same family "
                                 "{Laguerre, Hermite, Fourier, [-1,1]}; the Jacobi sub-family of the quadrature scale is exactly the eight Jacobi-type rules")
    chk.rule("C10-D2.algebra", "per family, as closed forms in (x, a, b): forward(inverse(x)) = x; the Jacobian used by differentiate is d(inverse)/dx; "
                               "the quadrature scale is (d forward/dx)^(1+w) with w the homogeneity of the rule's weight (alpha for Laguerre/Hermite, alpha+beta for Jacobi types, 0 otherwise); "
                               "the hierarchical support factor is |d forward/dx| of the [-1,1] family")
    chk.rule("C10-D3.domain", "the bounds tested by getDomainInside are the images of the canonical end points under the forward map of the family (a and b; a; none)")

    enum = [v["name"] for v in db.enum("TasGrid::TypeOneDRule")["values"]]
    fwd = db.fn(TSG + "::mapCanonicalToTransformed")
    invs = [f for f in db.fns(TSG + "::mapTransformedToCanonical") if f.d.get("targs") == "double"]
    if not invs:
        raise AnalysisBroken("mapTransformedToCanonical<double> not found")
    inv = invs[0]
    diffs = [f for f in db.fns(TSG + "::diffCanonicalTransform") if f.d.get("targs") == "double"]
    if not diffs:
        raise AnalysisBroken("diffCanonicalTransform<double> not found")
    dif = diffs[0]
    qs = db.fn(TSG + "::getQuadratureScale")
    # the accumulated factor is the local that getQuadratureScale returns, whatever it is called
    _rets = [q for r in qs.walk() if r.get("k") == "ReturnStmt" and r.get("c") for q in [strip(r["c"][0])] if q is not None and q.get("k") == "DeclRefExpr" and q.get("did") in qs.locals()]
    if not _rets:
        raise AnalysisBroken("getQuadratureScale does not return a local accumulator")
    SCALE = _rets[0].get("var")
    dom = db.fn(TSG + "::getDomainInside")
    for f in (fwd, inv, dif, qs, dom):
        chk.saw(f)

    chains = {"forward": chain(fwd), "inverse": chain(inv), "jacobian": chain(dif), "quadrature": chain(qs), "domain": chain(dom)}
    for k, v in chains.items():
        if not v:
            raise AnalysisBroken("no rule dispatch found in " + k)

    def family_of(ch, e):
        for rs, body in ch:
            if rs != "else" and e in rs:
                return "+".join(sorted(rs))
        return "else"
    ref = chains["forward"]
    JACOBI = None
    for name, ch in chains.items():
        mism = []
        for e in enum:
            fa, fb = family_of(ref, e), family_of(ch, e)
            if name == "quadrature" and fb != "else" and fa == "else":
                continue     # Jacobi sub-family, checked below
            if name == "domain" and fa == "rule_fourier":
                continue     # Fourier shares the bounded branch, distinguished by isFourier() in the canonical case
            if fa != fb:
                mism.append("%s: %s vs %s" % (e, fa, fb))
        chk.ob("C10-D1.partition", TSG + "::" + {"forward": "mapCanonicalToTransformed", "inverse": "mapTransformedToCanonical", "jacobian": "diffCanonicalTransform",
                                                 "quadrature": "getQuadratureScale", "domain": "getDomainInside"}[name],
               "rule partition agrees with the forward map", not mism, "", "; ".join(mism[:4]) if mism else "%d enumerators" % len(enum))
    jac = [rs for rs, b in chains["quadrature"] if rs != "else" and any("jacobi" in x or "chebyshev" in x or "gegenbauer" in x for x in rs)]
    want = {e for e in enum if e.startswith(("rule_gausschebyshev1", "rule_gausschebyshev2", "rule_gaussgegenbauer", "rule_gaussjacobi"))}
    chk.ob("C10-D1.partition", TSG + "::getQuadratureScale", "Jacobi sub-family is exactly the Jacobi-type rules", bool(jac) and set(jac[0]) == want, qs.where,
           "found %s, expected %s" % (sorted(jac[0]) if jac else None, sorted(want)))

    # ------------------------------------------------------------------ D2
    def per_family(ch, out_names=()):
        res = {}
        for rs, body in ch:
            key = "else" if rs == "else" else "+".join(sorted(rs))
            res[key] = interpret(body, out_names)
        return res
    try:
        F = per_family(chains["forward"])
        I = per_family(chains["inverse"])
        J = per_family(chains["jacobian"], ("jacobian_diag",))
        Q = per_family(chains["quadrature"], (SCALE,))
    except NotClosedForm as e:
        raise AnalysisBroken("transform bodies are no longer closed forms: %s" % e)
    pos = {A: sympy.Symbol("a", real=True), B: sympy.Symbol("b", positive=True)}
    nfam = 0
    for fam in F:
        f, i = F[fam]["x"], I.get(fam, {}).get("x")
        nfam += 1
        if i is None:
            chk.ob("C10-D2.algebra", "family " + fam, "inverse map exists", False, inv.where)
            continue
        comp = sympy.simplify(f.subs(X, i))
        chk.ob("C10-D2.algebra", "family " + fam, "forward(inverse(x)) == x", sympy.simplify(comp - X) == 0, fwd.where, "forward = %s ; inverse = %s ; composition = %s" % (f, i, comp))
        comp2 = sympy.simplify(i.subs(X, f))
        chk.ob("C10-D2.algebra", "family " + fam, "inverse(forward(x)) == x", sympy.simplify(comp2 - X) == 0, inv.where, "composition = %s" % comp2)
        jd = J.get(fam, {}).get("jacobian_diag")
        di = sympy.diff(i, X)
        chk.ob("C10-D2.algebra", "family " + fam, "Jacobian == d(inverse)/dx", jd is not None and sympy.simplify(jd - di) == 0, dif.where, "code: %s ; derivative of the inverse map: %s" % (jd, sympy.simplify(di)))
        df = sympy.diff(f, X)
        # quadrature scale
        qf = Q.get(fam)
        w = {"rule_gausslaguerre+rule_gausslaguerreodd": ALPHA, "rule_gausshermite+rule_gausshermiteodd": ALPHA}.get(fam, 0)
        if qf is not None and SCALE in qf:
            law = df ** (1 + w)
            ok = sympy.simplify(sympy.powsimp(sympy.expand_power_base(qf[SCALE] / law, force=True), force=True)) == 1
            if not ok:
                # numeric-free structural fallback: compare logarithms with positive symbols
                bb = sympy.Symbol("b", positive=True)
                aa = sympy.Symbol("a", positive=True)
                r = sympy.simplify(sympy.expand_log(sympy.log(qf[SCALE].subs({B: bb + aa, A: aa})) - sympy.log(law.subs({B: bb + aa, A: aa})), force=True))
                ok = r == 0
            chk.ob("C10-D2.algebra", "family " + fam, "quadrature scale == (d forward/dx)^(1+w)", ok, qs.where, "code: %s ; law: %s" % (qf[SCALE], sympy.simplify(law)))
    # Jacobi sub-family of the quadrature scale uses the [-1,1] forward map with w = alpha + beta
    if jac:
        key = "+".join(sorted(jac[0]))
        sc = Q[key][SCALE]
        df = sympy.diff(F["else"]["x"], X)
        # local alpha/beta of the function are symbols (their case split for Chebyshev is checked separately)
        al, be = sympy.Symbol("alpha_eff"), sympy.Symbol("beta_eff")
        body = [b for rs, b in chains["quadrature"] if rs != "else" and "+".join(sorted(rs)) == key][0]
        env = {"alpha": al, "beta": be, SCALE: sympy.Integer(1)}
        expr = None
        for n in walk(body):
            if n.get("k") == "CompoundAssignOperator" and n.get("op") == "*=" and txt(strip(n["c"][0])) == SCALE:
                expr = to_sympy(n["c"][1], make_resolver(env))
        bb, aa = sympy.Symbol("b", positive=True), sympy.Symbol("a", positive=True)
        ok = expr is not None and sympy.simplify(sympy.expand_log(sympy.log(expr.subs({B: bb + aa, A: aa})) - sympy.log((df ** (1 + al + be)).subs({B: bb + aa, A: aa})), force=True)) == 0
        chk.ob("C10-D2.algebra", "family jacobi", "quadrature scale == rate^(1+alpha+beta)", ok, qs.where, "code: %s" % expr)
        # effective alpha/beta of the Chebyshev variants
        decl = {d["name"]: d for d in walk(body) if d.get("k") == "VarDecl" and d.get("name") in ("alpha", "beta")}
        for nm, d in decl.items():
            t = txt(d)
            ok1 = "-0.5" in t.replace(" ", "") and "0.5" in t and "rule_gausschebyshev1" in t and "rule_gausschebyshev2" in t
            chk.ob("C10-D2.algebra", "family jacobi", "effective %s: -1/2 for Chebyshev-1, +1/2 for Chebyshev-2" % nm, ok1, qs.loc(d), t[:160])
    chk.floor("C10-D2.algebra", nfam, 4, "transform families")
    # support factor
    sup = db.fn(TSG + "::getHierarchicalSupport")
    chk.saw(sup)
    lam = [n for n in walk(sup.body) if n.get("k") == "LambdaExpr"]
    oks = False
    detail = ""
    if lam:
        rets = [r for r in walk(lam[0]) if r.get("k") == "ReturnStmt"]
        if rets:
            pn = [p["name"] for p in lam[0].get("params", [])]
            e = to_sympy(rets[0]["c"][0], lambda n: (A if n.get("var") == pn[0] else B if n.get("var") == pn[1] else None) if n.get("k") == "DeclRefExpr" else None)
            df = sympy.diff(F["else"]["x"], X)
            oks = sympy.simplify(e - df) == 0
            detail = "code: %s ; d forward/dx: %s" % (e, df)
    chk.ob("C10-D2.algebra", TSG + "::getHierarchicalSupport", "support scales by d forward/dx of the [-1,1] family", oks, sup.where, detail)

    # ------------------------------------------------------------------ D4 application of the chain rule
    chk.rule("C10-D4.chain", "where the diagonal Jacobian of the transform is applied, entry [row * num_dimensions + j] is multiplied by the factor of dimension j: "
                             "the minor index of the row-major entry is the index of the factor, the stride is the extent of that index, and the same entry is read and written")
    from tsg.sym import index_form
    nch = 0
    for f in db.all_functions([CPP]):
        if f.cls != TSG or f.name.rsplit("::", 1)[-1] not in ("differentiate", "getDifferentiationWeights"):
            continue
        # the diagonal of the transform Jacobian: the local initialised from diffCanonicalTransform()
        jd = {v["did"]: v.get("name") for v in f.locals().values() if "did" in v and any((callee(q) or "").endswith("::diffCanonicalTransform") for c in v.get("c", []) if isinstance(c, dict) for q in walk(c))}
        if not jd:
            continue
        jname = next(iter(jd.values()))
        for n in walk(f.body):
            compound = n.get("k") == "CompoundAssignOperator" and n.get("op") == "*="
            plain = n.get("k") == "BinaryOperator" and n.get("op") == "="
            if compound or plain:
                rhs = strip(n["c"][1])
                if any(q.get("k") == "DeclRefExpr" and q.get("did") in jd for q in walk(rhs)) and (compound or (rhs.get("k") == "BinaryOperator" and rhs.get("op") == "*")):
                    nch += 1
                    chk.saw(f)
                    lhs = strip(n["c"][0])
                    fac = [q for q in walk(rhs) if q.get("k") in ("CXXOperatorCallExpr",) and q.get("op") == "[]" and var_of(q["c"][1]) in jd]
                    J = txt(strip(fac[0]["c"][2])) if fac else None
                    li = lhs["c"][1] if lhs.get("k") == "ArraySubscriptExpr" else None
                    form = index_form(li) if li is not None else None
                    # extent of J: the bound of the for loop declaring it
                    bound = None
                    for a in f.ancestors(n):
                        if a.get("k") == "ForStmt" and a.get("init") is not None and any(d.get("k") == "VarDecl" and d.get("name") == J for d in walk(a["init"])):
                            cd = strip(a.get("cond"))
                            bound = txt(strip(cd["c"][1])) if cd is not None and cd.get("k") == "BinaryOperator" else None
                    other = [q for q in walk(rhs) if q.get("k") == "ArraySubscriptExpr"]
                    same = compound or (bool(other) and txt(other[0]) == txt(lhs))
                    ok = form is not None and form[2] == J and bound is not None and bound in (form[0], form[1]) and same
                    chk.ob("C10-D4.chain", f.name + f.sig, "entry %s scaled by jacobian_g_diag[%s]" % (txt(lhs), J), ok, f.loc(n),
                           "index form (major, stride, minor) = %s, factor index %s runs to %s, same entry read and written: %s" % (form, J, bound, same))
    chk.floor("C10-D4.chain", nch, 2, "sites applying the transform Jacobian")

    # ------------------------------------------------------------------ D3
    lo = {"rule_gausslaguerre+rule_gausslaguerreodd": 0, "rule_fourier": 0, "else": -1}
    hi = {"rule_fourier": 1, "else": 1}
    for rs, body in chains["domain"]:
        key = "else" if rs == "else" else "+".join(sorted(rs))
        lambdas = [n for n in walk(body) if n.get("k") == "LambdaExpr"]
        if "hermite" in key:
            ok = all(any(r.get("k") == "ReturnStmt" and txt(strip(r["c"][0])) == "true" for r in walk(l)) and not [c for c in walk(l) if c.get("k") == "BinaryOperator" and c.get("op") in ("<", ">")] for l in lambdas)
            chk.ob("C10-D3.domain", "family " + key, "unbounded domain accepts everything", ok and bool(lambdas), dom.loc(body))
            continue
        fam_fwd = F.get(key, F["else"])["x"]
        for l in lambdas:
            comps = [c for c in walk(l) if c.get("k") == "BinaryOperator" and c.get("op") in ("<", ">") and txt(strip(c["c"][0])) in ("x[i]", "v")]
            uses_transform = "domain_transform" in " ".join(txt(c) for c in comps)
            for c in comps:
                rhs = strip(c["c"][1])
                if uses_transform:
                    bound = A if "domain_transform_a" in txt(rhs) else B if "domain_transform_b" in txt(rhs) else None
                    canon = (lo if c["op"] == "<" else hi).get(key)
                    if key == "else" and canon is None:
                        canon = -1 if c["op"] == "<" else 1
                    ok = bound is not None and canon is not None and sympy.simplify(fam_fwd.subs(X, canon) - bound) == 0
                    chk.ob("C10-D3.domain", "family " + key, "transformed bound `%s`" % txt(c), ok, dom.loc(c), "forward(%s) = %s" % (canon, sympy.simplify(fam_fwd.subs(X, canon)) if canon is not None else "?"))
                else:
                    v = const_val(rhs)
                    if v is None:
                        try:
                            v = float(to_sympy(rhs, lambda n: None))
                        except Exception:
                            v = None
                    want = {-1.0, 0.0, 1.0}
                    chk.ob("C10-D3.domain", "family " + key, "canonical bound `%s`" % txt(c), v is not None and float(v) in want, dom.loc(c))

    # ------------------------------------------------------------------ D5 composition order
    chk.rule("C10-D5.order", "the points handed out are linear(conformal(canonical)); every route back to canonical coordinates (evaluate, weights, differentiate) applies the inverses in the "
                             "opposite order, linear first and conformal second")

    def kinds(f):
        seq = []
        for c in sorted((c for c in f.calls(into_lambda=False)), key=lambda c: (c.get("l", 0), c.get("id", 0))):
            nm = short(callee(c) or "")
            if nm in ("mapConformalCanonicalToTransformed", "mapConformalTransformedToCanonical"):
                seq.append(("conformal", c))
            elif nm in ("mapCanonicalToTransformed", "mapTransformedToCanonical"):
                seq.append(("linear", c))
        return seq
    fwd_fns = [f for f in db.fns(TSG + "::formTransformedPoints")]
    inv_fns = [f for f in db.fns(TSG + "::formCanonicalPoints")]
    nord = 0
    fk = [k for k, _ in kinds(fwd_fns[0])] if fwd_fns else []
    for f in inv_fns:
        chk.saw(f)
        ik = [k for k, _ in kinds(f)]
        nord += 1
        chk.ob("C10-D5.order", f.key + f.sig, "inverse maps applied in the reverse order of the forward maps", len(fk) == 2 and ik == list(reversed(fk)), f.where,
               "forward: %s ; inverse: %s" % (" then ".join(fk), " then ".join(ik)), "inverse of (linear o conformal) is (conformal^-1 o linear^-1)")
        # straight-line: the second inverse is reached on every path on which the first ran only through its own guard
        calls = kinds(f)
        if len(calls) == 2:
            a, b = calls[0][1], calls[1][1]
            chk.ob("C10-D5.order", f.key + f.sig, "the first inverse precedes the second on the CFG", a.get("l", 0) <= b.get("l", 0) and not must_after(f, b, a), f.loc(a))
    chk.floor("C10-D5.order", nord, 2, "instantiations of formCanonicalPoints")

    # ------------------------------------------------------------------ D6 the two transforms are applied independently
    chk.rule("C10-D6.independent", "the linear domain transform and the conformal map compose: a correction that belongs to one of them (quadrature scale, forward / inverse linear map, Jacobian "
                                   "of the linear map; conformal point map, conformal weights) is never control dependent on a test of the other one, so setting both applies both")
    LIN = ("getQuadratureScale", "mapCanonicalToTransformed", "mapTransformedToCanonical", "diffCanonicalTransform")
    CON = ("mapConformalCanonicalToTransformed", "mapConformalTransformedToCanonical", "mapConformalWeights")
    nind = 0
    for f in db.all_functions([CPP, HPP]):
        if f.cls != TSG or f.d.get("islambda"):
            continue
        for c in f.calls(into_lambda=False):
            last = short(callee(c) or "")
            kind = "linear" if last in LIN else "conformal" if last in CON else None
            if kind is None or not is_reachable(f, c):
                continue
            other = ("conformal_asin_power",) if kind == "linear" else ("domain_transform_a", "domain_transform_b")
            bad = []
            for cnd, truth in cond_edges_dominating(f, c):
                ms = {short(q.get("field") or "") for q in [cnd] + list(walk(cnd)) if q.get("k") == "MemberExpr"}
                if ms & set(other):
                    bad.append("%s is %s" % (txt(strip(cnd))[:50], truth))
            nind += 1
            chk.saw(f)
            chk.ob("C10-D6.independent", f.key + f.sig, "%s correction %s at line %d" % (kind, last, c.get("l", 0)), not bad, f.loc(c),
                   "applied only when %s: with both transforms set the %s part is skipped" % ("; ".join(bad), kind) if bad else "")
    chk.floor("C10-D6.independent", nind, 12, "applications of a linear or conformal correction in the API class")

    from rules import kinds
    chk.rule("C10-D8.kinds", "the conformal route of integrate() (and the plain one) multiplies like with like in every grid class: quadrature weights, corrected node by node, with the values at the "
                             "nodes; integrals of the basis functions with the hierarchical coefficients")
    nk = kinds.kinds_rule(chk, db, "C10-D8.kinds")
    chk.floor("C10-D8.kinds", nk, 8, "products accumulated by the integrate() routines of the grid classes")
    from rules import extent
    chk.rule("C10-D9.extent", "the correction of a transform, applied in place to an output buffer by a raw-pointer method of the API class, runs over the whole buffer: the loop bound equals the "
                              "size the vector overload of the same method gives to that buffer (compared symbolically)")
    nx = extent.extent_rule(chk, db, "C10-D9.extent")
    chk.floor("C10-D9.extent", nx, 3, "in-place corrections of output buffers paired with a sizing overload")
    # ------------------------------------------------------------------ D10 canonical coordinates are consumed by canonical routines only
    chk.rule("C10-D10.canonical", "coordinates that went through formCanonicalPoints() are in the canonical domain: inside the API class they are handed only to the grid object (base-> / "
                                  "get<Grid>()->), never to another method of the API class, which would apply the domain / conformal map a second time")
    ncan = 0
    for f in db.all_functions([CPP, HPP]):
        if f.cls != TSG or f.d.get("islambda"):
            continue
        canon = set()
        for d_ in f.locals().values():
            if d_.get("k") == "VarDecl" and d_.get("c") and any(short(callee(q) or "").startswith("formCanonicalPoints") for q in [d_["c"][0]] + list(walk(d_["c"][0]))):
                canon.add(d_["did"])
        for c in f.calls(into_lambda=False):
            args = call_args(c)
            uses = [a for a in args if any((q.get("k") == "DeclRefExpr" and q.get("did") in canon) or short(callee(q) or "").startswith("formCanonicalPoints") for q in [a] + list(walk(a)))]
            if not uses or short(callee(c) or "").startswith("formCanonicalPoints"):
                continue
            t = db.resolve(c)
            tcls = t.cls if t is not None else (callee(c) or "").rsplit("::", 1)[0]
            ncan += 1
            chk.saw(f)
            bad = (tcls == TSG)
            chk.ob("C10-D10.canonical", f.key + f.sig, "canonical points handed to %s @%d" % ((callee(c) or "?").rsplit("::", 2)[-2:] and "::".join((callee(c) or "?").rsplit("::", 2)[-2:]), c.get("l", 0)), not bad, f.loc(c),
                   "" if not bad else "the callee is a method of the API class: it maps its argument to the canonical domain again")
    chk.floor("C10-D10.canonical", ncan, 10, "consumers of canonical coordinates in the API class")

    from rules import conformal
    ncf = conformal.conformal_rule(chk, db, "C10-D11.conformal")
    chk.floor("C10-D11.conformal", ncf, 20, "folds of the conformal routines (forward, inverse per precision, weights at and away from zero, per truncation)")

    from rules import routing
    nrt = routing.routing_rule(chk, db, "C10-D7.routing")
    chk.floor("C10-D7.routing", nrt, 15, "forwarding calls of the three families")

    return ("Static rule discharge: the rule partitions of all dispatchers are compared enumerator by enumerator; the straight-line loop bodies of each family are converted to closed forms in "
            "(x, a, b, alpha, beta) and the identities forward∘inverse = id, Jacobian = d(inverse)/dx, quadrature scale = (d forward/dx)^(1+w), support factor = d forward/dx and the images of "
            "the canonical end points are discharged with sympy. The conformal (asin) routines are folded for truncations 0..5 (C10-D11): forward map = normalised Maclaurin polynomial of asin, "
            "inverse = Newton on that polynomial with its derivative series, weight factor = its Jacobian. Convergence of the Newton iteration and round-off at the boundary are not decided.")
