"""R-UNITS: nodal quantities pair with nodal data, hierarchical quantities with hierarchical data.

integrate() has two routes in every grid class: quadrature weights (one per node) times the model values stored at the nodes,
or integrals of the hierarchical basis functions times the hierarchical coefficients.  The two routes give the same number;
a product that takes its factor from one route and its data from the other (weights times surpluses, basis integrals times
values) is a different number.  The rule gives every local variable of integrate() a kind from where its contents come from

    NODAL   buffer filled by getQuadratureWeights / getInterpolationWeights, values.getValues(i)
    HIER    cacheBasisIntegrals(), integrateHierarchicalFunctions(buffer), evalIntegral(), surpluses / coefficients /
            fourier_coefs strips

propagates kinds through initialisers and compound assignments (the conformal correction is a per-node factor without a
kind of its own), and requires that both factors of every product accumulated into the result have the same kind.
Shared by C04 (integrate == weights.values == coefficients.integrals), C10 (the conformal route) and C02."""
from tsg.facts import strip, txt, callee, call_args, call_object, walk, short
from tsg.flow import is_reachable

CLASSES = ("TasGrid::GridGlobal", "TasGrid::GridSequence", "TasGrid::GridLocalPolynomial", "TasGrid::GridWavelet", "TasGrid::GridFourier")
NODAL_FILL = ("getQuadratureWeights", "getInterpolationWeights")
HIER_FILL = ("integrateHierarchicalFunctions",)
HIER_CALL = ("cacheBasisIntegrals", "evalIntegral", "integrateHierarchicalFunctions")
NODAL_MEMBER = {"values"}
HIER_MEMBER = {"surpluses", "coefficients", "fourier_coefs"}


def _kinds(e, env):
    """set of kinds an expression draws from"""
    out = set()
    for q in [e] + list(walk(e)):
        k = q.get("k")
        if k == "DeclRefExpr" and q.get("did") in env:
            out |= env[q["did"]]
        elif k == "MemberExpr" and q.get("field"):
            f = short(q["field"])
            if f in NODAL_MEMBER:
                out.add("NODAL")
            elif f in HIER_MEMBER:
                out.add("HIER")
        elif k in ("CallExpr", "CXXMemberCallExpr") and short(callee(q) or "") in HIER_CALL:
            out.add("HIER")
    return out


def kinds_rule(chk, db, rule_id):
    n = 0
    db.load_all()
    for cls in CLASSES:
        for f in db.fns(cls + "::integrate"):
            env = {}
            # fixed point over declarations, output-argument fills and compound assignments
            for _ in range(4):
                for q in f.walk():
                    k = q.get("k")
                    if k == "VarDecl" and q.get("did") is not None:
                        ini = [c for c in q.get("c", []) if isinstance(c, dict)]
                        if ini:
                            ks = _kinds(ini[0], env)
                            if ks:
                                env.setdefault(q["did"], set()).update(ks)
                    elif k in ("CallExpr", "CXXMemberCallExpr"):
                        nm = short(callee(q) or "")
                        kind = "NODAL" if nm in NODAL_FILL else "HIER" if nm in HIER_FILL else None
                        if kind:
                            for a in call_args(q):
                                for z in [a] + list(walk(a)):
                                    if z.get("k") == "DeclRefExpr" and z.get("did") is not None and z.get("var") not in ("q",):
                                        env.setdefault(z["did"], set()).add(kind)
                    elif k in ("CompoundAssignOperator", "BinaryOperator") and q.get("op") in ("*=", "=", "+="):
                        lhs = strip(q["c"][0])
                        base = None
                        for z in [lhs] + list(walk(lhs)):
                            if z.get("k") == "DeclRefExpr":
                                base = z
                                break
                        if base is not None and base.get("did") is not None and base.get("did") in env or (base is not None and q.get("op") == "="):
                            ks = _kinds(q["c"][1], env)
                            if ks and base.get("did") is not None:
                                env.setdefault(base["did"], set()).update(ks)
            params = {p["did"] for p in f.params()}
            for q in f.walk():
                if q.get("k") != "CompoundAssignOperator" or q.get("op") != "+=" or not is_reachable(f, q):
                    continue
                lhs = strip(q["c"][0])
                if not any(z.get("k") == "DeclRefExpr" and z.get("did") in params for z in [lhs] + list(walk(lhs))):
                    continue            # not an accumulation into the result
                rhs = strip(q["c"][1])
                if rhs is None or rhs.get("k") != "BinaryOperator" or rhs.get("op") != "*":
                    continue
                ka, kb = _kinds(rhs["c"][0], env), _kinds(rhs["c"][1], env)
                n += 1
                chk.saw(f)
                ok = len(ka) == 1 and ka == kb
                chk.ob(rule_id, f.key, "accumulated product `%s` @%d" % (txt(rhs)[:50], q.get("l", 0)), ok, f.loc(q),
                       "left factor %s, right factor %s" % (sorted(ka) or "no kind", sorted(kb) or "no kind"),
                       "quadrature weights with the values at the nodes, or basis integrals with the hierarchical coefficients")
    return n
