"""R-SIBLING: the run-time rule dispatch of GridLocalPolynomial.

Every `switch(effective_rule)` forwards to instantiations of one template, one per case.  In each case every template
argument of kind RuleLocal::erule that appears in the statements of that case must be the case's own label (the default
case stands for the one enumerator without a label).  A case that instantiates the template for another rule evaluates,
refines or differentiates with the wrong hierarchy / basis for that rule only."""
from tsg.facts import strip, txt, callee, walk, short, callee_node

ERULE = "TasGrid::RuleLocal::erule"


def _labels(db):
    e = db.enum(ERULE)
    return [v["name"] for v in e["values"]]


def dispatch_rule(chk, db, rule_id, name_filter=None):
    labels = _labels(db)
    n = 0
    for fns in db.load_all().values():
        for f in fns:
            if f.file.startswith("@verif") or "test" in f.file.lower() or f.d.get("islambda"):
                continue
            if name_filter is not None and not name_filter(f):
                continue
            for sw in f.walk(into_lambda=False):
                if sw.get("k") != "SwitchStmt" or "effective_rule" not in txt(sw.get("cond") or {}):
                    continue
                body = sw.get("body") or {}
                seq = []

                def flat(s):
                    if s is None:
                        return
                    if s.get("k") in ("CaseStmt", "DefaultStmt"):
                        seq.append(("label", s))
                        flat(s.get("sub"))
                    else:
                        seq.append(("stmt", s))
                for s in body.get("c", []) if body.get("k") == "CompoundStmt" else [body]:
                    if isinstance(s, dict):
                        flat(s)
                cases, cur = [], None
                for kind, s in seq:
                    if kind == "label":
                        lab = None
                        if s.get("k") == "CaseStmt":
                            for x in walk(s.get("lhs")):
                                if x.get("k") == "DeclRefExpr" and "enumc" in x:
                                    lab = short(x["enumc"])
                        else:
                            lab = "default"
                        cur = [lab, []]
                        cases.append(cur)
                    elif cur is not None:
                        cur[1].append(s)
                explicit = {c[0] for c in cases if c[0] != "default"}
                missing = [l for l in labels if l not in explicit]
                problems = []
                used = 0
                for lab, stmts in cases:
                    want = lab if lab != "default" else (missing[0] if len(missing) == 1 else None)
                    seen = set()
                    for st in stmts:
                        for x in walk(st):
                            t = x.get("targs") or (callee_node(x) or {}).get("targs") if x.get("k") in ("CallExpr", "CXXMemberCallExpr", "DeclRefExpr", "CXXTemporaryObjectExpr", "CXXConstructExpr") else None
                            for part in (t or "").split(","):
                                if ERULE + "::" in part:
                                    seen.add(part.strip().rsplit("::", 1)[-1])
                    used += len(seen)
                    if want is None:
                        problems.append("default stands for %d enumerators" % len(missing))
                    elif seen and seen != {want}:
                        problems.append("case %s instantiates for %s" % (lab, sorted(seen)))
                if not used:
                    continue
                n += 1
                chk.saw(f)
                chk.ob(rule_id, f.key + f.sig, "switch(effective_rule) @%d" % sw.get("l", 0), not problems, f.loc(sw), "; ".join(problems[:3]),
                       "every case instantiates the template for its own rule")
    return n
