"""C09  Dynamic construction does not depend on arrival order or batching of samples (structural clauses)."""
import sympy

from tsg.facts import DB, strip, txt, callee, call_args, call_object, walk, const_val, short, callee_node
from tsg.flow import var_of, cond_edges_dominating, is_reachable
from tsg.typestate import member_writes, must_pass_after, must_pass_before
from tsg.effects import Effects
from tsg.peval import PEval
from tsg.sym import NotClosedForm, to_sympy
from tsg.build import AnalysisBroken

GRIDS = ["Global", "Sequence", "LocalPolynomial", "Wavelet", "Fourier"]
RL = "TasGrid::RuleLocal::"
HPP = "SparseGrids/tsgRuleLocalPolynomial.hpp"
from tsg.tier import pick
NPTS = pick(40, 200)


def hierarchy_relations(chk, db, rule_id):
    """the downward relation used by the incremental surplus update (getKid) is the inverse of the upward relations
    used to compute surpluses (getParent, getStepParent): every point is reachable from each of its parents"""
    pe = PEval(db)

    def insts(name):
        return {f.d.get("targs", "").rsplit("::", 1)[-1]: f for f in db.fns(RL + name, [HPP]) if f.d.get("targs")}
    GP, GSP, GK, GMK = insts("getParent"), insts("getStepParent"), insts("getKid"), insts("getMaxNumKids")
    # further downward relations that the sub-graph walk itself uses (one-argument RuleLocal functions called by getSubGraph, e.g. getStepKid)
    extra = {}
    for sg in db.fns("TasGrid::GridLocalPolynomial::getSubGraph", required=False):
        r_ = sg.d.get("targs", "").rsplit("::", 1)[-1]
        for c in sg.calls():
            cal = callee(c) or ""
            if cal.startswith(RL) and short(cal).split("<")[0] not in ("getKid", "getMaxNumKids") and len(call_args(c)) == 1:
                t = db.resolve(c)
                if t is not None:
                    extra.setdefault(r_, {})[short(cal).split("<")[0]] = t
    n = 0
    for r in sorted(set(GP) & set(GK) & set(GMK)):
        if r == "pwc":
            continue       # piecewise constant: surpluses are not updated through the sub-graph (order 0)
        try:
            mk = int(pe.call(GMK[r], []))
            kids = {}
            for p in range(NPTS):
                kids[p] = {int(pe.call(GK[r], [sympy.Integer(p), sympy.Integer(i)])) for i in range(mk)}
                for nm_, fx in extra.get(r, {}).items():
                    kids[p].add(int(pe.call(fx, [sympy.Integer(p)])))
            missing = []
            for c in range(NPTS):
                ups = [("getParent", int(pe.call(GP[r], [sympy.Integer(c)])))]
                if r in GSP:
                    ups.append(("getStepParent", int(pe.call(GSP[r], [sympy.Integer(c)]))))
                for nm, q in ups:
                    if q >= 0 and q < NPTS and c not in kids.get(q, set()):
                        missing.append("point %d has %s %d, but the relations walked by getSubGraph (getKid%s) give %s for %d, never %d" % (
                            c, nm, q, "".join(", " + x for x in sorted(extra.get(r, {}))), sorted(kids[q]), q, c))
        except NotClosedForm as e:
            chk.note(rule_id, HPP, "hierarchy relations of %s not analysable: %s" % (r, e))
            continue
        n += 1
        chk.saw(GK[r])
        chk.ob(rule_id, "RuleLocal<%s>" % r, "every parent relation has its inverse among the kids", not missing, GK[r].where,
               "; ".join(missing[:2]) if missing else "points 0..%d" % (NPTS - 1),
               "the descendant sub-graph walked by getSubGraph contains every point whose surplus depends on the new point")
    return n


def expand_rules(chk, db):
    if "C09-D3.expand" not in chk.rules:
        chk.rule("C09-D3.expand", "single-point expansion: descendant indices are shifted after the point is inserted and before their surpluses are updated; the tree is rebuilt; Sequence inserts the surplus strip at the slot of the new point")
    nd3 = 0
    for f in db.fns("TasGrid::GridLocalPolynomial::expandGrid"):
        chk.saw(f)
        nd3 += 1
        loc = {v["did"]: v for v in f.locals().values() if "did" in v}

        def init_call(v, suffix):
            ini = [c for c in v.get("c", []) if isinstance(c, dict)]
            return next((q for q in walk(ini[0]) if (callee(q) or "").endswith(suffix)), None) if ini else None
        graph = next(((d, init_call(v, "::getSubGraph")) for d, v in loc.items() if init_call(v, "::getSubGraph") is not None), None)
        slot = next(((d, init_call(v, "::getSlot")) for d, v in loc.items() if v.get("t") == "int" and init_call(v, "::getSlot") is not None
                     and txt(strip(call_object(init_call(v, "::getSlot")))) == "points"), None)
        ins = [c for c in f.calls() if (callee(c) or "").endswith("::addSortedIndexes") and txt(strip(call_object(c))) == "points"]
        upd = [c for c in f.calls() if (callee(c) or "").endswith("::updateSurpluses")]
        tree = [c for c in f.calls() if (callee(c) or "").endswith("::buildTree")]
        # the shift: a range-for over the sub-graph by reference whose body increments the element under `element >= slot`
        shift = None
        for q in f.walk(into_lambda=False):
            if q.get("k") == "CXXForRangeStmt" and graph and var_of(strip(q.get("range"))) == graph[0] and "&" in (q.get("lv") or {}).get("t", ""):
                lv = q["lv"]["did"]
                for x in walk(q.get("body")):
                    if x.get("k") == "UnaryOperator" and x.get("op") == "++" and var_of(x["c"][0]) == lv:
                        conds = [(strip(e), tr) for e, tr in cond_edges_dominating(f, x)]
                        guarded = any(e.get("k") == "BinaryOperator" and e.get("op") == ">=" and tr and var_of(e["c"][0]) == lv and slot and var_of(e["c"][1]) == slot[0] for e, tr in conds) or \
                            any(e.get("k") == "BinaryOperator" and e.get("op") == "<" and not tr and var_of(e["c"][0]) == lv and slot and var_of(e["c"][1]) == slot[0] for e, tr in conds)
                        shift = (x, guarded, strip(q.get("range")))
        ok = bool(graph and slot and len(ins) == 1 and upd and tree and shift)
        detail = "sub-graph %s, slot %s, insert %d, shift %s, update %d, buildTree %d" % (bool(graph), bool(slot), len(ins), bool(shift), len(upd), len(tree))
        if ok:
            before = lambda a, b: bool(must_pass_before(f, b, lambda x, a=a: x is a or any(y is a for y in walk(x))))
            order = before(graph[1], ins[0]) and before(ins[0], slot[1]) and before(slot[1], shift[0]) and before(shift[2], upd[0])
            ok = order and shift[1]
            detail += "; order sub-graph < insert < slot < shift < update: %s; shift guarded by element >= slot: %s" % (order, shift[1])
        chk.ob("C09-D3.expand", f.key, "sub-graph taken before, indices shifted after the insertion and before the update", ok, f.where, detail)
    for f in db.fns("TasGrid::GridSequence::expandGrid"):
        chk.saw(f)
        nd3 += 1
        ap = [c for c in f.calls() if (callee(c) or "").endswith("::appendStrip") and txt(strip(call_object(c))) == "surpluses"]
        ins = [c for c in f.calls() if (callee(c) or "").endswith("::addSortedIndexes")]
        ok = len(ap) == 1 and len(ins) == 1 and bool(must_pass_before(f, ap[0], lambda x: x is ins[0] or any(y is ins[0] for y in walk(x))))
        if ok:
            # the slot is looked up in the member `points` for the very index that was inserted
            slot = strip(call_args(ap[0])[0])
            if slot is not None and slot.get("k") == "DeclRefExpr":
                d_ = f.locals().get(slot.get("did"))
                slot = strip(d_["c"][0]) if d_ is not None and d_.get("c") else slot
            ok = slot is not None and slot.get("k") == "CXXMemberCallExpr" and (callee(slot) or "").endswith("::getSlot") and \
                short((strip(call_object(slot)) or {}).get("field") or "") == "points" and txt(strip(call_object(ins[0]))) == txt(strip(call_object(slot))) and \
                var_of(call_args(slot)[0]) is not None and var_of(call_args(slot)[0]) == var_of(call_args(ins[0])[0])
        chk.ob("C09-D3.expand", f.key, "surplus strip inserted at the slot of the new point after the index is inserted", ok, f.where)
    chk.floor("C09-D3.expand", nd3, 6, "expandGrid implementations")
    # the strip insertion kernel
    for f in db.fns("TasGrid::Data2D<double>::appendStrip") + db.fns("TasGrid::Data2D<int>::appendStrip", required=False):
        if len(f.params()) != 2 or "int" not in f.params()[0]["t"]:
            continue
        chk.saw(f)
        ins = [c for c in f.calls() if (callee(c) or "").endswith("::insert")]
        okk = False
        if ins:
            # first argument: vec.begin() + offset; the offset must equal pos * stride as a polynomial in the named variables
            a0 = next((q for q in walk(call_args(ins[0])[0]) if q.get("k") == "CXXOperatorCallExpr" and q.get("op") == "+"), None)
            pos = f.params()[0]["name"]
            if a0 is not None:
                ch = [c for c in a0.get("c", []) if isinstance(c, dict)]
                base, off = strip(ch[-2]), ch[-1]
                def byname(n):
                    if n.get("k") in ("DeclRefExpr", "MemberExpr") and (n.get("var") or n.get("field")):
                        return sympy.Symbol(short(n.get("field") or n.get("var")), integer=True, nonnegative=True)
                    return None
                try:
                    e = to_sympy(off, byname)
                    okk = (callee(base) or "").endswith("::begin") and txt(strip(call_object(base)) or {}) == "vec" and \
                        sympy.expand(e - sympy.Symbol(pos, integer=True, nonnegative=True) * sympy.Symbol("stride", integer=True, nonnegative=True)) == 0
                except NotClosedForm:
                    okk = False
        chk.ob("C09-D3.expand", f.key + f.sig, "strip inserted at offset pos * stride", okk, f.where, txt(call_args(ins[0])[0])[:80] if ins else "no insert")



def _disjuncts(c):
    c = strip(c)
    if c is not None and c.get("k") == "BinaryOperator" and c.get("op") == "||":
        return _disjuncts(c["c"][0]) + _disjuncts(c["c"][1])
    return [c]


def root_rule(chk, db, rule_id):
    pe = PEval(db)

    def insts(name):
        return {f.d.get("targs", "").rsplit("::", 1)[-1]: f for f in db.fns(RL + name, [HPP]) if f.d.get("targs")}
    GP, GL = insts("getParent"), insts("getLevel")
    # the batch route: level-zero points are those without a parent
    lz = [f for f in db.fns("TasGrid::HierarchyManipulations::getLevelZeroPoints") if f.d.get("targs")]
    for f in lz:
        if not any((callee(c) or "").endswith("RuleLocal::getParent") for c in f.calls()):
            raise AnalysisBroken("getLevelZeroPoints no longer defines the roots through getParent: re-derive the reference of C09-D6")
    n = 0
    for f in db.fns("TasGrid::GridLocalPolynomial::loadConstructedPoint"):
        if not f.d.get("targs") or len(f.params()) != 2:
            continue
        r = f.d["targs"].rsplit("::", 1)[-1]
        ex = [c for c in f.calls(into_lambda=False) if (callee(c) or "").endswith("::expandGrid")]
        if not ex:
            continue
        iff = next((a for a in f.ancestors(ex[0]) if a.get("k") == "IfStmt"), None)
        if iff is None:
            n += 1
            chk.saw(f)
            chk.ob(rule_id, f.key, "expandGrid is unconditional", False, f.where, "a point without relatives would be inserted into a disconnected hierarchy")
            continue
        loc = {d["did"]: d for d in f.locals().values() if "did" in d}
        preds = []
        for dj in _disjuncts(iff.get("cond")):
            if dj.get("k") == "DeclRefExpr" and dj.get("var") == "isConnected":
                continue
            pred = None
            v = None
            if dj.get("k") == "BinaryOperator" and dj.get("op") == "==" and txt(strip(dj["c"][1])) == "0":
                v = strip(dj["c"][0])
            if v is not None and v.get("k") == "DeclRefExpr" and v.get("did") in loc:
                # accumulated level: every write is the initialiser or `+=`, all of them getLevel<rule>(p[..]) -> per component getLevel(k) == 0
                d = loc[v["did"]]
                terms = [strip(c) for c in d.get("c", []) if isinstance(c, dict)]
                for q in f.walk():
                    if q.get("k") in ("BinaryOperator", "CompoundAssignOperator") and q.get("op") in ("=", "+=", "-=", "*=") and strip(q["c"][0]).get("did") == v["did"]:
                        terms.append(strip(q["c"][1]) if q["op"] == "+=" else None)
                if terms and all(t is not None and t.get("k") == "CallExpr" and (callee(t) or "").endswith("RuleLocal::getLevel") for t in terms) and r in GL:
                    pred = ("getLevel<%s>(k) == 0" % r, lambda k, r=r: int(pe.call(GL[r], [sympy.Integer(k)])) == 0)
            cand = dj
            if dj.get("k") == "DeclRefExpr" and dj.get("did") in loc:
                ini = [c for c in loc[dj["did"]].get("c", []) if isinstance(c, dict)]
                cand = strip(ini[0]) if ini else dj
            if pred is None and cand.get("k") == "CallExpr" and (callee(cand) or "") in ("std::all_of",):
                lam = next((q for q in walk(cand) if q.get("k") == "LambdaExpr"), None)
                lf = [g for g in db.all_functions([f.file]) if g.d.get("islambda") and g.key == "%s::lambda@%d" % (f.key, lam.get("l", 0))] if lam else []
                if lf:
                    pred = ("all components satisfy the lambda @%d" % lam.get("l", 0), lambda k, g=lf[0]: bool(pe.call(g, [sympy.Integer(k)]) in (sympy.true, 1, True)))
            preds.append((txt(dj), pred))
        n += 1
        chk.saw(f)
        if not preds or any(p is None for t, p in preds):
            raise AnalysisBroken("admission test of %s is not in an analysable form: %s" % (f.key, [t for t, p in preds if p is None]))
        bad = []
        try:
            for k in range(NPTS):
                got = any(p[1](k) for t, p in preds)
                want = int(pe.call(GP[r], [sympy.Integer(k)])) == -1
                if got != want:
                    bad.append("component index %d: admitted as parent-less = %s, getParent<%s>(%d) == -1 is %s" % (k, got, r, k, want))
        except NotClosedForm as e:
            raise AnalysisBroken("root predicate of %s not evaluable: %s" % (f.key, e))
        chk.ob(rule_id, f.key, "parent-less admission `%s`" % " || ".join(t for t, p in preds), not bad, f.loc(iff), "; ".join(bad[:2]) if bad else "; ".join(p[0] for t, p in preds),
               "the roots of the batch route")
    return n


def relatives_rule(chk, db, rule_id):
    """every routine that enumerates the immediate relatives of an index visits all of them: kids 0..max-1, the parent and (for rules with two parents) the step-parent"""
    from tsg.peval import ArrayPEval
    pe0 = PEval(db)

    def insts(name):
        return {f.d.get("targs", "").rsplit("::", 1)[-1]: f for f in db.fns(RL + name, [HPP]) if f.d.get("targs")}
    MK, MP = insts("getMaxNumKids"), insts("getMaxNumParents")
    n = 0
    libfns = [f for fs_ in db.load_all().values() for f in fs_ if not f.file.startswith("@verif") and "test" not in f.file.lower() and not f.d.get("islambda")]
    for f in libfns:
        asg = []
        for q in f.walk(into_lambda=False):
            if q.get("k") == "BinaryOperator" and q.get("op") == "=" and strip(q["c"][0]) is not None and strip(q["c"][0]).get("k") == "DeclRefExpr":
                cs = {short(callee(x) or "") for x in walk(q["c"][1]) if (callee(x) or "").startswith(RL)}
                if cs & {"getKid", "getParent", "getStepParent"}:
                    asg.append((q, cs))
        if not asg or not any("getKid" in cs for q, cs in asg) or not any("getParent" in cs for q, cs in asg):
            continue
        dids = {strip(q["c"][0])["did"] for q, cs in asg}
        if len(dids) != 1 or not is_reachable(f, asg[0][0]):
            continue
        did = next(iter(dids))
        # the rule this instantiation works on: template argument that names an erule
        r = next((t.rsplit("::", 1)[-1] for t in (f.d.get("targs") or "").split(",") if "erule::" in t), None)
        if r is None or r not in MK:
            continue
        loop = next((a for a in f.ancestors(asg[0][0]) if a.get("k") == "CXXForRangeStmt" and all(any(x is q for x in walk(a)) for q, cs in asg)), None)
        if loop is None:
            continue
        body = loop.get("body")

        def hook(node, ev):
            cal = callee(node) or ""
            if cal.endswith("RuleLocal::getKid"):
                j = ev(call_args(node)[1])
                if not getattr(j, "is_Integer", False):
                    raise NotClosedForm("kid number is not concrete")
                return sympy.Symbol("kid_%d" % int(j))
            if cal.endswith("RuleLocal::getParent"):
                return sympy.Symbol("parent")
            if cal.endswith("RuleLocal::getStepParent"):
                return sympy.Symbol("stepparent")
            return None
        pe = ArrayPEval(db, hook=hook)
        pe.tracked = {did}
        env = {}
        # locals declared before the loop (max_kids, max_relatives) are needed by its conditions
        problem = None
        try:
            pre = []
            for a in f.ancestors(loop):
                if a.get("k") == "CompoundStmt":
                    for c in a.get("c", []):
                        if isinstance(c, dict) and c.get("k") == "DeclStmt" and c.get("l", 0) < loop.get("l", 0) and all(d.get("t") == "int" for d in c.get("c", [])):
                            pre.append(c)
            pe.inplace(sorted(pre, key=lambda c: c.get("l", 0)), env, f, 0)
            pe.inplace([body], env, f, 0)
        except NotClosedForm as e:
            problem = "enumeration not foldable: %s" % e
        got = {str(v) for d_, v in pe.assigned if v is not None}
        mk = int(pe0.call(MK[r], []))
        mp = int(pe0.call(MP[r], []))
        want = {"kid_%d" % i for i in range(mk)} | {"parent"} | ({"stepparent"} if mp == 2 else set())
        n += 1
        chk.saw(f)
        if problem is None and got != want and not (mp == 1 and got == want | {"stepparent"}):
            problem = "visits %s, the relatives of a <%s> index are %s" % (sorted(got), r, sorted(want))
        chk.ob(rule_id, f.key, "enumeration of the immediate relatives", problem is None, f.loc(loop), problem or "visits %s" % sorted(got),
               "all kids, the parent and the step-parent (the single-sample and the batch route must agree on what is connected)")
    return n


def run(chk):
    db = DB("serial")
    db.load_all()
    eff = Effects(db)
    chk.rule("C09-D1.nodrop", "in every loadConstructedPoint overload a delivered sample is, on every path, inserted into the grid or parked in the construction data; "
                              "parked samples leave the store only through extractValues / ejectCompleteTensor whose results are merged into the values")
    chk.rule("C09-D2.candidates", "construction candidates exclude loaded points: addExclusiveChildren appends a tensor only if it is missing from both the excluded and the current set; "
                                  "local/wavelet candidates come from the refinement collector (C07-D3) minus the initial points")
    chk.rule("C09-D4.relations", "the downward hierarchy relation used by the incremental update is the inverse of the upward relations used for surpluses (arrival order of a parent after its step-child must still refresh the child)")

    # ------------------------------------------------------------------ D1
    nd1 = 0
    for g in GRIDS:
        cls = "TasGrid::Grid" + g
        for f in db.fns(cls + "::loadConstructedPoint"):
            chk.saw(f)
            nd1 += 1
            sinks = []
            for c in f.calls(into_lambda=False):
                cal = callee(c) or ""
                if cal.endswith(("::expandGrid", "::loadConstructedTensors", "::loadConstructedPoints", "::addNewNode", "::push_front", "::emplace_front")) or \
                        (cal.startswith(cls + "::loadConstructedPoint") and c is not None):
                    sinks.append(c)
            # every path from entry reaches one of the sinks (or recursion into the other overload)
            ents = [e for e in f.cfg.blocks[f.cfg.succs(f.cfg.entry)[0]]["e"] if isinstance(e, int)] if f.cfg.succs(f.cfg.entry) else []
            ok = False
            per_sample = 0
            if ents and sinks:
                start = f.nodes.get(ents[0])
                ids = {id(s) for s in sinks}
                # a sink that is unconditional inside the loop over the delivered samples (for i < numx) covers every sample:
                # the zero-trip path delivers nothing.  The loop condition stands for the sink.
                cnt = [p["name"] for p in f.params() if p["t"].strip() == "int"]
                for s in sinks:
                    chain = []
                    for a in f.ancestors(s):
                        chain.append(a)
                        if a.get("k") in ("ForStmt", "WhileStmt", "DoStmt", "CXXForRangeStmt", "LambdaExpr"):
                            break
                    if not chain or chain[-1].get("k") != "ForStmt":
                        continue
                    loop = chain[-1]
                    if any(a.get("k") in ("IfStmt", "SwitchStmt", "ConditionalOperator") for a in chain[:-1]):
                        continue
                    cond = loop.get("cond")
                    ct = txt(strip(cond)).replace(" ", "") if cond else ""
                    if cnt and any(ct.endswith("<" + c) for c in cnt):
                        ids.add(id(strip(cond)))
                        ids.add(id(cond))
                        per_sample += 1
                ok = bool(must_pass_after(f, start, lambda x: id(x) in ids)) or id(start) in ids
            chk.ob("C09-D1.nodrop", f.key + f.sig, "sample inserted or parked on every path", ok, f.where, "%d sink call(s), %d of them once per delivered sample" % (len(sinks), per_sample))
    chk.floor("C09-D1.nodrop", nd1, 10, "loadConstructedPoint overloads")
    # the parking routine itself: whatever it reports to its caller, the sample is stored first (the caller registers the missing tensor from the stored samples)
    for f in db.fns("TasGrid::DynamicConstructorDataGlobal::addNewNode"):
        chk.saw(f)
        ents = [e for e in f.cfg.blocks[f.cfg.succs(f.cfg.entry)[0]]["e"] if isinstance(e, int)] if f.cfg.succs(f.cfg.entry) else []
        park = lambda x: (callee(x) or "").endswith(("::emplace_front", "::push_front")) and txt(strip(call_object(x)) or {}) == "data"
        start = f.nodes.get(ents[0]) if ents else None
        ok = start is not None and (park(start) or bool(must_pass_after(f, start, park)))
        chk.ob("C09-D1.nodrop", f.key, "the sample is stored on every path, also when no registered tensor contains it", ok, f.where,
               "" if ok else "on the tensor_missing path the sample is not stored: addTensor then registers the tensor without it and the sample is lost")
    # who removes parked data
    for cls, store in (("TasGrid::SimpleConstructData", "data"), ("TasGrid::DynamicConstructorDataGlobal", "data")):
        removers = set()
        for f in db.all_functions(["SparseGrids/tsgDConstructGridGlobal.hpp", "SparseGrids/tsgDConstructGridGlobal.cpp"]):
            if f.cls != cls:
                continue
            for c in f.calls():
                if (callee(c) or "").endswith(("::erase_after", "::pop_front", "::clear")) and txt(strip(call_object(c)) or {}) == store:
                    removers.add(short(f.name))
        chk.ob("C09-D1.nodrop", cls, "parked samples are removed only by the extraction routines", removers <= {"extractValues", "ejectCompleteTensor"} and bool(removers), "", str(sorted(removers)))

    # ------------------------------------------------------------------ D2
    nd2 = 0
    for f in db.fns("TasGrid::MultiIndexManipulations::addExclusiveChildren"):
        for c in f.calls():
            if (callee(c) or "").endswith("::appendStrip") and is_reachable(f, c):
                nd2 += 1
                chk.saw(f)
                idx = txt(strip(call_args(c)[0]))
                edges = [(txt(strip(x)), tr) for x, tr in cond_edges_dominating(f, c)]
                ok = ("exclude.missing(%s)" % idx, True) in edges and ("tensors.missing(%s)" % idx, True) in edges
                chk.ob("C09-D2.candidates", f.key, "appendStrip(%s) @%d" % (idx, c.get("l", 0)), ok, f.loc(c), "guards %s" % [e for e in edges if "missing" in e[0]])
    chk.floor("C09-D2.candidates", nd2, 2, "candidate tensor appends")
    for cls in ("TasGrid::GridLocalPolynomial", "TasGrid::GridWavelet"):
        for f in db.fns(cls + "::getCandidateConstructionPoints"):
            if not any((callee(c) or "").endswith("::getRefinementCanidates") for c in f.calls()):
                continue
            nd2 += 1
            chk.saw(f)
            # some local set is the difference (operator-) of the collector's result and the member initial_points of the construction data
            loc = {d["did"]: d for d in f.locals().values() if "did" in d}
            from_collector = {did for did, d in loc.items() if any((callee(q) or "").endswith("::getRefinementCanidates") for c in d.get("c", []) if isinstance(c, dict) for q in walk(c))}
            ok, t = False, ""
            for did, d in loc.items():
                for c in d.get("c", []):
                    if not isinstance(c, dict):
                        continue
                    for q in walk(c):
                        if q.get("k") == "CXXOperatorCallExpr" and q.get("op") == "-":
                            ch = [x for x in q.get("c", []) if isinstance(x, dict)]
                            lhs, rhs = strip(ch[-2]), strip(ch[-1])
                            if var_of(lhs) in from_collector and any(short(x.get("field") or "") == "initial_points" for x in walk(rhs)):
                                ok, t = True, txt(q)
            chk.ob("C09-D2.candidates", f.key + f.sig, "candidates = refinement candidates minus initial points", ok, f.where, t[:160])
            # ... and minus the samples that were delivered and are waiting for their parents: a point that is requested again is delivered twice
            okw, tw = False, ""
            for q in f.walk():
                if q.get("k") == "CXXOperatorCallExpr" and q.get("op") == "-":
                    ch = [x for x in q.get("c", []) if isinstance(x, dict)]
                    rhs = strip(ch[-1])
                    from_data = any((x.get("k") == "MemberExpr" and short(x.get("field") or "") == "data") or
                                    (x.get("k") == "CXXMemberCallExpr" and any(short(y.get("field") or "") == "data" for g2 in [db.resolve(x)] if g2 is not None for y in g2.walk() if y.get("k") == "MemberExpr"))
                                    for x in [rhs] + list(walk(rhs)))
                    if not from_data and rhs is not None and rhs.get("k") == "DeclRefExpr":
                        d2 = loc.get(rhs.get("did"))
                        from_data = d2 is not None and any(x.get("k") == "MemberExpr" and short(x.get("field") or "") == "data" for x in walk(d2))
                    if not from_data:
                        continue
                    # the subtraction may be skipped only when nothing is waiting
                    guards = [(txt(strip(e)), tr) for e, tr in cond_edges_dominating(f, q)]
                    if all("data" in g_ and "empty" in g_ for g_, tr in guards):
                        okw, tw = True, txt(q)
            chk.ob("C09-D2.candidates", f.key + f.sig, "candidates exclude the samples that are waiting in the construction data", okw, f.where,
                   tw[:120] if okw else "a point whose sample was delivered before its parents is listed again; the second delivery puts values and points out of step")

    # ------------------------------------------------------------------ D3
    expand_rules(chk, db)

    # ------------------------------------------------------------------ D5
    chk.rule("C09-D5.eject", "GridGlobal and GridFourier: after a sample is parked (addNewNode) and after a missing tensor is registered (addTensor, which may find the tensor already complete), every path to the exit "
                             "on which the tensor may be complete passes loadConstructedTensors; the single-sample and the batch overload agree")
    nd5 = 0
    for f in db.fns("TasGrid::GridGlobal::loadConstructedPoint") + db.fns("TasGrid::GridFourier::loadConstructedPoint"):
        chk.saw(f)
        is_load = lambda x: (callee(x) or "").endswith(("GridGlobal::loadConstructedTensors", "GridFourier::loadConstructedTensors"))
        for c in f.calls(into_lambda=False):
            cal = callee(c) or ""
            if cal.endswith("DynamicConstructorDataGlobal::addTensor"):
                nd5 += 1
                ok = bool(must_pass_after(f, c, is_load))
                chk.ob("C09-D5.eject", f.key + f.sig, "addTensor @%d is followed by loadConstructedTensors on every path" % c.get("l", 0), ok, f.loc(c),
                       "" if ok else "a tensor completed by the sample that created it stays parked and is dropped by finishConstruction: one-at-a-time delivery loads fewer points than one batch")
            elif cal.endswith("DynamicConstructorDataGlobal::addNewNode"):
                nd5 += 1
                # every exit either passes loadConstructedTensors or lies on an edge where the result is known not to be tensor_complete
                loads = [x for x in f.calls(into_lambda=False) if is_load(x)]
                ok = bool(must_pass_after(f, c, is_load))
                how = "unconditional"
                if not ok:
                    how = "conditional"
                    for x in loads:
                        edges = [(txt(strip(e)), tr) for e, tr in cond_edges_dominating(f, x)]
                        if any("tensor_complete" in t and "==" in t and tr for t, tr in edges):
                            ok = True
                            how = "on the tensor_complete edge"
                chk.ob("C09-D5.eject", f.key + f.sig, "addNewNode @%d: a completed tensor is loaded" % c.get("l", 0), ok, f.loc(c), how)
    # the same for every other routine of the two classes that registers tensors (candidate lists)
    for f in [g for g in db.all_functions(["SparseGrids/tsgGridGlobal.cpp", "SparseGrids/tsgGridFourier.cpp"]) if g.cls in ("TasGrid::GridGlobal", "TasGrid::GridFourier")
              and short(g.name) not in ("loadConstructedPoint", "beginConstruction") and not g.d.get("islambda")]:
        for c in f.calls(into_lambda=False):
            if (callee(c) or "").endswith("DynamicConstructorDataGlobal::addTensor"):
                nd5 += 1
                chk.saw(f)
                ok = bool(must_pass_after(f, c, lambda x: (callee(x) or "").endswith(("GridGlobal::loadConstructedTensors", "GridFourier::loadConstructedTensors"))))
                chk.ob("C09-D5.eject", f.key + f.sig, "addTensor in %s is followed by loadConstructedTensors on every path" % short(f.name), ok, f.loc(c),
                       "" if ok else "a candidate tensor whose samples all arrived earlier is registered complete and then neither proposed nor loaded: the samples are dropped at finishConstruction")
    chk.floor("C09-D5.eject", nd5, 10, "parking / registration sites in the tensor-based loadConstructedPoint overloads (Global, Fourier)")

    # ------------------------------------------------------------------ D9 sibling batch routes
    chk.rule("C09-D9.batchroots", "the two batch promotion routines (local polynomial and wavelet getLargestConnected) inject the parent-less candidates under the same condition: "
                                  "whenever a level-zero point is still missing from the grid, not only when the grid is empty (a corner that arrives in a later batch must still be admitted)")
    sib = []
    for f in [g for fs_ in db.load_all().values() for g in fs_ if short(g.name) == "getLargestConnected" and not g.d.get("islambda") and "test" not in g.file.lower()]:
        loc = {v["did"]: v for v in f.locals().values() if "did" in v}
        rootsv = {d for d, v in loc.items() if "Data2D<int>" in v.get("t", "")}
        for q in f.walk(into_lambda=False):
            if q.get("k") == "CXXOperatorCallExpr" and q.get("op") == "=":
                ch = [x for x in q.get("c", []) if isinstance(x, dict)]
                if any(x.get("k") == "DeclRefExpr" and x.get("did") in rootsv for x in walk(ch[-1])) and "MultiIndexSet" in (strip(ch[-2]) or {}).get("t", ""):
                    guards = sorted({(txt(strip(e)).replace(" ", ""), tr) for e, tr in cond_edges_dominating(f, q)})
                    sib.append((f, q, guards))
    if len(sib) < 2:
        raise AnalysisBroken("root injection of the batch promotion routines not found")
    ref = {}
    for f, q, g in sib:
        ref.setdefault(tuple(g), []).append(f)
    major = max(ref.items(), key=lambda kv: len(kv[1]))[0]
    for f, q, g in sib:
        chk.saw(f)
        ok = tuple(g) == major and any("getNumIndexes()>0" in t or ".empty()" in t for t, tr in g)
        chk.ob("C09-D9.batchroots", f.key, "condition of the root injection", ok and len(ref) == 1, f.loc(q), "guards %s" % list(g), "the same condition in every sibling: level-zero points are missing")

    # ------------------------------------------------------------------ D8
    chk.rule("C09-D8.relatives", "every routine that decides connectivity by enumerating the immediate relatives of an index (single-sample admission, batch promotion of parked samples) "
                                 "visits all of them: kids 0..max-1, the parent and, for rules with two parents, the step-parent")
    nd8 = relatives_rule(chk, db, "C09-D8.relatives")
    chk.floor("C09-D8.relatives", nd8, 8, "relative enumerations (function x rule)")

    # ------------------------------------------------------------------ D7
    chk.rule("C09-D7.flags", "typestate of the per-tensor sample flags: 'complete' is represented by an empty `loaded` vector (the only state ejectCompleteTensor and getNodesIndexes recognise); "
                             "every routine that sets a flag passes, on every path to its exit, a completeness test over the flags whose true edge empties the vector")
    nd7 = 0
    for f in db.all_functions(["SparseGrids/tsgDConstructGridGlobal.cpp", "SparseGrids/tsgDConstructGridGlobal.hpp"]):
        if f.cls != "TasGrid::DynamicConstructorDataGlobal" or f.d.get("islambda"):
            continue
        sets = []
        for q in f.walk():
            if q.get("k") in ("BinaryOperator", "CXXOperatorCallExpr") and q.get("op") == "=":
                ch = [c for c in q.get("c", []) if isinstance(c, dict)]
                lhs = ch[-2] if q["k"] == "CXXOperatorCallExpr" else ch[0]
                if any(x.get("k") == "CXXOperatorCallExpr" and x.get("op") == "[]" for x in walk(lhs)) and any(short(x.get("field") or "") == "loaded" for x in walk(lhs)) \
                        and "true" in txt(ch[-1]):
                    sets.append(q)
        if not sets:
            continue
        chk.saw(f)

        def normalises(x):
            if (callee(x) or "") != "std::all_of" or not any(short(y.get("field") or "") == "loaded" for y in walk(x)):
                return False
            iff = next((a for a in f.ancestors(x) if a.get("k") == "IfStmt"), None)
            if iff is None or not any(y is x for y in walk(iff.get("cond"))):
                return False
            for y in walk(iff.get("then")):
                t = txt(y)
                if ((callee(y) or "").endswith("::clear") and "loaded" in txt(strip(call_object(y)) or {})) or \
                        (y.get("k") == "CXXOperatorCallExpr" and y.get("op") == "=" and ".loaded = " in t and ("vector<bool>()" in t or "vector()" in t)):
                    return True
            return False
        # a normalisation that runs for every element of the container the flag write iterates over: the loop header stands for it
        # (the zero-trip path is infeasible, the write happened inside an iteration over the same, unmodified container)
        headers = {}
        for q in f.walk():
            if q.get("k") == "CXXForRangeStmt" and q.get("range") is not None:
                inner = [x for x in walk(q.get("body")) if x.get("k") == "CallExpr" and normalises(x)]
                for x in inner:
                    chain = []
                    for a in f.ancestors(x):
                        if a is q:
                            break
                        chain.append(a)
                    if sum(1 for a in chain if a.get("k") in ("IfStmt", "ForStmt", "WhileStmt", "CXXForRangeStmt", "SwitchStmt", "ConditionalOperator")) == 1:   # only its own if
                        headers[id(strip(q["range"]))] = txt(strip(q["range"]))
                        headers[id(q["range"])] = txt(strip(q["range"]))
        grows = any((callee(c) or "").endswith(("::erase_after", "::pop_front", "::clear", "::remove_if")) and txt(strip(call_object(c)) or {}) == "tensors" for c in f.calls())
        for w in sets:
            nd7 += 1
            over = {txt(strip(a["range"])) for a in f.ancestors(w) if a.get("k") == "CXXForRangeStmt" and a.get("range") is not None}
            ok = bool(must_pass_after(f, w, lambda x: normalises(x) or (not grows and headers.get(id(x)) in over)))
            chk.ob("C09-D7.flags", f.key, "flag set @%d is followed by the completeness test" % w.get("l", 0), ok, f.loc(w),
                   "" if ok else "a tensor whose samples are all present leaves %s with all flags true but not marked complete: it is never ejected and its samples are dropped" % short(f.name))
    chk.floor("C09-D7.flags", nd7, 3, "flag writes in DynamicConstructorDataGlobal")

    # ------------------------------------------------------------------ D6
    chk.rule("C09-D6.roots", "the single-sample route admits a point without loaded relatives exactly when the batch route (getLargestConnected / getLevelZeroPoints: getParent == -1 in every "
                             "direction) treats it as a root: per component, the admission predicate equals getParent<rule>(k) == -1 for k = 0..%d" % (NPTS - 1))
    nd6 = root_rule(chk, db, "C09-D6.roots")
    chk.floor("C09-D6.roots", nd6, 5, "instantiations of the single-sample admission test")

    # ------------------------------------------------------------------ D4
    nr = hierarchy_relations(chk, db, "C09-D4.relations")
    chk.floor("C09-D4.relations", nr, 4, "local polynomial rules with closed-form hierarchy relations")

    from rules import seqnodes
    nsq = seqnodes.seqnodes_rule(chk, db, "C09-D11.nodes")
    chk.floor("C09-D11.nodes", nsq, 2, "index sets converted to coordinates in GridSequence")

    # ------------------------------------------------------------------ D10 registrations that hold delivered samples survive a request for candidates
    chk.rule("C09-D10.keep", "a request for candidates re-registers the candidate tensors; the routine that forgets the old registrations erases a record only under a condition that looks at "
                             "its delivered-sample flags (`loaded`): a record that already holds samples is the only way those samples are found when the tensor becomes admissible, "
                             "and finishConstruction() drops what was never found")
    nkeep = 0
    for f in db.fns("TasGrid::DynamicConstructorDataGlobal::clearTesnors", required=False):
        loc = {v["did"]: v for v in f.locals().values() if "did" in v}
        for c in f.calls():
            if short(callee(c) or "") not in ("erase_after", "erase", "remove_if", "clear") or not is_reachable(f, c):
                continue
            nkeep += 1
            chk.saw(f)
            looks = False
            for cnd, truth in cond_edges_dominating(f, c):
                nodes = [cnd] + list(walk(cnd))
                # a local flag stands for its initialiser
                for q in list(nodes):
                    if q.get("k") == "DeclRefExpr" and q.get("did") in loc and loc[q["did"]].get("c"):
                        nodes += [loc[q["did"]]["c"][0]] + list(walk(loc[q["did"]]["c"][0]))
                if any(q.get("k") == "MemberExpr" and short(q.get("field") or "") == "loaded" for q in nodes):
                    looks = True
            chk.ob("C09-D10.keep", f.key, "registrations are erased only after a look at their delivered samples", looks, f.loc(c),
                   "" if looks else "every record with a non-negative weight is erased: samples delivered for a tensor that is not admissible yet lose their record and are not found again "
                   "unless another list of candidates is requested")
    chk.floor("C09-D10.keep", nkeep, 1, "erase sites in clearTesnors")

    # ------------------------------------------------------------------ D13 the flags of a tensor record are rebuilt from all delivered samples
    chk.rule("C09-D13.scan", "wherever the delivered-sample flags of a tensor record are (re)built from the store of waiting samples - when a tensor is registered and after a grid is read - "
                             "the loop over the store visits every sample: it contains no break / return, so a tensor that already holds several samples is not asked for them again")
    nscan = 0
    for f in db.all_functions(["SparseGrids/tsgDConstructGridGlobal.cpp", "SparseGrids/tsgDConstructGridGlobal.hpp"]):
        if f.cls != "TasGrid::DynamicConstructorDataGlobal" or f.d.get("islambda"):
            continue
        for lp in f.walk():
            if lp.get("k") != "CXXForRangeStmt" or lp.get("range") is None:
                continue
            rng = strip(lp["range"])
            if rng is None or rng.get("k") != "MemberExpr" or short(rng.get("field") or "") != "data":
                continue
            body = lp.get("body")
            marks = [q for q in walk(body) if q.get("k") in ("BinaryOperator", "CXXOperatorCallExpr") and q.get("op") == "=" and "loaded[" in txt(strip([c for c in q["c"] if isinstance(c, dict)][-2]))
                     and txt(strip([c for c in q["c"] if isinstance(c, dict)][-1])) == "true"] if body is not None else []
            if not marks:
                continue
            nscan += 1
            chk.saw(f)
            exits = [q for q in walk(body, into_lambda=False) if q.get("k") in ("BreakStmt", "ReturnStmt", "GotoStmt")]
            chk.ob("C09-D13.scan", f.key, "scan of the waiting samples that marks the flags @%d" % lp.get("l", 0), not exits, f.loc(lp),
                   "" if not exits else "the scan ends at line %d after the first hit: further samples of the same tensor stay unmarked and are requested again" % exits[0].get("l", 0))
    chk.floor("C09-D13.scan", nscan, 2, "flag-building scans of the sample store")

    # ------------------------------------------------------------------ D12 samples that wait in the construction data keep their values in a copy
    chk.rule("C09-D12.restrict", "a grid copied in the middle of a construction with a subset of its outputs keeps the waiting samples with the values of exactly these outputs: every copy "
                                 "constructor restricts the construction data with the range it copies, and restrictData keeps the entries [ibegin, iend) of every sample "
                                 "(slice model; obligations of C11-D2.split that concern the construction data)")
    from tsg.report import Check
    from rules import c11
    sub = Check("C11", chk.tier, chk.seed)
    c11.run(sub)
    chk.absorb(sub)
    nrs = 0
    for o in sub.obls:
        if o["rule"] == "C11-D2.split" and ("restrict" in o["construct"]):
            nrs += 1
            chk.ob("C09-D12.restrict", o["function"], o["construct"], o["ok"], o["where"], o["detail"], o["expected"])
    chk.floor("C09-D12.restrict", nrs, 6, "restriction obligations shared with C11")

    return ("Static rule discharge: must-pass-through of an insert-or-park sink in every loadConstructedPoint overload, who-may-remove for the parked samples, guard dominance for candidate "
            "appends, eject-after-register agreement of the two GridGlobal overloads, ordering of the single-point expansion, the strip insertion kernel, and the inverse relation between the upward and downward hierarchy maps (partial evaluation of "
            "getParent/getStepParent/getKid). Equality of the final grid across permutations and batchings of the sample stream is a property of histories and is not decided.")
