"""Caches that are validated by their size only (shared by C02 / C03 / C04).

GridLocalPolynomial keeps the parent DAG of its point set in a member (`parents`).  The consumers (interpolation weights,
quadrature weights, transposed transforms, write) decide whether the cache is current by comparing its number of strips with
the number of points.  A size test is sound exactly when the described set can only grow between two looks at the cache:
every operation that *replaces* the set (assigns it from something that is not a growth of the old one) must therefore
refresh or clear the cache before it returns.  The rule finds the caches and the described sets from the code:

  cache M        a data member of the class that some method compares, through a size accessor, with the size accessor of an
                 index set (`M.getNumStrips() != S.getNumIndexes()`), where S is a member or a local alias of members; when the
                 alias is a conditional over two members, S is the one the writers of M compute the cache from;
  growth         `S += ..`, `S.addSortedIndexes(..)`, or `S = ..` on the true edge of `S.empty()` (the first load);
  replacement    every other assignment to S outside a constructor context (constructors, and methods only called by them).

Obligation per replacement site: every path from the site to the function exit writes M.
"""
from tsg.facts import strip, txt, short, walk, callee, call_object
from tsg.flow import cond_edges_dominating, is_reachable
from tsg.typestate import member_writes, must_pass_after, member_of
from tsg.build import AnalysisBroken

SIZE_OF_CACHE = ("getNumStrips", "size", "getTotalEntries")
SIZE_OF_SET = ("getNumIndexes",)


def _size_call(n, names):
    n = strip(n)
    if n is None or n.get("k") != "CXXMemberCallExpr":
        return None
    cal = callee(n) or ""
    if short(cal) not in names:
        return None
    return call_object(n)


def _alias_members(fn, obj):
    """members an expression (member, or local reference initialised from members / a conditional over members) stands for"""
    obj = strip(obj)
    if obj is None:
        return set()
    f = member_of(obj)
    if f:
        return {short(f)}
    if obj.get("k") == "DeclRefExpr" and "did" in obj:
        d = next((v for v in fn.locals().values() if v.get("did") == obj["did"]), None)
        out = set()
        for c0 in (d or {}).get("c", []):
            if isinstance(c0, dict):
                for q in [c0] + list(walk(c0)):
                    if q.get("k") == "MemberExpr":
                        f = member_of(q)
                        if f:
                            out.add(short(f))
        return out
    return set()


def find_caches(db, cls, files):
    """{cache member: set of described members} from the size comparisons found in the methods of cls"""
    out = {}
    sites = {}
    for f in db.all_functions(files):
        if f.cls != cls:
            continue
        for n in f.walk():
            if n.get("k") != "BinaryOperator" or n.get("op") not in ("!=", "=="):
                continue
            a, b = n["c"][0], n["c"][1]
            for x, y in ((a, b), (b, a)):
                co = _size_call(x, SIZE_OF_CACHE)
                so = _size_call(y, SIZE_OF_SET)
                if co is None or so is None:
                    continue
                m = member_of(co)
                if not m:
                    continue
                sets = _alias_members(f, so)
                if not sets:
                    continue
                out.setdefault(short(m), set()).update(sets)
                sites.setdefault(short(m), []).append(f.loc(n))
    # a cache that is consulted through a conditional alias (`work = points.empty() ? needed : points`) describes the set it is computed from
    for m in list(out):
        src = set()
        for f in db.all_functions(files):
            if f.cls != cls and not any(short(fl) == m for _, fl, _ in member_writes(f, into_lambda=False)):
                continue
            for w, fl, kd in member_writes(f, into_lambda=False):
                if short(fl) != m:
                    continue
                for q in walk(w):
                    if q.get("k") == "MemberExpr":
                        g = member_of(q)
                        if g and short(g) != m:
                            src.add(short(g))
        if out[m] & src:
            out[m] &= src
    return out, sites


def ctor_context(db, cls, files):
    """constructors of cls and the methods of cls that are only called from them"""
    fns = [f for f in db.all_functions(files) if f.cls == cls]
    ctx = {(f.key, f.sig) for f in fns if f.d.get("isctor")}
    callers = {}
    for g in db.all_functions(None):
        for c in g.calls():
            t = db.resolve(c)
            if t is not None and t.cls == cls:
                callers.setdefault((t.key, t.sig), set()).add((g.key.split("::lambda@")[0], g.sig if "::lambda@" not in g.key else None))
    changed = True
    while changed:
        changed = False
        for f in fns:
            k = (f.key, f.sig)
            if k in ctx or f.d.get("islambda"):
                continue
            cs = callers.get(k)
            if cs and all(any(c[0] == x[0] for x in ctx) for c in cs):
                ctx.add(k)
                changed = True
    return ctx


def size_cache_rule(chk, db, rule_id, cls="TasGrid::GridLocalPolynomial", files=None, floor_caches=1, floor_sites=1):
    files = files or ["SparseGrids/tsgGridLocalPolynomial.cpp", "SparseGrids/tsgGridLocalPolynomial.hpp"]
    chk.rule(rule_id, "a cache member that its consumers validate by size only (`cache.getNumStrips() != set.getNumIndexes()`) is refreshed or cleared on every path after "
                      "each assignment that replaces the described index set (an assignment that is neither a growth of the old set nor the first load of an empty one, "
                      "outside constructor context): a replaced set of the same size would otherwise be served by the stale cache")
    caches, sites = find_caches(db, cls, files)
    if len(caches) < floor_caches:
        raise AnalysisBroken("%s: no size-validated cache found in %s" % (rule_id, cls))
    ctx = ctor_context(db, cls, files)
    nsite = 0
    for m, sets in sorted(caches.items()):
        chk.note(rule_id, sites[m][0], "cache `%s` describes %s; validated by size at %d site(s)" % (m, sorted(sets), len(sites[m])))
        for f in db.all_functions(files):
            if f.cls != cls or f.d.get("islambda") or (f.key, f.sig) in ctx or f.d.get("isdtor"):
                continue
            for w, fld, kind in member_writes(f, into_lambda=False):
                if short(fld) not in sets or kind != "assign" or not is_reachable(f, w):
                    continue
                s = short(fld)
                # first load of an empty set
                first = False
                for cnd, truth in cond_edges_dominating(f, w):
                    t = txt(strip(cnd)).replace("this->", "")
                    if truth and t == "%s.empty()" % s:
                        first = True
                    if (not truth) and t in ("!%s.empty()" % s,):
                        first = True
                if first:
                    continue
                rhs = w["c"][1] if w.get("k") in ("BinaryOperator",) else (w.get("c") or [None])[-1]
                if rhs is not None and any(q.get("k") == "MemberExpr" and short(member_of(q) or "") == s for q in [rhs] + list(walk(rhs))):
                    continue        # S = S + X and the like: growth
                nsite += 1
                chk.saw(f)
                mw = [x for x, fl, kd in member_writes(f, into_lambda=False) if short(fl) == m]
                # `if (!M.empty()) M = ...` : on the path that skips the write the cache is empty, which no size test accepts for a non-empty set
                guards = []
                for a in f.walk(into_lambda=False):
                    if a.get("k") == "IfStmt" and a.get("cond") is not None:
                        t = txt(strip(a["cond"])).replace("this->", "").replace(" ", "")
                        br = a.get("then") if t in ("!%s.empty()" % m, "%s.getNumStrips()!=0" % m, "%s.getNumStrips()>0" % m) else a.get("else") if t == "%s.empty()" % m else None
                        if br is not None and any(any(q is x for q in [br] + list(walk(br))) for x in mw):
                            guards.extend([a["cond"]] + list(walk(a["cond"])))
                ok = must_pass_after(f, w, lambda n: any(x is n for x in mw) or any(g is n for g in guards))
                chk.ob(rule_id, f.key + f.sig, "`%s` replaced at line %d: every path to the exit writes `%s`" % (s, w.get("l", 0), m), bool(ok), f.loc(w),
                       "" if ok else "the set is replaced and the function can return without touching the cache that is validated by size only",
                       "%s refreshed or cleared after the replacement" % m)
    chk.floor(rule_id, nsite, floor_sites, "replacement sites of a set described by a size-validated cache")
    return nsite
