"""Sequence grids: the node cache covers every index that is turned into a coordinate (shared by C06 / C09).

GridSequence keeps the 1-D nodes in a cache that prepareSequence(n) extends to max(loaded, needed, n).  The cache is not stored in a file:
the reader rebuilds it from the loaded and needed points only.  A method that converts further index sets to coordinates (the initial points
of a construction, new candidates) must therefore ask for them explicitly: every index set whose entries are read in the method and that is not
`points` / `needed` appears as `<set>.getMaxIndex()` in the argument of a prepareSequence() call that precedes the conversion.
"""
from tsg.facts import strip, txt, walk, callee, call_args, call_object, short
from tsg.flow import is_reachable
from tsg.typestate import must_pass_before
from tsg.build import AnalysisBroken

CONVERT = ("listToNodes", "getIndexesToNodes", "indexesToNodes")


def seqnodes_rule(chk, db, rule_id):
    chk.rule(rule_id, "in every GridSequence method that turns multi-indexes into coordinates through the node cache, each index set that is read there (other than the loaded and needed points, "
                      "which prepareSequence() covers by itself) is named as <set>.getMaxIndex() in the argument of a prepareSequence() call that precedes the conversion: the cache is not "
                      "part of the file, after read() it is only as long as the loaded / needed points require")
    n = 0
    for f in db.all_functions(["SparseGrids/tsgGridSequence.cpp"]):
        if f.cls != "TasGrid::GridSequence" or f.d.get("islambda"):
            continue
        conv = [c for c in f.calls(into_lambda=False) if short(callee(c) or "").split("<")[0] in CONVERT and is_reachable(f, c)]
        if not conv:
            continue
        prep = [c for c in f.calls(into_lambda=False) if short(callee(c) or "") == "prepareSequence" and is_reachable(f, c)]
        sets = {}
        for c in f.calls(into_lambda=False):
            if short(callee(c) or "") in ("copyIndex", "getIndex", "getNumIndexes") and call_object(c) is not None and "MultiIndexSet" in ((strip(call_object(c)) or {}).get("t") or ""):
                t = txt(strip(call_object(c))).replace("this->", "")
                if t not in ("points", "needed", "work"):
                    sets[t] = c
        for c in conv:
            for a in call_args(c):
                s_ = strip(a)
                if s_ is not None and "MultiIndexSet" in (s_.get("t") or "") and s_.get("k") in ("DeclRefExpr", "MemberExpr"):
                    t = txt(s_).replace("this->", "")
                    if t not in ("points", "needed", "work"):
                        sets[t] = c
        for sname, site in sorted(sets.items()):
            n += 1
            chk.saw(f)
            want = (sname + ".getMaxIndex()").replace(" ", "")
            covering = [p_ for p_ in prep if want in txt(call_args(p_)[0]).replace(" ", "").replace("this->", "")] if prep else []
            ok = bool(covering) and all(any(must_pass_before(f, c, lambda q, p_=p_: q is p_) for p_ in covering) for c in conv)
            chk.ob(rule_id, f.key + f.sig, "nodes of `%s` are in the cache before they are converted" % sname, ok, f.loc(site),
                   "" if ok else "no prepareSequence(... %s ...) precedes the conversion: on a grid restored from a file the cache ends at the loaded / needed points and the coordinates "
                   "of further indexes are read past its end" % want)
    return n
