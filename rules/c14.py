"""C14  Misuse is reported by the documented exceptions and never corrupts a grid (structural clauses)."""
import networkx as nx

from tsg.facts import DB, strip, txt, callee, call_args, call_object, walk, const_val, short, callee_node
from tsg.flow import var_of, base_var, cond_edges_dominating, is_reachable
from tsg.typestate import member_writes, member_of, must_pass_after
from tsg.effects import Purity
from tsg.build import AnalysisBroken

TSG = "TasGrid::TasmanianSparseGrid"
CPP = "SparseGrids/TasmanianSparseGrid.cpp"
HPP = "SparseGrids/TasmanianSparseGrid.hpp"
ALLOWED = ("std::runtime_error", "std::invalid_argument")
STATE = ("base", "domain_transform_a", "domain_transform_b", "conformal_asin_power", "llimits", "using_dynamic_construction")
# std calls that throw other exception types on bad input
THROWING_STD = {"std::stoi": "std::out_of_range / std::invalid_argument", "std::stol": "std::out_of_range", "std::stod": "std::out_of_range", "std::stof": "std::out_of_range"}


def throw_type(n):
    for q in walk(n):
        if q.get("k") in ("CXXConstructExpr", "CXXTemporaryObjectExpr") and q.get("ctor", "").startswith("std::") and ("error" in q["ctor"] or "argument" in q["ctor"] or "exception" in q["ctor"] or "range" in q["ctor"]):
            return q["ctor"]
    c = n.get("c") or []
    if not c:
        return "rethrow"
    return (strip(c[0]) or {}).get("t", "?")


def formula(node, atoms):
    """propositional abstraction of a condition: && || ! over atoms named by their canonical text"""
    import sympy
    s = strip(node, casts=False)
    if s is None:
        return sympy.true
    k = s.get("k")
    if k == "BinaryOperator" and s.get("op") == "&&":
        return sympy.And(formula(s["c"][0], atoms), formula(s["c"][1], atoms))
    if k == "BinaryOperator" and s.get("op") == "||":
        return sympy.Or(formula(s["c"][0], atoms), formula(s["c"][1], atoms))
    if k == "UnaryOperator" and s.get("op") == "!":
        return sympy.Not(formula(s["c"][0], atoms))
    t = txt(s)
    if t not in atoms:
        atoms[t] = sympy.Symbol("a%d" % len(atoms))
    return atoms[t]


def feasible_together(fn, n1, n2, mutated):
    """can one execution satisfy the branch conditions that dominate n1 and those that dominate n2?
    Atoms are treated as stable between the two points unless they mention a mutated field."""
    import sympy
    from sympy.logic.inference import satisfiable
    atoms = {}
    parts = []
    for node in (n1, n2):
        for c, tr in cond_edges_dominating(fn, node):
            if any(m in txt(c) for m in mutated):
                continue
            f = formula(c, atoms)
            parts.append(f if tr else sympy.Not(f))
    if not parts:
        return True
    return bool(satisfiable(sympy.And(*parts)))


def reach(cfg, frm_block, frm_idx, to_block, to_idx):
    """element (to) reachable from just after element (frm) along CFG edges"""
    if frm_block == to_block and to_idx > frm_idx:
        return True
    for s in cfg.succs(frm_block):
        if s == to_block or nx.has_path(cfg.G, s, to_block):
            return True
    return False


def stream_rule(chk, db, rule_id):
    """every instantiated stream-reading primitive tests the stream after its last extraction and throws std::runtime_error"""
    nprim = 0
    for f in db.all_functions(["SparseGrids/tsgIOHelpers.hpp"]):
        if not short(f.name).startswith("read") or f.d.get("islambda"):
            continue
        ext = [c for c in f.calls(into_lambda=False) if is_reachable(f, c) and ((callee(c) or "").endswith("::read") and "istream" in (callee(c) or "") or
                                                                            (c.get("k") == "CXXOperatorCallExpr" and c.get("op") == ">>" and "istream" in (callee(c) or "")))]
        if not ext:
            continue        # composed of other primitives
        nprim += 1
        chk.saw(f)

        def state_test(x, f=f):
            if not ((callee(x) or "").endswith(("::fail", "::good", "::bad", "::eof")) or (x.get("k") == "CXXOperatorCallExpr" and x.get("op") == "!") or (callee(x) or "").endswith("operator bool")):
                return False
            iff = next((a for a in f.ancestors(x) if a.get("k") == "IfStmt"), None)
            return iff is not None and any(y is x for y in walk(iff.get("cond"))) and any(y.get("k") == "CXXThrowExpr" and "runtime_error" in throw_type(y) for y in walk(iff.get("then")))
        bad = [c for c in ext if not must_pass_after(f, c, state_test)]
        chk.ob(rule_id, f.key, "stream state tested after the extraction", not bad, f.where,
               "extraction @%s is not followed by a test of the stream that throws" % [c.get("l") for c in bad][:3] if bad else "%d extraction(s)" % len(ext))
    return nprim


def run(chk):
    db = DB("serial")
    db.load_all()
    chk.rule("C14-D1.types", "over the call-graph closure of the public methods of TasmanianSparseGrid every throw constructs std::runtime_error or std::invalid_argument; "
                             "standard conversions that throw other types (std::stoi ...) are enclosed in a handler that converts them")
    chk.rule("C14-D2.order", "in every public mutating method no throw is reachable after a write to the grid's state (base, domain transform, conformal map, level limits, construction flag): "
                             "arguments are validated before anything is changed; in make* every check precedes clear()")
    chk.rule("C14-D3.commit", "readAscii/readBinary: the only state change that may precede a throw is the call of clear() (which resets *all* state); restored data are committed after the last throw")
    chk.rule("C14-D4.sizes", "every public method that forwards .data() of a std::vector argument to a raw-pointer overload compares that vector's size first (throwing on mismatch)")
    chk.rule("C14-D6.siblings", "families of entry points that take the same parameters reject the same things: within a family the guards on the common parameter roles are identical "
                                "(today's tree is the reference, no hand-written list)")

    rec = db.record(TSG)
    pub = {(m["name"], m["sig"]) for m in rec["methods"] if m["access"] == "public"}
    fns = [f for f in db.all_functions([CPP, HPP]) if f.cls == TSG and (f.name, f.sig) in pub]
    chk.floor("C14-D1.types", len(fns), 120, "public methods of TasmanianSparseGrid with a body")

    # ------------------------------------------------------------------ D1
    P = Purity(db)      # reuse its call-graph closure (targets incl. virtual overriders)
    seen = set()
    throws = {}
    stdcalls = {}
    work = list(fns)
    while work:
        f = work.pop()
        k = (f.key, f.sig)
        if k in seen:
            continue
        seen.add(k)
        for n in f.walk():
            if n.get("k") == "CXXThrowExpr":
                throws.setdefault((f.name, throw_type(n)), []).append((f, n))
            cal = callee(n)
            if cal in THROWING_STD:
                stdcalls.setdefault((f.name, cal), []).append((f, n))
            if cal is not None:
                for t in P.targets(f, n):
                    if (t.key, t.sig) not in seen and not t.file.startswith("@verif"):
                        work.append(t)
    chk.floor("C14-D1.types", len(seen), 600, "functions in the closure of the public API")
    nthrow = sum(len(v) for v in throws.values())
    chk.floor("C14-D1.types", nthrow, 150, "throw expressions in the closure")
    bad_types = {}
    for (fname, ty), sites in sorted(throws.items()):
        if ty in ALLOWED or ty == "rethrow":
            continue
        f, n = sites[0]
        chk.ob("C14-D1.types", fname, "throws %s" % ty, False, f.loc(n), "reachable from the public API; documented types are std::runtime_error and std::invalid_argument")
    chk.ob("C14-D1.types", "(closure)", "%d throw expressions of the documented types" % sum(len(v) for (fn_, ty), v in throws.items() if ty in ALLOWED), True, "")
    for (fname, cal), sites in sorted(stdcalls.items()):
        for f, n in sites[:1]:
            # enclosed in a try whose handler catches std::exception / logic_error / out_of_range?
            ok = False
            for a in f.ancestors(n):
                if a.get("k") == "CXXTryStmt":
                    cts = [c.get("catch", "") for c in a.get("c", []) if c.get("k") == "CXXCatchStmt"]
                    if any(("out_of_range" in c or "logic_error" in c or "std::exception" in c or c == "...") for c in cts):
                        ok = True
            chk.ob("C14-D1.types", fname, "%s converted" % cal, ok, f.loc(n), "%s can throw %s, which is not a documented exception type" % (cal, THROWING_STD[cal]))

    # ------------------------------------------------------------------ D2 / D3
    from tsg.effects import Effects as _Eff
    effd2 = _Eff(db)
    nmut = 0
    nread = 0
    readers = [f for f in db.all_functions([CPP]) if f.cls == TSG and f.name.rsplit("::", 1)[-1] in ("readAscii", "readBinary")]
    for f in fns + [r for r in readers if r not in fns]:
        if f.d.get("const") or f.d.get("isctor") or f.d.get("isdtor"):
            continue
        last = f.name.rsplit("::", 1)[-1]
        is_read = last in ("readAscii", "readBinary")
        muts = []
        for n, fld, kind in member_writes(f, into_lambda=False):
            if short(fld) in STATE and fld.startswith(TSG + "::"):
                # non-const calls *through* base (base->loadNeededValues) change the grid itself: they count too
                muts.append((n, short(fld)))
        # a call of a non-const method of the same object that (transitively) changes the state is a change as well: clearRefinement(), loadNeededValues() ...
        for c2, t2 in effd2.this_calls(f):
            if t2.d.get("const") or short(t2.name) == "clear" or short(t2.name) == last or any(x is c2 for x, _ in muts):
                continue
            w2 = sorted({short(x) for x in effd2.closure(t2)} & set(STATE))
            if w2:
                muts.append((c2, "%s (through %s())" % (w2[0], short(t2.name))))
        clears = [c for c in f.calls(TSG + "::clear", into_lambda=False)]
        ths = [n for n in walk(f.body, into_lambda=False) if n.get("k") == "CXXThrowExpr"]
        # a call of another validating method of the same object (the overload this one forwards to) can still reject the call:
        # it counts as a throw site when that method throws before it changes anything itself
        fwd_throw = {}
        for c in f.calls(into_lambda=False):
            cal = callee(c) or ""
            if not cal.startswith(TSG + "::") or cal == f.name and (callee_node(c) or {}).get("csig") == f.d.get("sig"):
                pass
            if cal.startswith(TSG + "::") and not is_read:
                t = db.resolve(c)
                # only the overload family of the method itself: a different method called with state taken from a valid grid
                # (copyGrid -> setDomainTransform(source's transform)) cannot be decided from shape and is not claimed
                if t is not None and t.cls == TSG and short(t.name) == last and not t.d.get("const") and (t.key, t.sig) != (f.key, f.sig) and \
                        any(x.get("k") == "CXXThrowExpr" for x in walk(t.body, into_lambda=False)) and short(t.name) not in ("clear",):
                    ths.append(c)
                    fwd_throw[id(c)] = t
        if not muts and not clears:
            continue
        if not ths:
            continue
        chk.saw(f)
        cfg = f.cfg
        items = [(n, fld) for n, fld in muts] + [(c, "clear()") for c in clears]
        for n, fld in items:
            bn = cfg.block_of(n)
            if bn is None:
                continue
            late = []
            for t in ths:
                bt = cfg.block_of(t)
                if bt is None:
                    continue
                # a throw inside the same call expression (argument evaluation) precedes the write
                if t is n or any(x is n for x in walk(t)):
                    continue
                if reach(cfg, bn[0], bn[1], bt[0], bt[1]) and (id(t) in fwd_throw or feasible_together(f, n, t, STATE)):
                    late.append(t)
            nmut += 1
            rule = "C14-D3.commit" if is_read else "C14-D2.order"
            if is_read:
                nread += 1
            if is_read and fld == "clear()":
                chk.ob(rule, f.name + f.sig, "clear() before parsing", True, f.loc(n), "resets the whole object: a failed read leaves an empty, consistent grid")
                continue
            if last.startswith("make") and fld == "clear()":
                chk.ob(rule, f.name + f.sig, "all checks precede clear()", not late, f.loc(n), "throw at line(s) %s after clear()" % sorted({t.get("l") for t in late}) if late else "")
                continue
            chk.ob(rule, f.name + f.sig, "write of %s @%d not followed by a throw" % (fld, n.get("l", 0)), not late, f.loc(n),
                   ("throw at line(s) %s is reachable after %s was changed: a rejected call leaves the grid modified" % (sorted({t.get("l") for t in late}), fld)) if late else "")
    chk.floor("C14-D2.order", nmut, 25, "state writes in methods that can throw")
    chk.floor("C14-D3.commit", nread, 12, "state writes in readAscii/readBinary")

    # ------------------------------------------------------------------ D4
    nfw = 0
    for f in fns:
        vec_params = {p["did"]: p for p in f.params() if "std::vector<" in p["t"] and "&" in p["t"]}
        if not vec_params:
            continue
        for c in walk(f.body, into_lambda=False):
            cal = callee(c) or ""
            if not (cal.startswith(TSG + "::") or cal.startswith("TasGrid::Grid") or cal.startswith("TasGrid::BaseCanonicalGrid")):
                continue
            for a in call_args(c):
                s = strip(a)
                # v.data()  or  (cond) ? nullptr : v.data()
                datas = [q for q in walk(a) if q.get("k") == "CXXMemberCallExpr" and (callee(q) or "").endswith("::data") and var_of(call_object(q)) in vec_params]
                for q in datas:
                    v = vec_params[var_of(call_object(q))]
                    if "const" not in v["t"]:
                        continue      # output vectors are resized by the method itself
                    nfw += 1
                    chk.saw(f)
                    sized = False
                    for i in walk(f.body, into_lambda=False):
                        if i.get("k") == "IfStmt" and ("%s.size()" % v["name"]) in txt(i.get("cond")) and any(x.get("k") == "CXXThrowExpr" for x in walk(i.get("then"))):
                            if i.get("l", 0) <= c.get("l", 0):
                                sized = True
                    # delegated: the callee is another overload taking the vector? no: raw pointer. accept checks done by a size helper
                    if not sized:
                        for i in walk(f.body, into_lambda=False):
                            if (callee(i) or "").endswith(("checkVarSize", "::resize")) and v["name"] in txt(i):
                                sized = True
                            # the number of items handed to the raw overload is derived from the vector's size
                            if i.get("k") == "CXXMemberCallExpr" and (callee(i) or "").endswith("::size") and var_of(call_object(i)) == v["did"] and i.get("l", 0) <= c.get("l", 0):
                                sized = True
                    chk.ob("C14-D4.sizes", f.name + f.sig, "%s.data() forwarded to %s" % (v["name"], short(cal)), sized, f.loc(c),
                           "" if sized else "no size check on %s before its data pointer is handed to the raw overload" % v["name"])
    chk.floor("C14-D4.sizes", nfw, 10, "vector arguments forwarded as raw pointers")

    # ------------------------------------------------------------------ D6 sibling validation cores
    def guards(f, depth=0):
        """set of (role, op, const/extent text, exception type) for throwing guards of f (and of the overload it forwards to)"""
        res = set()
        pnames = {p["name"] for p in f.params()}
        for i in walk(f.body, into_lambda=False):
            if i.get("k") != "IfStmt":
                continue
            th = [x for x in walk(i.get("then")) if x.get("k") == "CXXThrowExpr"]
            if not th or (i.get("else") is not None and not all(x.get("k") == "CXXThrowExpr" for x in [])):
                pass
            if not th:
                continue
            ty = short(throw_type(th[0]))

            def atoms(e):
                s = strip(e, casts=False)
                if s is not None and s.get("k") == "BinaryOperator" and s.get("op") in ("||", "&&"):
                    return atoms(s["c"][0]) + atoms(s["c"][1])
                return [s]
            top = strip(i["cond"], casts=False)
            # `isGlobal() && output == -1`: a restriction of one grid family, decided by C14-D15/D16, not a guard the siblings of other families must share
            family_only = top is not None and top.get("k") == "BinaryOperator" and top.get("op") == "&&" and \
                any(txt(a_).replace("this->", "") in ("isGlobal()", "isSequence()", "isFourier()", "isLocalPolynomial()", "isWavelet()") for a_ in atoms(top))
            if family_only:
                continue
            for a in atoms(i["cond"]):
                t = txt(a)
                used = [p for p in pnames if p in t.replace("(", " ").replace(")", " ").replace(".", " ").replace("!", " ").split()]
                for p in used:
                    res.add((p, t.replace("(size_t)", "").replace("  ", " "), ty))
                # state preconditions shared by a whole family; grid-family tests differ on purpose between
                # sub-families (anisotropic vs surplus candidates) and are not compared
                if not used and "outs ==" in t and "output" in pnames:
                    res.add(("output", t, ty))
                elif not used and any(w in t for w in ("empty()", "using_dynamic_construction", "getNumLoaded()")):
                    res.add(("<state>", t, ty))
        if depth == 0:
            for c in f.calls(into_lambda=False):
                t = db.resolve(c)
                if t is not None and t.cls == TSG and t.name == f.name and t.sig != f.sig:
                    res |= guards(t, 1)
        return res
    families = {
        "make": ["makeGlobalGrid", "makeSequenceGrid", "makeLocalPolynomialGrid", "makeWaveletGrid", "makeFourierGrid"],
        "refine": ["setAnisotropicRefinement", "setSurplusRefinement"],
        "construct": ["getCandidateConstructionPoints"],
    }
    roles = {"make": ["dimensions", "outputs", "depth", "level_limits"], "refine": ["output", "level_limits", "<state>"], "construct": ["level_limits", "<state>"]}
    nfam = 0
    for fam, names in families.items():
        members = [f for f in fns if f.name.rsplit("::", 1)[-1] in names and any("std::vector<int>" in p["t"] for p in f.params())]
        gs = {f: guards(f) for f in members}
        for role in roles[fam]:
            per = {}
            for f in members:
                if role != "<state>" and role not in {p["name"] for p in f.params()}:
                    continue
                gl = sorted((t.replace(f.name.rsplit("::", 1)[-1], "F"), ty) for r, t, ty in gs[f] if r == role)
                # normalise away the method's own name in messages and local aliases
                per[f] = tuple((t, ty) for t, ty in gl)
            if len(per) < 2:
                continue
            # the majority abstract is the reference
            from collections import Counter
            cnt = Counter(per.values())
            ref, _n = cnt.most_common(1)[0]
            for f, g in per.items():
                nfam += 1
                chk.saw(f)
                missing = [x for x in ref if x not in g]
                chk.ob("C14-D6.siblings", f.name + f.sig, "%s family, role %s" % (fam, role), not missing, f.where,
                       ("siblings reject %s, this overload does not" % missing) if missing else "%d guard(s) agree with the family" % len(g))
    chk.floor("C14-D6.siblings", nfam, 20, "family/role comparisons")

    # ------------------------------------------------------------------ D10 counts that size a buffer vs. what is written
    chk.rule("C14-D10.counts", "the container overloads size their output with a count accessor (getNumLoaded / getNumNeeded / getNumPoints); on every path on which the raw overload calls "
                               "the grid's writer, that writer produces exactly as many points as the accessor reports, for every combination of empty / non-empty loaded and needed sets "
                               "and zero / non-zero outputs")
    import itertools
    import sympy as _sp
    from tsg.peval import ArrayPEval as _APE
    from tsg.sym import NotClosedForm as _NCF
    core = {short(f.name): f for f in db.all_functions(["SparseGrids/tsgGridCore.hpp"]) if f.cls == "TasGrid::BaseCanonicalGrid" and short(f.name) in ("getNumLoaded", "getNumNeeded", "getNumPoints")}
    if len(core) != 3:
        raise AnalysisBroken("count accessors of BaseCanonicalGrid not found")

    def count_value(name, Pn, Qn, On):
        def hook(n, ev):
            if n.get("k") == "CXXMemberCallExpr" and (callee(n) or "").endswith(("::getNumIndexes", "::empty")):
                o = strip(call_object(n))
                fld = short(o.get("field") or "") if o is not None and o.get("k") == "MemberExpr" else None
                v = Pn if fld == "points" else Qn if fld == "needed" else None
                if v is None:
                    return None
                return _sp.Integer(v) if (callee(n) or "").endswith("::getNumIndexes") else (_sp.true if v == 0 else _sp.false)
            if n.get("k") == "MemberExpr" and short(n.get("field") or "") == "num_outputs":
                return _sp.Integer(On)
            return None
        pe_ = _APE(db, hook=hook)
        return int(pe_.call(core[name], []))
    PAIRS_ = (("getLoadedPoints", "getNumLoaded", "points"), ("getNeededPoints", "getNumNeeded", "needed"), ("getPoints", "getNumPoints", "work"))
    nct = 0
    for wname, cname, wset in PAIRS_:
        for f in fns:
            if short(f.name) != wname or len(f.params()) != 1 or "*" not in f.params()[0]["t"]:
                continue
            bc = [c for c in f.calls(into_lambda=False) if (callee(c) or "").endswith("BaseCanonicalGrid::" + wname) or ((callee_node(c) or {}).get("virt") and short(callee(c) or "") == wname)]
            if not bc:
                continue
            nct += 1
            chk.saw(f)
            bad = []
            for Pn, Qn, On in itertools.product((0, 5), (0, 3), (0, 2)):
                if On == 0 and Qn != 0:
                    continue            # grids without outputs have no needed points (makeGrid moves them to points)
                # is the writer reached for this combination?  evaluate the dominating conditions
                reached = True
                for e, tr in cond_edges_dominating(f, bc[0]):
                    def hook2(n, ev, Pn=Pn, Qn=Qn, On=On):
                        if n.get("k") == "CXXMemberCallExpr" and short(callee(n) or "") in core:
                            return _sp.Integer(count_value(short(callee(n)), Pn, Qn, On))
                        return None
                    try:
                        v = _APE(db, hook=hook2).expr(e, {}, f, 0)
                        tv = True if v is _sp.true else False if v is _sp.false else None
                    except (_NCF, Exception):
                        tv = None
                    if tv is not None and tv != tr:
                        reached = False
                if not reached:
                    continue
                written = Pn if wset == "points" else Qn if wset == "needed" else (Qn if Pn == 0 else Pn)
                k = count_value(cname, Pn, Qn, On)
                if k != written:
                    bad.append("loaded %d, needed %d, outputs %d: %s() = %d but %s writes %d points" % (Pn, Qn, On, cname, k, wname, written))
            chk.ob("C14-D10.counts", f.key + f.sig, "%s sized by %s" % (wname, cname), not bad, f.loc(bc[0]), "; ".join(bad[:2]), "equal on every path that reaches the writer")
    chk.floor("C14-D10.counts", nct, 3, "raw point getters of the API layer")
    # which set each grid-level writer walks (the table above is checked, not assumed)
    for g in [x for fs_ in db.load_all().values() for x in fs_ if (x.cls or "").startswith("TasGrid::Grid") and short(x.name) in ("getLoadedPoints", "getNeededPoints") and len(x.params()) == 1 and not x.d.get("islambda")]:
        used = {short(q["field"]) for q in g.walk() if q.get("k") == "MemberExpr" and short(q.get("field") or "") in ("points", "needed")}
        want = {"points"} if short(g.name) == "getLoadedPoints" else {"needed"}
        chk.saw(g)
        chk.ob("C14-D10.counts", g.key + g.sig, "walks the %s set" % next(iter(want)), used == want or (not used and any(short(callee(c) or "") in ("getLoadedPoints", "getNeededPoints", "getPoints") for c in g.calls())), g.where, "references %s" % sorted(used))

    # ------------------------------------------------------------------ D9 stream primitives
    chk.rule("C14-D9.stream", "every stream-reading primitive of the I/O layer (readNumber, readVector, readFlag and their instantiations) tests the state of the stream after its last "
                              "extraction on every path and throws std::runtime_error when it failed: a truncated file can then never feed unread memory to the grid readers")
    nprim = stream_rule(chk, db, "C14-D9.stream")
    chk.floor("C14-D9.stream", nprim, 6, "instantiated stream-reading primitives")

    # ------------------------------------------------------------------ D8 late failures inside the grid classes
    chk.rule("C14-D8.late", "inside the mutating methods of the five grid classes no call that can throw (explicit throw in its call-graph closure, acceleration mode none, feasible under the "
                            "constants bound at the call site) is reachable after the first write to a member that defines the points, values or surrogate: a rejected call leaves the grid unchanged. "
                            "Pending-refinement and construction members (needed, updated_*, dynamic_values) and the custom table (re-read only on the constructor path, where a failure discards the object) are exempt")
    from rules.c12 import gpu_only_call
    from tsg.peval import PEval
    from tsg.sym import NotClosedForm, to_sympy
    import sympy
    P2 = Purity(db, skip_call=gpu_only_call)
    pe = PEval(db)
    GRIDCLS = ("TasGrid::GridGlobal", "TasGrid::GridSequence", "TasGrid::GridLocalPolynomial", "TasGrid::GridWavelet", "TasGrid::GridFourier")
    EXEMPT = {"needed", "updated_tensors", "updated_active_tensors", "updated_active_w", "dynamic_values", "custom", "gpu_cache", "gpu_cachef", "acceleration"}
    allf = [f for fs_ in db.load_all().values() for f in fs_ if not f.file.startswith("@verif")]
    direct = {}
    for f in allf:
        th = [n for n in f.walk() if n.get("k") == "CXXThrowExpr" and is_reachable(f, n) and not any(a.get("k") == "CXXCatchStmt" for a in f.ancestors(n))]
        if th:
            direct[(f.key, f.sig)] = th
    memo = {}

    def may_throw(f, stack=()):
        k = (f.key, f.sig)
        if k in memo:
            return memo[k]
        if k in stack or len(stack) > 8:
            return None
        res = None
        if k in direct:
            res = (f, direct[k][0])
        else:
            for c in f.calls():
                if not is_reachable(f, c) or gpu_only_call(f, c):
                    continue
                if any(a.get("k") == "CXXTryStmt" for a in f.ancestors(c)):
                    continue
                for t in P2.targets(f, c):
                    r = may_throw(t, stack + (k,))
                    if r:
                        res = r
                        break
                if res:
                    break
        memo[k] = res
        return res

    def bind(t, c, env_caller, fn_caller):
        args = call_args(c) if c.get("k") not in ("CXXConstructExpr", "CXXTemporaryObjectExpr") else [x for x in c.get("c", []) if isinstance(x, dict)]
        env = {}
        for prm, a in zip(t.params(), args):
            v = const_val(strip(a))
            if v is not None:
                env[prm["did"]] = sympy.Integer(v)
                continue
            if env_caller:
                try:
                    val = pe.expr(a, dict(env_caller), fn_caller, 0)
                    if getattr(val, "is_Integer", False):
                        env[prm["did"]] = val
                except Exception:
                    pass
        return env

    def throws_under(t, env, depth=0, stack=()):
        """can t throw when its parameters are bound as in env (constants only)?  Unknown -> True"""
        k = (t.key, t.sig)
        if k in stack:
            return False        # a recursive call throws only if something else in the function does
        if depth > 8:
            return True
        stack = stack + (k,)
        # members initialised from bound parameters in a constructor's initialiser list are known as well
        menv = {}
        for ini in t.d.get("inits", []) or []:
            if ini.get("field") and ini.get("init") is not None:
                try:
                    v = pe.expr(ini["init"], dict(env), t, 0)
                    if getattr(v, "is_Integer", False) or v is sympy.true or v is sympy.false:
                        menv[ini["field"]] = v
                except Exception:
                    pass

        def res(n):
            if n.get("k") == "DeclRefExpr" and n.get("did") in env:
                return env[n["did"]]
            if n.get("k") == "MemberExpr" and n.get("field") in menv:
                return menv[n["field"]]
            return None
        def dead(node):
            edges = list(cond_edges_dominating(t, node))
            # whole conditions of the enclosing if statements (a disjunction cannot be split into edge facts)
            prev = node
            for a in t.ancestors(node):
                if a.get("k") == "IfStmt" and a.get("cond") is not None:
                    if a.get("then") is not None and any(x is prev for x in [a["then"]]):
                        edges.append((a["cond"], True))
                    elif a.get("else") is not None and any(x is prev for x in [a["else"]]):
                        edges.append((a["cond"], False))
                prev = a
            for cnd, truth in edges:
                try:
                    v = to_sympy(cnd, res)
                    tv = True if v is sympy.true else False if v is sympy.false else None
                except Exception:
                    tv = None
                if tv is not None and tv != truth:
                    return True
            return False
        for th in direct.get(k, []):
            if not dead(th):
                return True
        init_ids = {id(x) for ini in (t.d.get("inits", []) or []) if ini.get("init") is not None for x in walk(ini["init"])}
        for c2 in t.calls():
            if (id(c2) not in init_ids and not is_reachable(t, c2)) or gpu_only_call(t, c2) or any(a.get("k") == "CXXTryStmt" for a in t.ancestors(c2)):
                continue
            if id(c2) not in init_ids and env and dead(c2):
                continue
            for t2 in P2.targets(t, c2):
                if may_throw(t2) and throws_under(t2, bind(t2, c2, env, t), depth + 1, stack):
                    return True
        return False

    def feasible_at(f, c, t):
        return throws_under(t, bind(t, c, {}, f))

    wmemo = {}

    def writes_own_members(t, depth=0):
        k = (t.key, t.sig)
        if k in wmemo:
            return wmemo[k]
        wmemo[k] = True        # recursion guard: assume it writes
        res = bool([1 for w, fld, kd in member_writes(t, into_lambda=False) if is_reachable(t, w)])
        if not res and depth < 3:
            for c, t2 in P2.this_calls(t) if hasattr(P2, "this_calls") else []:
                if writes_own_members(t2, depth + 1):
                    res = True
                    break
        wmemo[k] = res
        return res

    def receiver_untouched(f, w):
        """a non-const method called on a member that (transitively, on its own object) writes nothing is not a change of that member"""
        ts = P2.targets(f, w)
        return bool(ts) and not any(writes_own_members(t) for t in ts)

    nlate = 0
    for f in allf:
        # the factory methods of the API class are included: a failed make must leave the cleared object, nothing stored before the constructor ran.
        # (its other methods are not: the feasibility of their deep throws depends on checks made in other methods, which the constant binding cannot see)
        if not (f.cls in GRIDCLS or (f.cls == "TasGrid::TasmanianSparseGrid" and short(f.name).startswith("make"))) or f.d.get("const") or f.d.get("isctor") or f.d.get("isdtor") or f.d.get("islambda"):
            continue
        last = short(f.name)
        if last.startswith("read"):
            continue        # a failed read discards the object under construction (C14-D3 decides the commit at the top level)
        ws = [(w, short(fld)) for w, fld, kd in member_writes(f, into_lambda=False) if is_reachable(f, w) and short(fld) not in EXEMPT and
              not (kd == "update" and w.get("k") == "CXXMemberCallExpr" and receiver_untouched(f, w))]
        if not ws:
            continue
        cfg = f.cfg
        risky = []
        for c in f.calls(into_lambda=False):
            if not is_reachable(f, c) or gpu_only_call(f, c) or any(a.get("k") == "CXXTryStmt" for a in f.ancestors(c)):
                continue
            for t in P2.targets(f, c):
                r = may_throw(t)
                if r and feasible_at(f, c, t):
                    risky.append((c, t, r))
                    break
        if not risky:
            continue
        chk.saw(f)
        for c, t, r in risky:
            bc = cfg.block_of(c)
            # a write that is the same statement as the call (member = Type(args), or the call itself through a helper on this object) is atomic:
            # the new value is built first and assigned only if that succeeded
            def same_stmt(w):
                return w is c or any(x is c for x in walk(w)) or any(x is w for x in walk(c))
            before = [(w, fld) for w, fld in ws if cfg.block_of(w) is not None and bc is not None and not same_stmt(w) and
                      reach(cfg, cfg.block_of(w)[0], cfg.block_of(w)[1], bc[0], bc[1])]
            nlate += 1
            chk.ob("C14-D8.late", f.key + f.sig, "call of %s (may throw in %s)" % (short(t.name), short(r[0].name)), not before, f.loc(c),
                   "members %s are already changed when the call can still fail" % sorted({fld for w, fld in before})[:6] if before else "",
                   "every throwing call precedes the first change of the grid")
    chk.floor("C14-D8.late", nlate, 3, "throwing calls in grid-class mutators that also change the grid")

    # ------------------------------------------------------------------ D12 the pending-refinement members change together or not at all
    chk.rule("C14-D12.group", "the members that clearRefinement() of a grid class resets form the pending-refinement group of that class (Global, Fourier: needed, updated_tensors, "
                              "updated_active_tensors, updated_active_w); they are written and read back together, so a grid that has some of them set is not a grid the reader accepts. "
                              "Along every path of every mutating method, once one member of the group has been written, no call that can still throw (C14-D8's feasibility) is made until the whole "
                              "group has been written or reset, and no method returns with a part of the group written: a rejected refinement leaves the pending refinement as it was, an accepted "
                              "one leaves a state that write() / read() reproduce")
    from tsg.effects import Effects
    from tsg.flow import forward
    effg = Effects(db)
    ngrp = 0
    ngroups = 0
    for cls in GRIDCLS:
        crs = db.fns(cls + "::clearRefinement", required=False)
        if not crs:
            continue
        G = frozenset(short(fld) for w, fld, kd in member_writes(crs[0], into_lambda=False))
        if len(G) < 2:
            continue
        ngroups += 1
        chk.note("C14-D12.group", crs[0].where, "%s: group %s" % (short(cls), sorted(G)))
        # the co-serialized part of the group: the writer of the class tests one member and stores several under that test
        FLAG, SUB = None, frozenset()
        for wf in db.fns(cls + "::write", required=False):
            for a in wf.walk():
                if a.get("k") != "IfStmt" or a.get("cond") is None or a.get("then") is None:
                    continue
                cm = {short(member_of(q) or "") for q in [a["cond"]] + list(walk(a["cond"])) if q.get("k") == "MemberExpr"} & G
                tm = {short(member_of(q) or "") for q in walk(a["then"]) if q.get("k") == "MemberExpr"} & G
                if len(cm) == 1 and len(tm | cm) >= 2:
                    FLAG, SUB = next(iter(cm)), frozenset(tm | cm)
        if FLAG is None:
            raise AnalysisBroken("C14-D12: the writer of %s does not store part of the group %s under the emptiness of one member" % (cls, sorted(G)))
        chk.note("C14-D12.group", crs[0].where, "%s: written under `!%s.empty()`: %s" % (short(cls), FLAG, sorted(SUB)))
        summ = {}

        def summary(t):
            k = (t.key, t.sig)
            if k not in summ:
                summ[k] = frozenset(short(x) for x in effg.closure(t)) & G
            return summ[k]
        for f in allf:
            if f.cls != cls or f.d.get("const") or f.d.get("isctor") or f.d.get("isdtor") or f.d.get("islambda") or short(f.name).startswith("read"):
                continue
            direct_w = {}
            resets = set()
            for w, fld, kd in member_writes(f, into_lambda=False):
                if short(fld) in G:
                    direct_w.setdefault(w.get("id"), set()).add(short(fld))
                    if kd == "assign" and short(fld) == FLAG:
                        ch = [x for x in w.get("c", []) if isinstance(x, dict)]
                        rhs = strip(ch[-1]) if ch else None
                        while rhs is not None and rhs.get("k") in ("MaterializeTemporaryExpr", "CXXBindTemporaryExpr", "CXXFunctionalCastExpr", "ExprWithCleanups"):
                            rhs = strip(rhs["c"][0]) if rhs.get("c") else None
                        if rhs is not None and rhs.get("k") in ("CXXTemporaryObjectExpr", "CXXConstructExpr") and not [x for x in rhs.get("c", []) if isinstance(x, dict)]:
                            resets.add(w.get("id"))
            this_calls = {c.get("id"): t for c, t in effg.this_calls(f)}
            if not direct_w and not any(summary(t) for t in this_calls.values()):
                continue
            risky = {}
            for c in f.calls(into_lambda=False):
                if not is_reachable(f, c) or gpu_only_call(f, c) or any(a.get("k") == "CXXTryStmt" for a in f.ancestors(c)):
                    continue
                for t in P2.targets(f, c):
                    r = may_throw(t)
                    if r and feasible_at(f, c, t):
                        risky[c.get("id")] = (c, t, r)
                        break
            chk.saw(f)
            cfg = f.cfg
            found = {}

            def step(states, e):
                n = f.nodes.get(e)
                if n is None:
                    return states
                nid = n.get("id")
                if nid in risky:
                    for st in states:
                        if st and st != G:
                            found.setdefault(nid, set()).add(st)
                if nid in resets:
                    # the flag member is emptied: the writer then stores none of the co-serialized members, whatever they hold
                    return frozenset(frozenset(st - SUB) for st in states)
                add = set(direct_w.get(nid, ()))
                t = this_calls.get(nid)
                if t is not None:
                    sm = summary(t)
                    if sm == G:
                        return frozenset([frozenset()])        # the callee rewrites the whole group (its own body is checked by this rule)
                    add |= sm
                if not add:
                    return states
                out = set()
                for st in states:
                    ns = frozenset(st | add)
                    out.add(frozenset() if ns == G else ns)
                return frozenset(out)

            def transfer(states, blk):
                for e in blk["e"]:
                    if isinstance(e, int):
                        states = step(states, e)
                return states
            IN = forward(cfg, frozenset([frozenset()]), transfer, lambda st, blk, i: st, lambda a, b: a | b)
            atexit = sorted(sorted(x) for x in (IN.get(cfg.exit) or ()) if FLAG in x and not SUB <= x)
            if any(FLAG in v for v in direct_w.values()):
                ngrp += 1
                chk.ob("C14-D12.group", f.key + f.sig, "`%s` is stored together with %s at every return" % (FLAG, sorted(SUB - {FLAG})), not atexit, f.where,
                       "the method can return with %s written but not %s" % (atexit[0], sorted(SUB - set(atexit[0]))) if atexit else "",
                       "a method that sets the member whose emptiness the writer tests also sets the members that are written and read under that test")
            for nid, (c, t, r) in risky.items():
                sts = found.get(nid)
                ngrp += 1
                chk.ob("C14-D12.group", f.key + f.sig, "call of %s (may throw in %s) at line %d" % (short(t.name), short(r[0].name), c.get("l", 0)), not sts, f.loc(c),
                       "the call can fail when only %s of the group %s has been written" % (sorted(sorted(x) for x in sts)[0], sorted(G)) if sts else "",
                       "every throwing call is made while the pending-refinement group is untouched or completely rewritten")
    if ngroups < 2:
        raise AnalysisBroken("C14-D12: fewer than two grid classes with a multi-member pending-refinement group")
    chk.floor("C14-D12.group", ngrp, 3, "throwing calls in methods that write the pending-refinement group")

    # ------------------------------------------------------------------ D13 possibly empty local smart pointers
    from rules import nullable
    nv13, nd13 = nullable.nullable_rule(chk, db, "C14-D13.nullable", None)
    chk.floor("C14-D13.nullable", nv13, 2, "local smart pointers that are empty on some path (the grid under construction in the two readers)")
    chk.floor("C14-D13.nullable", nd13, 4, "dereferences of possibly empty local smart pointers")

    # ------------------------------------------------------------------ D14 counts of the custom rule file
    chk.rule("C14-D14.sized", "the reader of a custom rule file (documented: a file with an incorrect format raises one of the two exception types) sizes its containers with counts taken "
                              "from the stream; every such count passes a `count < 0 -> throw` test on every path before it reaches resize() or a container constructor, so that a negative "
                              "count cannot escape as std::length_error / std::bad_alloc")
    from tsg.typestate import must_pass_before
    nsz = 0
    for f in db.fns("TasGrid::CustomTabulated::read", required=False):
        if not f.d.get("targs") and not f.d.get("istemplateinst") and "<" not in f.key and not [1 for c in f.calls() if short(callee(c) or "") == "resize"]:
            continue
        guards = []      # (condition node, names tested for negativity) of if-statements that throw
        for a in f.walk():
            if a.get("k") == "IfStmt" and a.get("cond") is not None and a.get("then") is not None and \
                    any(q.get("k") == "CXXThrowExpr" for q in [a["then"]] + list(walk(a["then"]))):
                names = set()
                for q in [a["cond"]] + list(walk(a["cond"])):
                    if q.get("k") == "BinaryOperator" and q.get("op") in ("<", "<=") and const_val(strip(q["c"][1])) in (0, 1):
                        for z in [q["c"][0]] + list(walk(q["c"][0])):
                            if z.get("k") in ("DeclRefExpr", "MemberExpr"):
                                names.add(z.get("var") or short(z.get("field") or "") or z.get("name"))
                if names:
                    guards.append((a, names))
        # a range-for over a container with a throwing negativity test of its element guards the container
        for a in f.walk():
            if a.get("k") == "CXXForRangeStmt":
                inner = [g for g in guards if any(x is g[0] for x in walk(a))]
                if inner:
                    rng = {z.get("var") or short(z.get("field") or "") for z in walk(a) if z.get("k") in ("DeclRefExpr", "MemberExpr")}
                    for g in inner:
                        g[1].update(x for x in rng if x)
        sinks = []
        for c in f.walk():
            k = c.get("k")
            if k == "CXXMemberCallExpr" and short(callee(c) or "") == "resize":
                sinks.append((c, call_args(c)[0]))
            elif k in ("CXXConstructExpr", "CXXTemporaryObjectExpr") and c.get("t", "").startswith("std::vector<"):
                args = [x for x in c.get("c", []) if isinstance(x, dict)]
                if len(args) >= 1 and (args[0].get("t", "") in ("size_t", "unsigned long", "int", "std::size_t", "std::vector::size_type") or "size_type" in args[0].get("t", "")):
                    sinks.append((c, args[0]))
        for c, arg in sinks:
            if not is_reachable(f, c):
                continue
            used = {z.get("var") or short(z.get("field") or "") for z in [arg] + list(walk(arg)) if z.get("k") in ("DeclRefExpr", "MemberExpr")}
            used = {u for u in used if u and u not in ("l", "i", "j")}
            if not used:
                continue
            nsz += 1
            chk.saw(f)
            okg = [g for g, names in guards if names & used]
            def hits(g):
                # the test itself, or the header of a loop that applies it to every element (with no element there is nothing to size)
                hs = [g["cond"]] + list(walk(g["cond"]))
                for a in f.ancestors(g):
                    hdr = a.get("cond") if a.get("k") == "ForStmt" else a.get("range") if a.get("k") == "CXXForRangeStmt" else None
                    if hdr is not None:
                        hs += [hdr] + list(walk(hdr))
                return hs
            ok = any(must_pass_before(f, c, lambda n, hs=hits(g): any(x is n for x in hs)) for g in okg)
            chk.ob("C14-D14.sized", f.key, "container sized by `%s` at line %d" % (txt(strip(arg))[:40], c.get("l", 0)), bool(ok), f.loc(c),
                   "" if ok else "no throwing `< 0` test of %s lies on every path to this use" % sorted(used), "count validated before it sizes a container")
    chk.floor("C14-D14.sized", nsz, 10, "containers sized by counts read from a custom rule file")

    # ------------------------------------------------------------------ D15-D18 documented throws-clauses (fourth round)
    from rules import c14more
    n15 = c14more.family_rule(chk, db, "C14-D15.family", formula)
    chk.floor("C14-D15.family", n15, 6, "update<Family>Grid overloads")
    n16 = c14more.output_rule(chk, db, "C14-D16.output", formula)
    chk.floor("C14-D16.output", n16, 4, "API calls that hand `output` to a Global routine")
    n20 = c14more.tablebound_rule(chk, db, "C14-D20.tablebound")
    chk.floor("C14-D20.tablebound", n20, 5, "comparisons of a level with the number of tabulated levels")
    n21 = c14more.cwrap_rule(chk, db, "C14-D21.cwrap")
    chk.floor("C14-D21.cwrap", n21, 2, "C entry points that wrap a file read")
    n17 = c14more.rawlen_rule(chk, db, "C14-D17.rawlen")
    chk.floor("C14-D17.rawlen", n17, 8, "array copies in raw-pointer make overloads")
    n19 = c14more.modes_rule(chk, db, "C14-D19.modes")
    chk.floor("C14-D19.modes", n19, 8, "API calls that install a batch refinement")
    n18 = c14more.nopoints_rule(chk, db, "C14-D18.nopoints")
    chk.floor("C14-D18.nopoints", n18, 1, "vector overload of loadNeededValues")

    # ------------------------------------------------------------------ D11 nested-only machinery behind Global grids
    chk.rule("C14-D11.nested", "GridGlobal / DynamicConstructorDataGlobal routines that build point sets with generateNestedPoints outside an isNonNested() alternative are reachable from the API "
                               "only behind a rejection of non-nested rules: directly (isNonNested / isSequence test that throws), or through the construction flag, which is raised only "
                               "behind such a test (restored files and copies carry the flag of a grid that passed it)")
    NCL = ("TasGrid::GridGlobal", "TasGrid::DynamicConstructorDataGlobal")
    ncand = [f for f in allf if f.cls in NCL and not f.d.get("islambda")]
    nested = {}
    for f in ncand:
        for c in f.calls():
            if (callee(c) or "").endswith("::generateNestedPoints") and is_reachable(f, c):
                alt = any("isNonNested" in txt(a.get("cond") or (a["c"][0] if a.get("k") == "ConditionalOperator" and a.get("c") else {}) or {}) for a in f.ancestors(c) if a.get("k") in ("IfStmt", "ConditionalOperator"))
                if not alt:
                    nested[(f.key, f.sig)] = "calls generateNestedPoints"
    grew = True
    while grew:
        grew = False
        for f in ncand:
            k = (f.key, f.sig)
            if k in nested:
                continue
            for c in f.calls():
                if is_reachable(f, c) and any((t.key, t.sig) in nested and t.cls in NCL for t in P2.targets(f, c)):
                    nested[k] = "reaches nested-only code"
                    grew = True
                    break
    if len(nested) < 4:
        raise AnalysisBroken("nested-only routines of the Global construction machinery not found: re-derive C14-D11")

    def nested_guard(edges):
        return any(("isNonNested" in t and not tr) or ("isSequence(" in t and tr) for t, tr in edges)
    flag_sites = []
    for f in fns + [r for r in readers if r not in fns]:
        for q in f.walk():
            if q.get("k") == "BinaryOperator" and q.get("op") == "=" and short((strip(q["c"][0]) or {}).get("field") or "") == "using_dynamic_construction" and txt(strip(q["c"][1])) == "true":
                flag_sites.append((f, q))
    flag_ok = bool(flag_sites) and all(nested_guard([(txt(strip(e)), tr) for e, tr in cond_edges_dominating(f, q)]) for f, q in flag_sites)
    nnest = 0
    for f in fns:
        last = short(f.name)
        if f.d.get("const") or last.startswith(("read", "copy")) or last in ("operator=",):
            continue
        for c in f.calls(into_lambda=False):
            ts = [t for t in P2.targets(f, c) if t.cls == "TasGrid::GridGlobal" and (t.key, t.sig) in nested]
            if not ts:
                continue
            nnest += 1
            chk.saw(f)
            edges = [(txt(strip(e)), tr) for e, tr in cond_edges_dominating(f, c)]
            direct = nested_guard(edges)
            byflag = any((t == "using_dynamic_construction" and tr) or (t == "!using_dynamic_construction" and not tr) for t, tr in edges) and flag_ok
            chk.ob("C14-D11.nested", f.key + f.sig, "%s reached only for nested rules" % short(ts[0].name), direct or byflag, f.loc(c),
                   "guarded directly" if direct else "guarded by the construction flag, which is raised behind the test" if byflag else
                   "a Global grid with a non-nested rule reaches code that treats its tensors as nested (inconsistent points, heap corruption in later calls)")
    chk.floor("C14-D11.nested", nnest, 4, "API calls into nested-only Global routines")


    # ------------------------------------------------------------------ D7 null arguments
    chk.rule("C14-D7.null", "a literal null pointer (including a defaulted = nullptr argument) handed to a library function is never dereferenced there: every dereferencing use of the parameter "
                            "(subscript, *, ->, C-string consumers such as ifstream::open / std::string) is dominated by a null test of that parameter, lies in a branch that is dead for the "
                            "instantiation, or is forwarded to a parameter that is itself safe")

    def is_null(a):
        for q in walk(a):
            k = q.get("k")
            if k in ("CXXNullPtrLiteralExpr", "GNUNullExpr"):
                return True
            if k == "ImplicitCastExpr" and q.get("cast") == "NullToPointer":
                return True
            if k in ("CallExpr", "CXXMemberCallExpr", "DeclRefExpr", "ConditionalOperator", "CXXConstructExpr"):
                return False
        return False

    def nonnull_guarded(g, use, name):
        for c, tr in cond_edges_dominating(g, use):
            t = txt(strip(c)).replace(" ", "")
            if t in (name + "!=nullptr", name + "!=0", name, "nullptr!=" + name) and tr:
                return True
            if t in (name + "==nullptr", name + "==0", "!" + name, "nullptr==" + name) and not tr:
                return True
        return False

    def unsafe_uses(g, pidx, depth=0, seen=()):
        """dereferencing uses of parameter pidx of g that a null argument would reach"""
        ps = g.params()
        if pidx >= len(ps) or (g.key, g.sig, pidx) in seen or depth > 4:
            return []
        p = ps[pidx]
        names = {p["did"]: p["name"]}
        out = []
        par = g.parent
        for q in g.walk():
            if q.get("k") != "DeclRefExpr" or q.get("did") not in names or not is_reachable(g, q):
                continue
            # climb through casts / parens
            cur = q
            up = par.get(cur.get("id"))
            while up is not None and up.get("k") in ("ImplicitCastExpr", "ParenExpr", "CStyleCastExpr", "CXXStaticCastExpr", "CXXReinterpretCastExpr", "CXXConstCastExpr"):
                cur, up = up, par.get(up.get("id"))
            if up is None:
                continue
            k = up.get("k")
            deref = False
            if k == "ArraySubscriptExpr" and strip(up["c"][0]) is strip(q):
                deref = True
            elif k == "UnaryOperator" and up.get("op") == "*":
                deref = True
            elif k == "MemberExpr" and up.get("arrow"):
                deref = True
            elif k == "BinaryOperator" and up.get("op") in ("+", "-") and "*" in (up.get("t") or ""):
                deref = True        # pointer arithmetic feeding an access
            elif k in ("CallExpr", "CXXMemberCallExpr", "CXXConstructExpr", "CXXOperatorCallExpr"):
                args = call_args(up) if k != "CXXConstructExpr" else [c for c in up.get("c", []) if isinstance(c, dict)]
                idx = next((i for i, a in enumerate(args) if any(x is q for x in walk(a))), None)
                t = db.resolve(up) if k != "CXXConstructExpr" else None
                cal = callee(up) or up.get("ctor") or ""
                if t is not None and idx is not None and not cal.startswith("std::"):
                    inner = unsafe_uses(t, idx, depth + 1, seen + ((g.key, g.sig, pidx),))
                    if inner and not nonnull_guarded(g, q, names[q["did"]]):
                        out.append((g, q, "forwarded to %s, where %s" % (short(t.name), inner[0][2])))
                    continue
                if cal.startswith("std::") and ("char" in p["t"]) and idx is not None:
                    deref = True    # C-string consumers of the standard library require a valid string
                elif cal.startswith("std::copy") or cal.startswith("std::fill"):
                    deref = True
            if deref and not nonnull_guarded(g, q, names[q["did"]]):
                out.append((g, q, "`%s` @%d dereferences %s without a null test" % (txt(up)[:50], up.get("l", 0), names[q["did"]])))
        return out

    nnull = 0
    for fns_ in db.load_all().values():
        for f in fns_:
            if f.file.startswith("@verif") or "test" in f.file.lower() or "Example" in f.file:
                continue
            for c in f.calls():
                if not is_reachable(f, c):
                    continue
                t = db.resolve(c)
                if t is None:
                    continue
                ps = t.params()
                for i, a in enumerate(call_args(c)):
                    if i < len(ps) and "*" in ps[i]["t"] and is_null(a):
                        nnull += 1
                        chk.saw(t)
                        bad = unsafe_uses(t, i)
                        chk.ob("C14-D7.null", f.key + f.sig, "null passed as %s of %s @%d" % (ps[i]["name"] or "argument %d" % i, short(t.name), c.get("l", 0)), not bad, f.loc(c),
                               bad[0][2] if bad else "", "every dereference of the parameter is behind a null test or in a dead branch")
    chk.floor("C14-D7.null", nnull, 6, "literal null pointer arguments to library functions")

    return ("Static rule discharge over the public API of TasmanianSparseGrid and its call-graph closure: types of all reachable throw expressions, CFG reachability of a throw after a "
            "state write (validate-before-mutate, commit-at-the-end for the readers), presence of a size check before a vector's data pointer is forwarded, and agreement of the "
            "validation guards inside families of sibling entry points. 'Never hangs / no undefined behaviour for any bad call in any state' is dynamic and not decided.")
