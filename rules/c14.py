"""C14  Misuse is reported by the documented exceptions and never corrupts a grid (structural clauses)."""
import networkx as nx

from tsg.facts import DB, strip, txt, callee, call_args, call_object, walk, const_val, short, callee_node
from tsg.flow import var_of, base_var, cond_edges_dominating
from tsg.typestate import member_writes, member_of
from tsg.effects import Purity
from tsg.build import AnalysisBroken

TSG = "TasGrid::TasmanianSparseGrid"
CPP = "SparseGrids/TasmanianSparseGrid.cpp"
HPP = "SparseGrids/TasmanianSparseGrid.hpp"
ALLOWED = ("std::runtime_error", "std::invalid_argument")
STATE = ("base", "domain_transform_a", "domain_transform_b", "conformal_asin_power", "llimits", "using_dynamic_construction")
# std calls that throw other exception types on bad input
THROWING_STD = {"std::stoi": "std::out_of_range / std::invalid_argument", "std::stol": "std::out_of_range", "std::stod": "std::out_of_range", "std::stof": "std::out_of_range"}


def throw_type(n):
    for q in walk(n):
        if q.get("k") in ("CXXConstructExpr", "CXXTemporaryObjectExpr") and q.get("ctor", "").startswith("std::") and ("error" in q["ctor"] or "argument" in q["ctor"] or "exception" in q["ctor"] or "range" in q["ctor"]):
            return q["ctor"]
    c = n.get("c") or []
    if not c:
        return "rethrow"
    return (strip(c[0]) or {}).get("t", "?")


def formula(node, atoms):
    """propositional abstraction of a condition: && || ! over atoms named by their canonical text"""
    import sympy
    s = strip(node, casts=False)
    if s is None:
        return sympy.true
    k = s.get("k")
    if k == "BinaryOperator" and s.get("op") == "&&":
        return sympy.And(formula(s["c"][0], atoms), formula(s["c"][1], atoms))
    if k == "BinaryOperator" and s.get("op") == "||":
        return sympy.Or(formula(s["c"][0], atoms), formula(s["c"][1], atoms))
    if k == "UnaryOperator" and s.get("op") == "!":
        return sympy.Not(formula(s["c"][0], atoms))
    t = txt(s)
    if t not in atoms:
        atoms[t] = sympy.Symbol("a%d" % len(atoms))
    return atoms[t]


def feasible_together(fn, n1, n2, mutated):
    """can one execution satisfy the branch conditions that dominate n1 and those that dominate n2?
    Atoms are treated as stable between the two points unless they mention a mutated field."""
    import sympy
    from sympy.logic.inference import satisfiable
    atoms = {}
    parts = []
    for node in (n1, n2):
        for c, tr in cond_edges_dominating(fn, node):
            if any(m in txt(c) for m in mutated):
                continue
            f = formula(c, atoms)
            parts.append(f if tr else sympy.Not(f))
    if not parts:
        return True
    return bool(satisfiable(sympy.And(*parts)))


def reach(cfg, frm_block, frm_idx, to_block, to_idx):
    """element (to) reachable from just after element (frm) along CFG edges"""
    if frm_block == to_block and to_idx > frm_idx:
        return True
    for s in cfg.succs(frm_block):
        if s == to_block or nx.has_path(cfg.G, s, to_block):
            return True
    return False


def run(chk):
    db = DB("serial")
    db.load_all()
    chk.rule("C14-D1.types", "over the call-graph closure of the public methods of TasmanianSparseGrid every throw constructs std::runtime_error or std::invalid_argument; "
                             "standard conversions that throw other types (std::stoi ...) are enclosed in a handler that converts them")
    chk.rule("C14-D2.order", "in every public mutating method no throw is reachable after a write to the grid's state (base, domain transform, conformal map, level limits, construction flag): "
                             "arguments are validated before anything is changed; in make* every check precedes clear()")
    chk.rule("C14-D3.commit", "readAscii/readBinary: the only state change that may precede a throw is the call of clear() (which resets *all* state); restored data are committed after the last throw")
    chk.rule("C14-D4.sizes", "every public method that forwards .data() of a std::vector argument to a raw-pointer overload compares that vector's size first (throwing on mismatch)")
    chk.rule("C14-D6.siblings", "families of entry points that take the same parameters reject the same things: within a family the guards on the common parameter roles are identical "
                                "(today's tree is the reference, no hand-written list)")

    rec = db.record(TSG)
    pub = {(m["name"], m["sig"]) for m in rec["methods"] if m["access"] == "public"}
    fns = [f for f in db.all_functions([CPP, HPP]) if f.cls == TSG and (f.name, f.sig) in pub]
    chk.floor("C14-D1.types", len(fns), 120, "public methods of TasmanianSparseGrid with a body")

    # ------------------------------------------------------------------ D1
    P = Purity(db)      # reuse its call-graph closure (targets incl. virtual overriders)
    seen = set()
    throws = {}
    stdcalls = {}
    work = list(fns)
    while work:
        f = work.pop()
        k = (f.key, f.sig)
        if k in seen:
            continue
        seen.add(k)
        for n in f.walk():
            if n.get("k") == "CXXThrowExpr":
                throws.setdefault((f.name, throw_type(n)), []).append((f, n))
            cal = callee(n)
            if cal in THROWING_STD:
                stdcalls.setdefault((f.name, cal), []).append((f, n))
            if cal is not None:
                for t in P.targets(f, n):
                    if (t.key, t.sig) not in seen and not t.file.startswith("@verif"):
                        work.append(t)
    chk.floor("C14-D1.types", len(seen), 600, "functions in the closure of the public API")
    nthrow = sum(len(v) for v in throws.values())
    chk.floor("C14-D1.types", nthrow, 150, "throw expressions in the closure")
    bad_types = {}
    for (fname, ty), sites in sorted(throws.items()):
        if ty in ALLOWED or ty == "rethrow":
            continue
        f, n = sites[0]
        chk.ob("C14-D1.types", fname, "throws %s" % ty, False, f.loc(n), "reachable from the public API; documented types are std::runtime_error and std::invalid_argument")
    chk.ob("C14-D1.types", "(closure)", "%d throw expressions of the documented types" % sum(len(v) for (fn_, ty), v in throws.items() if ty in ALLOWED), True, "")
    for (fname, cal), sites in sorted(stdcalls.items()):
        for f, n in sites[:1]:
            # enclosed in a try whose handler catches std::exception / logic_error / out_of_range?
            ok = False
            for a in f.ancestors(n):
                if a.get("k") == "CXXTryStmt":
                    cts = [c.get("catch", "") for c in a.get("c", []) if c.get("k") == "CXXCatchStmt"]
                    if any(("out_of_range" in c or "logic_error" in c or "std::exception" in c or c == "...") for c in cts):
                        ok = True
            chk.ob("C14-D1.types", fname, "%s converted" % cal, ok, f.loc(n), "%s can throw %s, which is not a documented exception type" % (cal, THROWING_STD[cal]))

    # ------------------------------------------------------------------ D2 / D3
    nmut = 0
    nread = 0
    readers = [f for f in db.all_functions([CPP]) if f.cls == TSG and f.name.rsplit("::", 1)[-1] in ("readAscii", "readBinary")]
    for f in fns + [r for r in readers if r not in fns]:
        if f.d.get("const") or f.d.get("isctor") or f.d.get("isdtor"):
            continue
        last = f.name.rsplit("::", 1)[-1]
        is_read = last in ("readAscii", "readBinary")
        muts = []
        for n, fld, kind in member_writes(f, into_lambda=False):
            if short(fld) in STATE and fld.startswith(TSG + "::"):
                # non-const calls *through* base (base->loadNeededValues) change the grid itself: they count too
                muts.append((n, short(fld)))
        clears = [c for c in f.calls(TSG + "::clear", into_lambda=False)]
        ths = [n for n in walk(f.body, into_lambda=False) if n.get("k") == "CXXThrowExpr"]
        if not muts and not clears:
            continue
        if not ths:
            continue
        chk.saw(f)
        cfg = f.cfg
        items = [(n, fld) for n, fld in muts] + [(c, "clear()") for c in clears]
        for n, fld in items:
            bn = cfg.block_of(n)
            if bn is None:
                continue
            late = []
            for t in ths:
                bt = cfg.block_of(t)
                if bt is None:
                    continue
                # a throw inside the same call expression (argument evaluation) precedes the write
                if reach(cfg, bn[0], bn[1], bt[0], bt[1]) and feasible_together(f, n, t, STATE):
                    late.append(t)
            nmut += 1
            rule = "C14-D3.commit" if is_read else "C14-D2.order"
            if is_read:
                nread += 1
            if is_read and fld == "clear()":
                chk.ob(rule, f.name + f.sig, "clear() before parsing", True, f.loc(n), "resets the whole object: a failed read leaves an empty, consistent grid")
                continue
            if last.startswith("make") and fld == "clear()":
                chk.ob(rule, f.name + f.sig, "all checks precede clear()", not late, f.loc(n), "throw at line(s) %s after clear()" % sorted({t.get("l") for t in late}) if late else "")
                continue
            chk.ob(rule, f.name + f.sig, "write of %s @%d not followed by a throw" % (fld, n.get("l", 0)), not late, f.loc(n),
                   ("throw at line(s) %s is reachable after %s was changed: a rejected call leaves the grid modified" % (sorted({t.get("l") for t in late}), fld)) if late else "")
    chk.floor("C14-D2.order", nmut, 25, "state writes in methods that can throw")
    chk.floor("C14-D3.commit", nread, 12, "state writes in readAscii/readBinary")

    # ------------------------------------------------------------------ D4
    nfw = 0
    for f in fns:
        vec_params = {p["did"]: p for p in f.params() if "std::vector<" in p["t"] and "&" in p["t"]}
        if not vec_params:
            continue
        for c in walk(f.body, into_lambda=False):
            cal = callee(c) or ""
            if not (cal.startswith(TSG + "::") or cal.startswith("TasGrid::Grid") or cal.startswith("TasGrid::BaseCanonicalGrid")):
                continue
            for a in call_args(c):
                s = strip(a)
                # v.data()  or  (cond) ? nullptr : v.data()
                datas = [q for q in walk(a) if q.get("k") == "CXXMemberCallExpr" and (callee(q) or "").endswith("::data") and var_of(call_object(q)) in vec_params]
                for q in datas:
                    v = vec_params[var_of(call_object(q))]
                    if "const" not in v["t"]:
                        continue      # output vectors are resized by the method itself
                    nfw += 1
                    chk.saw(f)
                    sized = False
                    for i in walk(f.body, into_lambda=False):
                        if i.get("k") == "IfStmt" and ("%s.size()" % v["name"]) in txt(i.get("cond")) and any(x.get("k") == "CXXThrowExpr" for x in walk(i.get("then"))):
                            if i.get("l", 0) <= c.get("l", 0):
                                sized = True
                    # delegated: the callee is another overload taking the vector? no: raw pointer. accept checks done by a size helper
                    if not sized:
                        for i in walk(f.body, into_lambda=False):
                            if (callee(i) or "").endswith(("checkVarSize", "::resize")) and v["name"] in txt(i):
                                sized = True
                            # the number of items handed to the raw overload is derived from the vector's size
                            if i.get("k") == "CXXMemberCallExpr" and (callee(i) or "").endswith("::size") and var_of(call_object(i)) == v["did"] and i.get("l", 0) <= c.get("l", 0):
                                sized = True
                    chk.ob("C14-D4.sizes", f.name + f.sig, "%s.data() forwarded to %s" % (v["name"], short(cal)), sized, f.loc(c),
                           "" if sized else "no size check on %s before its data pointer is handed to the raw overload" % v["name"])
    chk.floor("C14-D4.sizes", nfw, 10, "vector arguments forwarded as raw pointers")

    # ------------------------------------------------------------------ D6 sibling validation cores
    def guards(f, depth=0):
        """set of (role, op, const/extent text, exception type) for throwing guards of f (and of the overload it forwards to)"""
        res = set()
        pnames = {p["name"] for p in f.params()}
        for i in walk(f.body, into_lambda=False):
            if i.get("k") != "IfStmt":
                continue
            th = [x for x in walk(i.get("then")) if x.get("k") == "CXXThrowExpr"]
            if not th or (i.get("else") is not None and not all(x.get("k") == "CXXThrowExpr" for x in [])):
                pass
            if not th:
                continue
            ty = short(throw_type(th[0]))

            def atoms(e):
                s = strip(e, casts=False)
                if s is not None and s.get("k") == "BinaryOperator" and s.get("op") in ("||", "&&"):
                    return atoms(s["c"][0]) + atoms(s["c"][1])
                return [s]
            for a in atoms(i["cond"]):
                t = txt(a)
                used = [p for p in pnames if p in t.replace("(", " ").replace(")", " ").replace(".", " ").replace("!", " ").split()]
                for p in used:
                    res.add((p, t.replace("(size_t)", "").replace("  ", " "), ty))
                # state preconditions shared by a whole family; grid-family tests differ on purpose between
                # sub-families (anisotropic vs surplus candidates) and are not compared
                if not used and "outs ==" in t and "output" in pnames:
                    res.add(("output", t, ty))
                elif not used and any(w in t for w in ("empty()", "using_dynamic_construction", "getNumLoaded()")):
                    res.add(("<state>", t, ty))
        if depth == 0:
            for c in f.calls(into_lambda=False):
                t = db.resolve(c)
                if t is not None and t.cls == TSG and t.name == f.name and t.sig != f.sig:
                    res |= guards(t, 1)
        return res
    families = {
        "make": ["makeGlobalGrid", "makeSequenceGrid", "makeLocalPolynomialGrid", "makeWaveletGrid", "makeFourierGrid"],
        "refine": ["setAnisotropicRefinement", "setSurplusRefinement"],
        "construct": ["getCandidateConstructionPoints"],
    }
    roles = {"make": ["dimensions", "outputs", "depth", "level_limits"], "refine": ["output", "level_limits", "<state>"], "construct": ["level_limits", "<state>"]}
    nfam = 0
    for fam, names in families.items():
        members = [f for f in fns if f.name.rsplit("::", 1)[-1] in names and any("std::vector<int>" in p["t"] for p in f.params())]
        gs = {f: guards(f) for f in members}
        for role in roles[fam]:
            per = {}
            for f in members:
                if role != "<state>" and role not in {p["name"] for p in f.params()}:
                    continue
                gl = sorted((t.replace(f.name.rsplit("::", 1)[-1], "F"), ty) for r, t, ty in gs[f] if r == role)
                # normalise away the method's own name in messages and local aliases
                per[f] = tuple((t, ty) for t, ty in gl)
            if len(per) < 2:
                continue
            # the majority abstract is the reference
            from collections import Counter
            cnt = Counter(per.values())
            ref, _n = cnt.most_common(1)[0]
            for f, g in per.items():
                nfam += 1
                chk.saw(f)
                missing = [x for x in ref if x not in g]
                chk.ob("C14-D6.siblings", f.name + f.sig, "%s family, role %s" % (fam, role), not missing, f.where,
                       ("siblings reject %s, this overload does not" % missing) if missing else "%d guard(s) agree with the family" % len(g))
    chk.floor("C14-D6.siblings", nfam, 20, "family/role comparisons")

    return ("Static rule discharge over the public API of TasmanianSparseGrid and its call-graph closure: types of all reachable throw expressions, CFG reachability of a throw after a "
            "state write (validate-before-mutate, commit-at-the-end for the readers), presence of a size check before a vector's data pointer is forwarded, and agreement of the "
            "validation guards inside families of sibling entry points. 'Never hangs / no undefined behaviour for any bad call in any state' is dynamic and not decided.")
