#!/bin/bash
# tools/all_seeds.sh : apply every kept seeded change to /repo in turn, run the check of its property, undo it.
# Prints one line per seed: DETECTED (exit 1 with a VIOLATION line), MISSED (exit 0) or BROKEN (exit 2).
# optional argument: a regular expression, only seeds whose name matches are run
cd /verif
for d in seeded/*/; do
  name=$(basename $d)
  if [ -n "$1" ] && ! [[ "$name" =~ $1 ]]; then continue; fi
  prop=$(python3 -c "import json;print(json.load(open('$d/meta.json'))['property'])")
  patch=$d/patch.diff; [ -f $d/patch.head.diff ] && patch=$d/patch.head.diff
  out=$(tools/try_seed.sh /verif/$patch $prop 2>&1)
  rc=$(echo "$out" | sed -n 's/^--- .*: exit \([0-9]*\)$/\1/p' | head -1)
  case "$rc" in
    1) verdict=DETECTED;; 0) verdict=MISSED;; *) verdict="BROKEN($rc)";;
  esac
  rule=$(echo "$out" | grep -m1 "violated" | sed -n 's/.*: \(C[0-9]*-D[0-9A-Za-z.]*\) violated.*/\1/p')
  echo "$name $prop $verdict $rule"
  [ -z "$rc" ] && echo "$out" | head -3
done
