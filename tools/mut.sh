#!/bin/bash
# tools/mut.sh <PROP> <file> <sed-expression>  : apply a one-line mutation to /repo, run the check, undo
export TSG_SCRATCH_EVIDENCE=1   # the tree is changed on purpose: evidence of these runs goes to .work/evidence-dev
cd /repo || exit 2
[ -n "$(git status --porcelain --untracked-files=no)" ] && { echo "/repo not clean"; exit 2; }
sed -i "$3" "$2"
if [ -z "$(git diff --stat)" ]; then echo "mutation did not change anything"; exit 2; fi
trap 'git -C /repo checkout -q -- .' EXIT
cd /verif; out=$(./check $1 2>&1); rc=$?
echo "--- $1 mutant [$3]: exit $rc"; echo "$out" | grep -E "violated|BROKEN" | cut -c1-260 | head -3
