#!/bin/bash
# tools/try_seed.sh <patch.diff> <PROP> [<PROP>...]  : apply a seeded change to /repo, run the checks, undo it.
P=$1; shift
cd /repo || exit 2
if [ -n "$(git status --porcelain --untracked-files=no)" ]; then echo "/repo not clean"; exit 2; fi
git apply "$P" || { echo "patch does not apply"; exit 2; }
trap 'git -C /repo checkout -q -- .' EXIT
cd /verif
for prop in "$@"; do
  out=$(./check $prop 2>&1); rc=$?
  echo "--- $prop on $(basename $(dirname $P))/$(basename $P): exit $rc"
  echo "$out" | grep -E "violated|VIOLATION|ANALYSIS-BROKEN|KNOWN" | cut -c1-300 | head -8
done
