#!/bin/bash
# tools/try_seed.sh <patch.diff> <PROP> [<PROP>...]  : apply a seeded change to /repo, run the checks, undo it.
# TSG_REPO=<worktree> runs the same on a scratch worktree instead of /repo (used while /repo is busy)
export TSG_SCRATCH_EVIDENCE=1   # the tree is changed on purpose: evidence of these runs goes to .work/evidence-dev
P=$1; shift
R=${TSG_REPO:-/repo}
cd $R || exit 2
if [ -n "$(git status --porcelain --untracked-files=no)" ]; then echo "$R not clean"; exit 2; fi
git apply "$P" || { echo "patch does not apply"; exit 2; }
trap "git -C $R checkout -q -- ." EXIT
cd /verif
for prop in "$@"; do
  out=$(./check $prop 2>&1); rc=$?
  echo "--- $prop on $(basename $(dirname $P))/$(basename $P): exit $rc"
  echo "$out" | grep -E "violated|VIOLATION|ANALYSIS-BROKEN|KNOWN" | cut -c1-300 | head -8
done
