#!/bin/bash
# Confirms a seeded defect in a scratch worktree (never in /repo):
#   tools/confirm_seed.sh <worktree> <seed-dir> [<build-dir-name>]
# 1. clean tree: build, demo must PASS;  2. patch applied: build, ctest 14/14, demo must FAIL;
# 3. tree reverted.  Writes <seed-dir>/confirm.json and prints a one-line verdict.
set -u
WT=$1; SD=$2; BD=${3:-_build}
cd "$WT" || exit 2
git checkout -q -- . || exit 2
demo_build=$(python3 -c "import json,sys;print(json.load(open('$SD/meta.json'))['demo_build'])")
demo_run=$(python3 -c "import json,sys;print(json.load(open('$SD/meta.json'))['demo_run'])")
log=$SD/confirm.log; : > "$log"
step() { echo "== $*" >> "$log"; }
build() { cmake -G Ninja -S . -B $BD -DCMAKE_BUILD_TYPE=RelWithDebInfo >>"$log" 2>&1 && cmake --build $BD -j12 >>"$log" 2>&1; }
step "clean build"; build || { echo "CONFIRM $SD: clean build failed"; exit 2; }
step "demo build (clean)"; bash -c "$demo_build" >>"$log" 2>&1 || { echo "CONFIRM $SD: demo build failed on clean tree"; exit 2; }
step "demo run (clean)"; timeout 600 bash -c "$demo_run" >>"$log" 2>&1; clean_rc=$?
step "apply patch"; git apply "$SD/patch.diff" >>"$log" 2>&1 || { echo "CONFIRM $SD: patch does not apply"; git checkout -q -- .; exit 2; }
step "patched build"; build; build_rc=$?
if [ $build_rc -ne 0 ]; then git checkout -q -- .; echo "CONFIRM $SD: patched tree does not build"; exit 2; fi
step "demo build (patched)"; bash -c "$demo_build" >>"$log" 2>&1
step "demo run (patched)"; timeout 600 bash -c "$demo_run" >>"$log" 2>&1; patched_rc=$?
step "ctest (patched)"; rm -f $BD/Addons/checkpoint $BD/Addons/checkpoint_old; ctest --test-dir $BD -j6 --timeout 1500 >"$SD/confirm.ctest.log" 2>&1; ctest_rc=$?
passed=$(grep -c "Passed" "$SD/confirm.ctest.log")
git checkout -q -- .
step "restore build"; build
python3 - <<EOF
import json
json.dump({"demo_clean_exit": $clean_rc, "demo_patched_exit": $patched_rc, "ctest_exit": $ctest_rc, "ctest_passed": $passed,
           "confirmed": ($clean_rc == 0 and $patched_rc != 0 and $ctest_rc == 0 and $passed == 14)}, open("$SD/confirm.json", "w"), indent=1)
EOF
echo "CONFIRM $SD: demo clean=$clean_rc patched=$patched_rc ctest=$ctest_rc passed=$passed"
