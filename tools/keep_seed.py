#!/usr/bin/env python3
"""tools/keep_seed.py <name> <srcdir> <caught-by text>: copy a confirmed seeded change into /verif/seeded/<name>/"""
import json, os, shutil, sys
name, src, caught = sys.argv[1], sys.argv[2], sys.argv[3]
dst = os.path.join("/verif/seeded", name)
os.makedirs(dst, exist_ok=True)
for f in os.listdir(src):
    if f in ("patch.diff", "patch.head.diff", "meta.json", "confirm.json") or f.startswith("demo.") and not f.endswith(".log"):
        shutil.copy(os.path.join(src, f), dst)
m = json.load(open(os.path.join(dst, "meta.json")))
c = json.load(open(os.path.join(dst, "confirm.json")))
m["confirmed_by_me"] = {"what_i_ran": "tools/confirm_seed.sh in a scratch worktree under /tmp: clean build + demo (must pass), git apply patch.diff, rebuild, demo (must fail), full ctest (must be 14/14), revert",
                        "demo_exit_clean": c["demo_clean_exit"], "demo_exit_patched": c["demo_patched_exit"], "ctest_passed_with_patch": c["ctest_passed"], "confirmed": c["confirmed"]}
m["detected_by"] = caught
json.dump(m, open(os.path.join(dst, "meta.json"), "w"), indent=1)
os.remove(os.path.join(dst, "confirm.json"))
print("kept", dst, "confirmed=", c["confirmed"])
